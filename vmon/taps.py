"""Boundary taps: wrap functions / methods of the library under check so that every caller goes
through a monitor; re-bind early-bound references; count events; detect calls that went around
a tap (sys.monitoring PY_START on the original code objects).

A monitor is an object with
    before(args, kwargs) -> token
    after(token, args, kwargs, result, exc) -> None
Monitors run in the calling thread (the library is single threaded).  While a monitor runs,
nested tapped calls are passed straight through (monitors may use the library themselves).
"""
import sys
import os
import functools
import types

_installed = []          # (owner, name, orig, wrapper)
_state = {'in_monitor': 0, 'enabled': True}
wrapper_calls = {}       # key -> number of times the wrapper was entered
events = {}              # key -> number of monitored events
monitor_errors = []      # tracebacks of exceptions raised by monitors (harness errors)
_code_entries = {}       # code object -> entries seen by sys.monitoring
_code_key = {}
_TOOL = 4


def _require_guard():
    if os.environ.get('PYERRORS_VERIF') != '1':
        raise RuntimeError('taps refuse to install without PYERRORS_VERIF=1')


class Monitor:
    def before(self, args, kwargs):
        return None

    def after(self, token, args, kwargs, result, exc):
        return None


def make_wrapper(orig, monitor, key):
    wrapper_calls.setdefault(key, 0)
    events.setdefault(key, 0)

    @functools.wraps(orig)
    def tapped(*args, **kwargs):
        wrapper_calls[key] += 1
        if _state['in_monitor'] or not _state['enabled']:
            return orig(*args, **kwargs)
        _state['in_monitor'] += 1
        token = None
        try:
            token = monitor.before(args, kwargs)
        except Exception:
            _monitor_failed(key)
        finally:
            _state['in_monitor'] -= 1
        try:
            result = orig(*args, **kwargs)
        except BaseException as e:
            _state['in_monitor'] += 1
            try:
                events[key] += 1
                monitor.after(token, args, kwargs, None, e)
            except Exception:
                _monitor_failed(key)
            finally:
                _state['in_monitor'] -= 1
            raise
        _state['in_monitor'] += 1
        try:
            events[key] += 1
            monitor.after(token, args, kwargs, result, None)
        except Exception:
            _monitor_failed(key)
        finally:
            _state['in_monitor'] -= 1
        return result
    tapped.__vmon_orig__ = orig
    return tapped


def _monitor_failed(key):
    import traceback
    if len(monitor_errors) < 5:
        monitor_errors.append('monitor of %s raised: %s' % (key, traceback.format_exc()[-1500:]))
    else:
        monitor_errors.append('')


def _watch_code(orig, key):
    code = getattr(orig, '__code__', None)
    if code is None or not hasattr(sys, 'monitoring'):
        return
    mon = sys.monitoring
    if mon.get_tool(_TOOL) is None:
        mon.use_tool_id(_TOOL, 'vmon-bypass')

        def on_start(c, offset):
            if c in _code_entries:
                _code_entries[c] += 1
        mon.register_callback(_TOOL, mon.events.PY_START, on_start)
    _code_entries[code] = 0
    _code_key[code] = key
    mon.set_local_events(_TOOL, code, mon.events.PY_START)


def rebind(orig, wrapper, prefix='pyerrors'):
    """Replace every attribute of every loaded module / class of the library that *is* orig."""
    n = 0
    for mname, mod in list(sys.modules.items()):
        if mod is None or not (mname == prefix or mname.startswith(prefix + '.')):
            continue
        for aname, val in list(vars(mod).items()):
            if val is orig:
                setattr(mod, aname, wrapper)
                _installed.append((mod, aname, orig, wrapper))
                n += 1
            elif isinstance(val, type) and getattr(val, '__module__', '').startswith(prefix):
                for cname, cval in list(vars(val).items()):
                    if cval is orig:
                        setattr(val, cname, wrapper)
                        _installed.append((val, cname, orig, wrapper))
                        n += 1
    return n


def tap_function(module, name, monitor, key=None):
    _require_guard()
    orig = getattr(module, name)
    stacked = hasattr(orig, '__vmon_orig__')     # taps stack: a second monitor wraps the first wrapper
    key = key or name
    if stacked:
        key = key + '#2' if key in events else key
    w = make_wrapper(orig, monitor, key)
    n = rebind(orig, w)
    if n == 0:
        setattr(module, name, w)
        _installed.append((module, name, orig, w))
    if not stacked:
        _watch_code(orig, key)
    return w


def tap_method(cls, name, monitor, key=None):
    _require_guard()
    orig = cls.__dict__[name]
    stacked = hasattr(orig, '__vmon_orig__')     # taps stack: a second monitor wraps the first wrapper
    key = key or '%s.%s' % (cls.__name__, name)
    if stacked:
        key = key + '#2' if key in events else key
    if not isinstance(orig, types.FunctionType):
        raise TypeError('only plain functions can be tapped: %s' % key)
    w = make_wrapper(orig, monitor, key)
    # aliases on the same class (e.g. Obs.gm = Obs.gamma_method)
    for cname, cval in list(vars(cls).items()):
        if cval is orig:
            setattr(cls, cname, w)
            _installed.append((cls, cname, orig, w))
    if not stacked:
        _watch_code(orig, key)
    return w


def remove_all():
    for owner, name, orig, w in reversed(_installed):
        try:
            setattr(owner, name, orig)
        except Exception:
            pass
    _installed.clear()
    if hasattr(sys, 'monitoring') and sys.monitoring.get_tool(_TOOL) is not None:
        for code in list(_code_entries):
            try:
                sys.monitoring.set_local_events(_TOOL, code, 0)
            except Exception:
                pass


class paused:
    """Context manager: calls made inside go straight to the originals, unmonitored."""

    def __enter__(self):
        _state['in_monitor'] += 1

    def __exit__(self, *a):
        _state['in_monitor'] -= 1


def report(ctx):
    """Copy the event counters into the context; flag bypasses."""
    for k, v in events.items():
        ctx.count('tap:' + k, v)
    for m in monitor_errors:
        if m:
            ctx.harness_errors.append(m)
    if monitor_errors:
        ctx.count('harness_errors', len(monitor_errors))
    for code, n in _code_entries.items():
        k = _code_key[code]
        if n > wrapper_calls.get(k, 0):
            ctx.count('tap_bypass', n - wrapper_calls.get(k, 0))
