"""Snapshots of library objects as plain data (duck-typed, no pyerrors import).

snapshot of an Obs:
    {'value': float, 'chains': {name: (idl list, deltas ndarray copy, r_value)}, 'idl_form': {name: 'range'|'list'},
     'cov': {name: (cov ndarray, grad 1-d ndarray)}, 'rew': bool}
"""
import numpy as np

from .ctx import digest


def is_obs(x):
    return type(x).__name__ == 'Obs' and hasattr(x, 'deltas')


def is_cobs(x):
    return type(x).__name__ == 'CObs' and hasattr(x, '_real')


def is_corr(x):
    return type(x).__name__ == 'Corr' and hasattr(x, 'content')


def snap(o):
    covn = set(o.covobs.keys())
    chains = {}
    form = {}
    for n in o.names:
        if n in covn:
            continue
        chains[n] = (list(o.idl[n]), np.array(o.deltas[n], dtype=float).copy(), float(o.r_values[n]))
        form[n] = 'range' if isinstance(o.idl[n], range) else type(o.idl[n]).__name__
    cov = {n: (np.array(o.covobs[n].cov, dtype=float).copy(), np.array(o.covobs[n].grad, dtype=float).ravel().copy())
           for n in covn}
    return dict(value=o.value, chains=chains, idl_form=form, cov=cov, rew=bool(o.reweighted))


def obs_digest(o):
    """Digest of everything that constitutes the observable's data (not the analysis results)."""
    parts = [repr(o.value), tuple(o.names), bool(o.reweighted) if isinstance(o.reweighted, (bool, np.bool_)) else repr(o.reweighted)]
    for n in o.names:
        if n in o.covobs:
            parts.append(np.asarray(o.covobs[n].cov, dtype=float))
            parts.append(np.asarray(o.covobs[n].grad, dtype=float))
        else:
            idl = o.idl[n]
            parts.append(('range', idl.start, idl.stop, idl.step) if isinstance(idl, range) else tuple(int(i) for i in idl))
            parts.append(np.asarray(o.deltas[n], dtype=float))
            parts.append(repr(o.r_values[n]))
            parts.append(o.shape[n])
    parts.append(o.N)
    return digest(*parts)


def any_digest(x, depth=0):
    """Digest of an arbitrary argument (Obs, CObs, Corr, list, ndarray, number, ...)."""
    if depth > 5:
        return 'deep'
    if is_obs(x):
        return 'O' + obs_digest(x)
    if is_cobs(x):
        return 'C' + any_digest(x.real, depth + 1) + any_digest(x.imag, depth + 1)
    if is_corr(x):
        return 'K' + digest(x.T, x.N, repr(x.prange), repr(x.tag), repr(getattr(x, 'reweighted', None)),
                            [None if c is None else any_digest(c, depth + 1) for c in x.content])
    if isinstance(x, np.ndarray):
        if x.dtype == object:
            return 'A' + digest(x.shape, [any_digest(i, depth + 1) for i in x.ravel()])
        return 'a' + digest(x.shape, str(x.dtype), x)
    if isinstance(x, (list, tuple)):
        return type(x).__name__[0] + digest([any_digest(i, depth + 1) for i in x])
    if isinstance(x, dict):
        return 'd' + digest([(repr(k), any_digest(v, depth + 1)) for k, v in x.items()])
    if isinstance(x, range):
        return 'r' + digest(x.start, x.stop, x.step)
    return 'v' + digest(repr(x))


def samples_of(o, name):
    """Per-configuration measured numbers of a chain: {cfg: r_value + delta}."""
    return {int(c): float(o.r_values[name] + d) for c, d in zip(o.idl[name], o.deltas[name])}
