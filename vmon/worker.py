"""Worker process: runs one shard of a property's workload with the monitors installed.

usage: python -m vmon.worker <prop> <tier> <seed> <shard> <nshards> <budget_s> <outfile> [kind idx]
"""
import sys
import os
import io
import time
import json
import zlib
import importlib
import warnings
import faulthandler
import contextlib

import numpy as np


def import_repo(repo):
    repo = os.path.realpath(repo)
    sys.path.insert(0, repo)
    os.environ.setdefault('MPLBACKEND', 'Agg')
    import pyerrors
    where = os.path.realpath(pyerrors.__file__)
    if not where.startswith(repo + os.sep):
        raise RuntimeError('pyerrors imported from %s, not from the tree under check %s' % (where, repo))
    return pyerrors


def case_rng(seed, prop, kind, idx):
    key = zlib.crc32((prop + ':' + kind).encode())
    rng = np.random.default_rng([int(seed) & 0xFFFFFFFF, key, int(idx)])
    np.random.seed(int(rng.integers(0, 2 ** 32 - 1)))
    return rng


def expand_plan(plan):
    cases = []
    for kind, n in plan:
        for i in range(n):
            cases.append((kind, i))
    return cases


def interleave(cases):
    """Round-robin over kinds so that every shard and every time budget sees all kinds."""
    by = {}
    for k, i in cases:
        by.setdefault(k, []).append((k, i))
    out = []
    lists = list(by.values())
    pos = 0
    while lists:
        nxt = []
        for l in lists:
            if pos < len(l):
                out.append(l[pos])
                nxt.append(l)
        lists = nxt
        pos += 1
    return out


def main(argv):
    prop, tier, seed, shard, nshards, budget, outfile = argv[:7]
    seed, shard, nshards, budget = int(seed), int(shard), int(nshards), float(budget)
    only = None
    if len(argv) >= 9:
        only = (argv[7], int(argv[8]))
    repo = os.environ.get('VERIF_REPO', '/repo')
    faulthandler.enable()
    os.environ['PYERRORS_VERIF'] = '1'
    from vmon.ctx import Ctx, Skip, dump_result
    ctx = Ctx(prop, tier, seed, shard, nshards, repo)
    t0 = time.time()
    cpu0 = time.process_time()
    try:
        import_repo(repo)
    except Exception as e:
        ctx.harness_errors.append('import: ' + repr(e))
        dump_result(ctx, outfile)
        return 0
    mod = importlib.import_module('vmon.props.' + prop)
    warnings.simplefilter('ignore')
    np.seterr(all='ignore')
    sink = io.StringIO()
    try:
        with contextlib.redirect_stdout(sink):
            if hasattr(mod, 'setup'):
                mod.setup(ctx)
    except Exception as e:
        import traceback
        ctx.harness_errors.append('setup: ' + traceback.format_exc()[-1500:])
        dump_result(ctx, outfile)
        return 0
    if only is not None:
        cases = [only]
    else:
        cases = interleave(expand_plan(mod.plan(tier)))[shard::nshards]
    skipped_budget = 0
    for kind, idx in cases:
        # the budget is CPU time of this worker (a loaded machine must not thin out the workload), with a wall-clock cap below the
        # runner's watchdog (3 * budget + 120 s) so that the run always ends with a result
        if only is None and (time.process_time() - cpu0 > budget or time.time() - t0 > 2.5 * budget):
            skipped_budget += 1
            continue
        rng = case_rng(seed, prop, kind, idx)
        ctx.case = (kind, idx)
        sink.seek(0)
        sink.truncate()
        try:
            with contextlib.redirect_stdout(sink):
                mod.run_case(ctx, kind, idx, rng)
            ctx.cases_run += 1
        except Skip:
            ctx.count('cases_outside_quantifier')
        except Exception as e:
            origin, tag = ctx.classify_exception(e)
            if origin == 'library':
                import traceback
                ctx.violation(tag, {'traceback': traceback.format_exc()[-1200:]})
                ctx.cases_run += 1
            else:
                import traceback
                if len(ctx.harness_errors) < 5:
                    ctx.harness_errors.append('%s/%d: %s' % (kind, idx, traceback.format_exc()[-1500:]))
                ctx.count('harness_errors')
    ctx.case = None
    try:
        with contextlib.redirect_stdout(sink):
            if hasattr(mod, 'teardown'):
                mod.teardown(ctx)
    except Exception:
        import traceback
        ctx.harness_errors.append('teardown: ' + traceback.format_exc()[-1500:])
    if skipped_budget:
        ctx.count('cases_skipped_by_time_budget', skipped_budget)
    ctx.count('wall_s_worker_x1000', int(1000 * (time.time() - t0)))
    dump_result(ctx, outfile)
    return 0


if __name__ == '__main__':
    sys.exit(main(sys.argv[1:]))
