"""Monitor tapped on Obs.gamma_method: reference comparison (C02) and event trace (C03)."""
import math

import numpy as np

from . import taps
from .snap import snap, obs_digest
from .ctx import digest
from .ref import gamma as gref


def effective_params(Obs, o, kwargs):
    """Precedence: explicit argument > per-ensemble dictionary > global default (read at call time)."""
    out = {}
    for e in sorted(set(n.split('|')[0] for n in o.names)):
        p = []
        for k in ('S', 'tau_exp', 'N_sigma'):
            if k in kwargs:
                p.append(kwargs[k])
            elif e in getattr(Obs, k + '_dict'):
                p.append(getattr(Obs, k + '_dict')[e])
            else:
                p.append(getattr(Obs, k + '_global'))
        out[e] = tuple(p)
    return out


def common_spacing(sn):
    """True when, per ensemble, all differences of all replicas are multiples of the smallest one."""
    by = {}
    for name, (idl, d, _) in sn['chains'].items():
        by.setdefault(name.split('|')[0], []).append(idl)
    for e, lists in by.items():
        diffs = [b - a for l in lists for a, b in zip(l, l[1:])]
        if not diffs:
            return False
        g = min(diffs)
        if g <= 0 or any(x % g for x in diffs):
            return False
    return True


def results_of(o):
    """Everything an analysis leaves on the object, as plain data (bit-exact)."""
    r = {'dvalue': float(o._dvalue), 'ddvalue': float(o.ddvalue)}
    for k in ('e_dvalue', 'e_ddvalue', 'e_tauint', 'e_dtauint', 'e_windowsize'):
        r[k] = {e: float(v) for e, v in getattr(o, k).items()}
    for k in ('e_rho', 'e_drho', 'e_n_tauint', 'e_n_dtauint'):
        r[k] = {e: np.array(v, dtype=float).copy() for e, v in getattr(o, k).items()}
    for k in ('S', 'tau_exp', 'N_sigma'):
        r[k] = dict(getattr(o, k))
    return r


def results_digest(r):
    parts = []
    for k in sorted(r):
        v = r[k]
        if isinstance(v, dict):
            for e in sorted(v):
                parts.append((k, e))
                parts.append(v[e] if isinstance(v[e], np.ndarray) else repr(v[e]))
        else:
            parts.append((k, repr(v)))
    return digest(*parts)


class GammaMonitor(taps.Monitor):
    def __init__(self, ctx, Obs, judge=True, trace=None, rtol=1e-8):
        self.ctx = ctx
        self.Obs = Obs
        self.judge = judge
        self.trace = trace      # list to append events to, or None
        self.rtol = rtol
        self.seq = 0

    def before(self, args, kwargs):
        o = args[0]
        return dict(snap=snap(o), dig=obs_digest(o), params=effective_params(self.Obs, o, kwargs),
                    fft=kwargs.get('fft') is not False, kwargs=dict(kwargs))

    def after(self, tok, args, kwargs, result, exc):
        o = args[0]
        ctx = self.ctx
        self.seq += 1
        sn = tok['snap']
        after_dig = obs_digest(o)
        ev = dict(seq=self.seq, obj=id(o), dig_before=tok['dig'], dig_after=after_dig, params=tok['params'],
                  fft=tok['fft'], exc=None if exc is None else type(exc).__name__, kwargs=tok['kwargs'])
        if exc is None:
            ev['results'] = results_of(o)
            ev['rdig'] = results_digest(ev['results'])
        if self.trace is not None:
            self.trace.append(ev)
        if not self.judge:
            return
        if not common_spacing(sn) or not sn['chains'] and not sn['cov']:
            ctx.count('gm_calls_outside_quantifier')
            return
        if any(len(c[0]) < 5 for c in sn['chains'].values()):
            ctx.count('gm_calls_outside_quantifier')
            return
        bad_param = any((not isinstance(v, (int, float, np.integer, np.floating))) or v < 0 for p in tok['params'].values() for v in p)
        if bad_param:
            ctx.count('gm_calls_outside_quantifier')
            return
        self.judge_call(o, sn, tok['params'], tok['fft'], exc)

    # ------------------------------------------------------------------------------------
    def judge_call(self, o, sn, params, fft, exc):
        ctx = self.ctx
        ref_exc = None
        try:
            ref = gref.analyse(sn, params)
        except ValueError as e:
            ref_exc = e
        except gref.Borderline:
            ctx.count('gm_borderline_skipped')
            return
        ctx.count('gm_calls_judged')
        if exc is not None or ref_exc is not None:
            ctx.ev()
            if (exc is None) != (ref_exc is None):
                ctx.violation('gm:exception-mismatch', {'library': repr(exc), 'reference': repr(ref_exc), 'params': params,
                                                        'lengths': {n: len(c[0]) for n, c in sn['chains'].items()}})
            else:
                ctx.count('gm_expected_exception')
                ctx.nontrivial.add(digest('gm-exc', obs_digest(o), params))
            return
        # window decisions first (borderline rule)
        force = {}
        for e, r in ref['per'].items():
            W = o.e_windowsize.get(e)
            if W != r['W']:
                if W in r['admissible']:
                    force[e] = int(W)
                else:
                    ctx.ev()
                    ctx.violation('gm:window', {'ensemble': e, 'library': W, 'reference': r['W'], 'admissible': sorted(r['admissible']),
                                                'params': params[e], 'w_max': r['w_max'], 'N': r['N'], 'fft': fft})
                    return
        if force:
            ctx.count('gm_borderline_window_followed')
            try:
                ref = gref.analyse(sn, params, force_W={e: force.get(e) for e in ref['per']})
            except gref.Borderline:
                ctx.count('gm_borderline_skipped')
                return
        rt = self.rtol
        det = {'params': params, 'fft': fft, 'chains': {n: (len(c[0]), 'range' if sn['idl_form'].get(n) == 'range' else 'list') for n, c in sn['chains'].items()}}
        nontriv = False
        for e, r in ref['per'].items():
            m = 'gm:'
            ctx.equal(o.e_windowsize.get(e), r['W'], m + 'window', e, detail=det)
            for fld, key in (('e_dvalue', 'dvalue'), ('e_ddvalue', 'ddvalue'), ('e_tauint', 'tauint'), ('e_dtauint', 'dtauint')):
                got = getattr(o, fld).get(e)
                if got is None:
                    ctx.ev()
                    ctx.violation(m + fld + '-missing', det)
                    continue
                ctx.close(got, r[key], m + fld, e, rtol=rt, atol=1e-300, detail=det)
            got_rho = np.asarray(o.e_rho.get(e, np.zeros(0)), dtype=float)
            if len(got_rho) != len(r['rho']):
                ctx.ev()
                ctx.violation(m + 'e_rho-length', {'library': len(got_rho), 'reference': len(r['rho']), 'detail': det})
            else:
                ctx.close(got_rho, r['rho'], m + 'e_rho', e, rtol=0, atol=1e-9, detail=det)
            got_dr = np.asarray(o.e_drho.get(e, np.zeros(0)), dtype=float)
            for lag, v in r['drho'].items():
                if lag < len(got_dr):
                    ctx.close(got_dr[lag], v, m + 'e_drho', '%s lag %d' % (e, lag), rtol=rt, atol=1e-9, detail=det)
                else:
                    ctx.ev()
                    ctx.violation(m + 'e_drho-missing', det)
            if not r['zero']:
                gn = o.e_n_tauint.get(e)
                if gn is not None and len(gn) == len(r['ntau']):
                    ctx.close(gn, r['ntau'], m + 'e_n_tauint', e, rtol=rt, atol=1e-9, detail=det)
                    ctx.close(o.e_n_dtauint[e], r['ndtau'], m + 'e_n_dtauint', e, rtol=rt, atol=1e-9, detail=det)
                else:
                    ctx.ev()
                    ctx.violation(m + 'e_n_tauint-shape', det)
                S, te, ns = params[e]
                if (r['gamma0'] > 0 and r['W'] >= 1) or te > 0 or S == 0:
                    nontriv = True
            branch = 'zero' if r['zero'] else ('tail' if params[e][1] > 0 else ('S0' if params[e][0] == 0 else
                                                                                 ('capped' if r['W'] >= r['w_max'] - 1 else 'window')))
            ctx.cell('gm', branch, 'fft' if fft else 'direct', 'reps%d' % sum(1 for n in sn['chains'] if n.split('|')[0] == e))
        for n, v in ref['cov'].items():
            ctx.close(o.e_dvalue.get(n, np.nan), v, 'gm:cov-e_dvalue', n, rtol=1e-12, atol=1e-300, detail=det)
        ctx.close(o._dvalue, ref['dvalue'], 'gm:dvalue', 'total', rtol=rt, atol=1e-300, detail=det)
        ctx.close(o.ddvalue, ref['ddvalue'], 'gm:ddvalue', 'total', rtol=rt, atol=1e-300, detail=det)
        if nontriv:
            ctx.nontrivial.add(digest('gm', obs_digest(o), params, fft))
