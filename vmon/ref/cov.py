"""Reference model of the error covariance / correlation of analysed observables (property C06)
and of the helpers built on it.  Works on snapshots (see vmon.snap.snap): dictionaries keyed by
configuration number, explicit loops, no aligned arrays.  MUST NOT import pyerrors.

Definition adopted from the statement of the property (and the documentation of `covariance`):

  m(a, b) = sum over common ensembles e of
                sum_r sum_{cfg in common(a_r, b_r)} da db
                / sum_r sqrt( sum_common da^2 * sum_common db^2 )          (window 0, no autocorrelation)
          + sum over common covariance inputs  g_a^T Sigma g_b
  corr(a, b) = m(a, b) / sqrt(m(a, a) m(b, b))
  cov(a, b)  = err_a err_b corr(a, b)                                       (err = analysed error)

For two observables on one chain corr is the (uncentred) Pearson coefficient of the fluctuations
on the common configurations; for purely external inputs cov = J_a Sigma J_b^T.
"""
import math

import numpy as np


def ens(name):
    return name.split('|')[0]


_DICTS = {}


def _cfg_dict(chain):
    """{cfg: fluctuation} of a snapshot chain (memoised per chain object: a list of n observables needs it n^2 times)"""
    key = id(chain[1])
    hit = _DICTS.get(key)
    if hit is not None and hit[0] is chain[1]:
        return hit[1]
    idl, d, _ = chain
    out = {int(c): float(v) for c, v in zip(idl, d)}
    if len(_DICTS) > 4000:
        _DICTS.clear()
    _DICTS[key] = (chain[1], out)
    return out


def pearson_common(da, db):
    """Uncentred Pearson coefficient of two {cfg: fluctuation} dictionaries on their common
    configurations; None when there is no common configuration or one norm vanishes."""
    common = sorted(set(da) & set(db))
    if not common:
        return None
    num = math.fsum(da[k] * db[k] for k in common)
    na = math.fsum(da[k] ** 2 for k in common)
    nb = math.fsum(db[k] ** 2 for k in common)
    if na == 0.0 or nb == 0.0:
        return None
    return num / math.sqrt(na * nb)


def element(a, b):
    """m(a, b) of the module docstring for two snapshots."""
    tot = 0.0
    ens_a = set(ens(c) for c in a['chains'])
    ens_b = set(ens(c) for c in b['chains'])
    for e in sorted(ens_a & ens_b):
        num = []
        den = []
        for c in sorted(a['chains']):
            if ens(c) != e or c not in b['chains']:
                continue
            da = _cfg_dict(a['chains'][c])
            db = _cfg_dict(b['chains'][c])
            common = sorted(set(da) & set(db))
            if not common:
                continue
            num.append(math.fsum(da[k] * db[k] for k in common))
            den.append(math.sqrt(math.fsum(da[k] ** 2 for k in common) * math.fsum(db[k] ** 2 for k in common)))
        s = math.fsum(num)
        if s != 0.0:
            tot += s / math.fsum(den)
    for n in sorted(set(a['cov']) & set(b['cov'])):
        ca, ga = a['cov'][n]
        cb, gb = b['cov'][n]
        ga = np.asarray(ga, dtype=float).ravel()
        gb = np.asarray(gb, dtype=float).ravel()
        sig = np.asarray(ca, dtype=float).reshape(len(ga), len(ga))
        acc = 0.0
        for i in range(len(ga)):
            for j in range(len(gb)):
                acc += ga[i] * sig[i, j] * gb[j]
        tot += acc
    return tot


def matrices(snaps, errs):
    """(m, corr, cov) for a list of snapshots and their analysed errors."""
    n = len(snaps)
    m = np.zeros((n, n))
    for i in range(n):
        for j in range(i, n):
            m[i, j] = m[j, i] = element(snaps[i], snaps[j])
    d = np.sqrt(np.diag(m))
    corr = np.empty((n, n))
    for i in range(n):
        for j in range(n):
            corr[i, j] = m[i, j] / (d[i] * d[j])
    errs = np.asarray(errs, dtype=float)
    cov = np.empty((n, n))
    for i in range(n):
        for j in range(n):
            cov[i, j] = errs[i] * errs[j] * corr[i, j]
    return m, corr, cov


def smooth(corr, E):
    """Eigenvalue smoothing of hep-lat/9412087 as a spectral function: eigenvalues below the mean
    of the (dim - E) smallest are raised to that mean, then all are rescaled to unit mean.
    Written as a sum of rank-one projectors (unique even for degenerate spectra, because the
    function of the matrix is)."""
    corr = np.asarray(corr, dtype=float)
    n = corr.shape[0]
    vals, vecs = np.linalg.eigh((corr + corr.T) / 2)
    order = np.argsort(vals)
    small = [vals[k] for k in order[:n - E]]
    lam_min = math.fsum(small) / len(small)
    new = [max(float(v), lam_min) for v in vals]
    mean = math.fsum(new) / n
    out = np.zeros((n, n))
    for k in range(n):
        out += (new[k] / mean) * np.outer(vecs[:, k], vecs[:, k])
    return out, lam_min, sorted(float(v) for v in vals)


def admissible_E(n):
    """Values of E the documentation admits ('between 2 and the dimension minus 1'), read as an
    open interval; the end points 2 and n-1 themselves are ambiguous in the text."""
    return [E for E in range(3, n - 1)], [2, n - 1]


def sort_permutation(kl, lengths):
    """Rows of a matrix built in the order of the keys `kl` (key k contributing lengths[k] rows)
    re-arranged to the alphabetical order of the keys: new row i = old row perm[i]."""
    labels = []
    for k in kl:
        for i in range(lengths[k]):
            labels.append((k, i))
    old_pos = {lab: p for p, lab in enumerate(labels)}
    return [old_pos[lab] for lab in sorted(labels)]


def permute(mat, perm):
    mat = np.asarray(mat)
    n = len(perm)
    out = np.empty((n, n), dtype=mat.dtype)
    for i in range(n):
        for j in range(n):
            out[i, j] = mat[perm[i], perm[j]]
    return out


def inverse_covariance(corr, errs):
    """(D corr D)^-1 with D = diag(errs), and the condition number of corr."""
    corr = np.asarray(corr, dtype=float)
    errs = np.asarray(errs, dtype=float)
    # equilibrated: (D corr D)^-1 = D^-1 corr^-1 D^-1 (the errors may differ by many orders of magnitude)
    return np.linalg.inv(corr) / np.outer(errs, errs), float(np.linalg.cond(corr))


def complex_step_gradient(model, p, x, h=1e-30):
    """d model(p, x) / d p_k by complex-step differentiation (model must be analytic in p)."""
    p = [complex(v) for v in p]
    g = []
    for k in range(len(p)):
        q = list(p)
        q[k] = q[k] + 1j * h
        g.append(complex(model(q, x)).imag / h)
    return np.array(g, dtype=float)


def band(model, pvals, cov, xs):
    out = []
    grads = []
    for x in xs:
        g = complex_step_gradient(model, pvals, x)
        grads.append(g)
        acc = 0.0
        for i in range(len(g)):
            for j in range(len(g)):
                acc += g[i] * cov[i][j] * g[j]
        out.append(math.sqrt(acc) if acc >= 0 else float('nan'))
    return np.array(out), grads
