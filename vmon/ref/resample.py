"""Reference model for jackknife / bootstrap resampling (property C13).  MUST NOT import pyerrors.

A chain is a dictionary {configuration number: measured sample}; positions are the ranks of the
configuration numbers in ascending order.  Sums are exactly rounded (math.fsum) or exact
(fractions.Fraction), so the reference carries at most one rounding per number.
"""
import math
import hashlib
from fractions import Fraction

import numpy as np


def ordered(chain):
    """chain {cfg: x} -> (sorted configuration numbers, samples in that order)"""
    cfgs = sorted(chain)
    return cfgs, [float(chain[c]) for c in cfgs]


def mean(x):
    return math.fsum(x) / len(x)


def jackknife(x, central=None):
    """[central value, leave-one-out means...]:  jack_i = (sum_{j != i} x_j) / (N - 1), computed exactly and rounded once.
    `central` (default: the mean) is entry 0; when it is given (an observable whose central value is not
    recomputed from the samples) the leave-one-out means are taken around it: (N central - x_i) / (N - 1)."""
    n = len(x)
    fx = [Fraction(v) for v in x]
    tot = sum(fx) if central is None else n * Fraction(float(central))
    out = [float(tot / n)]
    for v in fx:
        out.append(float((tot - v) / (n - 1)))
    return out


def jackknife_variance(j):
    """(N-1)/N sum_i (j_i - jbar)^2 over the leave-one-out entries j[1:], exact rational arithmetic."""
    f = [Fraction(float(v)) for v in j[1:]]
    n = len(f)
    jb = sum(f) / n
    return float(Fraction(n - 1, n) * sum((v - jb) ** 2 for v in f))


def naive_error_squared(x):
    """sum (x - mean)^2 / (N (N - 1)): the squared standard error without autocorrelations (S = 0)."""
    f = [Fraction(float(v)) for v in x]
    n = len(f)
    m = sum(f) / n
    return float(sum((v - m) ** 2 for v in f) / (n * (n - 1)))


def bootstrap_means(x, table):
    """boot_k = (1/N) sum_j x[table[k][j]]  (exactly rounded sum, one division)"""
    n = len(x)
    out = []
    for row in table:
        out.append(math.fsum(x[int(j)] for j in row) / n)
    return out


def name_seed(name):
    """documented convention: the low 32 bits of the md5 digest of the chain name"""
    return int(hashlib.md5(name.encode()).hexdigest(), 16) & 0xFFFFFFFF


def default_table(name, samples, n):
    """resampling table used when none is supplied: numpy's default generator seeded by the chain name"""
    rng = np.random.default_rng(name_seed(name))
    return rng.integers(0, n, size=(samples, n))


def count_matrix(table, n):
    k = len(table)
    c = np.zeros((k, n))
    for r, row in enumerate(table):
        for j in row:
            c[r, int(j)] += 1.0
    return c


def rank_and_condition(table, n):
    """column rank and 2-norm condition number of the resampling matrix counts / N"""
    c = count_matrix(table, n) / n
    s = np.linalg.svd(c, compute_uv=False)
    tol = s[0] * max(c.shape) * np.finfo(float).eps
    rank = int(np.sum(s > tol))
    if rank < n:
        return rank, np.inf
    return rank, float(s[0] / s[n - 1])
