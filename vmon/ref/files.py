"""Byte-exact writers (and independent parsers used to validate them) for the measurement formats
read by pyerrors.input.{openQCD, sfcf, hadrons} - properties C17 / C18.

MUST NOT import pyerrors.  Everything is derived from the format descriptions (openQCD / sfqcd /
sfcf documentation, the layout of the repository's sample files) - not from the readers.

Conventions
-----------
A *table* is {replica number -> {configuration (trajectory) number as stored -> numbers}}; what
"numbers" is depends on the format (documented at each writer).  All numbers are pairwise distinct
(`Distinct`), so that any mis-assignment of a number to a configuration, replica, source, flow
time, time slice or real/imaginary slot changes a result.

Every encoder returns (bytes, bounds) with the record-boundary table
    bounds = {'size': len(bytes), 'header_end': int,
              'records': [{'start': int, 'end': int, 'cfg': int}, ...],      # end = offset one past the last byte
              'fields':  [(start, end, label, record index or -1), ...]}     # consecutive, covering the file
`n_complete(bounds, k)` is the number of records whose last byte precedes a cut at byte k
(the file keeps bytes [0, k)).
"""
import os
import re
import struct

import numpy as np


# ------------------------------------------------------------------------------------------------
# distinct numbers
# ------------------------------------------------------------------------------------------------
class Distinct:
    """Source of pairwise distinct floats in [lo, hi): a random permutation of a jittered grid, so
    that two numbers differ by at least (hi - lo) / (2 * capacity)."""

    def __init__(self, rng, capacity, lo=-1.0, hi=1.0):
        self.lo, self.hi = float(lo), float(hi)
        self.capacity = int(capacity)
        self.slots = rng.permutation(self.capacity)
        self.jitter = rng.random(self.capacity) * 0.5
        self.pos = 0

    def take(self, n=None):
        m = 1 if n is None else int(n)
        if self.pos + m > self.capacity:
            raise RuntimeError('Distinct: capacity %d exhausted' % self.capacity)
        sl = slice(self.pos, self.pos + m)
        self.pos += m
        v = self.lo + (self.slots[sl] + self.jitter[sl]) * (self.hi - self.lo) / self.capacity
        return float(v[0]) if n is None else v.astype(float)

    def block(self, *shape):
        return self.take(int(np.prod(shape))).reshape(shape)


def n_complete(bounds, k):
    return sum(1 for r in bounds['records'] if r['end'] <= k)


def field_at(bounds, k):
    """Field containing byte k (the first byte removed by a cut at k)."""
    for f in bounds['fields']:
        if f[0] <= k < f[1]:
            return f
    return None


class _Buf:
    def __init__(self):
        self.parts = []
        self.pos = 0
        self.fields = []
        self.records = []
        self.header_end = 0

    def put(self, b, label, rec=-1):
        self.parts.append(b)
        self.fields.append((self.pos, self.pos + len(b), label, rec))
        self.pos += len(b)

    def done(self):
        data = b''.join(self.parts)
        return data, {'size': len(data), 'header_end': self.header_end, 'records': self.records, 'fields': self.fields}


# ------------------------------------------------------------------------------------------------
# openQCD reweighting factors (ms1.dat / rwms.dat)
# ------------------------------------------------------------------------------------------------
def encode_rwms(version, nfct, nsrc, records, array='quad8'):
    """records: [(nc, sqn, lnr)] or, for version 2.0, [(nc, sqn, lnr, sqn_lo, lnr_lo)];
    sqn[i][j][s], lnr[i][j][s]: reweighting factor i, Hasenbusch factor j, source s.

    1.4: int nrw; int nsrc[nrw];                    record: int nc; per i: double sqn[nsrc], double lnr[nsrc]
    1.6: int nrw; int nfct[nrw]; int nsrc[nrw];     record: int nc; per i, per j: double sqn[nsrc], double lnr[nsrc]
    2.0: int 2*nrw; int nfct[nrw]; int nsrc[nrw]; int 0;
         record: int nc; per i: array(sqn), array(lnr) with array = int d=2; int n[2] = (nfct, 2*nsrc); int size=8;
         double data[nfct][nsrc][2] (quadruple precision numbers as (hi, lo) pairs)
    array (2.0 only) selects other encodings the generic array format of openQCD 2.0 allows (used for rejection / option rows):
         'size16'  n = (nfct, nsrc), size = 16 (one (hi, lo) pair per element);  'int4'  size = 4, integer data (rounded lnr, lo = 0);
         'size2'   an element size the format does not know;  'dim3'  a three-dimensional array
    """
    nrw = len(nsrc)
    b = _Buf()
    if version == '1.4':
        if any(f != 1 for f in nfct):
            raise ValueError('openQCD 1.4 has no Hasenbusch factors')
        b.put(struct.pack('<i', nrw), 'nrw')
        b.put(struct.pack('<%di' % nrw, *nsrc), 'nsrc')
    elif version == '1.6':
        b.put(struct.pack('<i', nrw), 'nrw')
        b.put(struct.pack('<%di' % nrw, *nfct), 'nfct')
        b.put(struct.pack('<%di' % nrw, *nsrc), 'nsrc')
    elif version == '2.0':
        b.put(struct.pack('<i', 2 * nrw), 'nrw')
        b.put(struct.pack('<%di' % nrw, *nfct), 'nfct')
        b.put(struct.pack('<%di' % nrw, *nsrc), 'nsrc')
        b.put(struct.pack('<i', 0), 'zero')
    else:
        raise ValueError(version)
    b.header_end = b.pos
    for ir, rec in enumerate(records):
        start = b.pos
        nc = rec[0]
        b.put(struct.pack('<i', nc), 'nc', ir)
        for i in range(nrw):
            if version == '2.0':
                for which, lab in ((1, 'sqn'), (2, 'lnr')):
                    hi = np.asarray(rec[which][i], dtype=float).reshape(nfct[i], nsrc[i])
                    lo = np.asarray(rec[which + 2][i], dtype=float).reshape(nfct[i], nsrc[i])
                    inter = np.empty((nfct[i], nsrc[i], 2))
                    inter[:, :, 0] = hi
                    inter[:, :, 1] = lo
                    if array == 'dim3':
                        b.put(struct.pack('<i', 3), lab + ':d', ir)
                        b.put(struct.pack('<3i', nfct[i], nsrc[i], 2), lab + ':n', ir)
                    else:
                        b.put(struct.pack('<i', 2), lab + ':d', ir)
                        b.put(struct.pack('<2i', nfct[i], nsrc[i] if array == 'size16' else 2 * nsrc[i]), lab + ':n', ir)
                    b.put(struct.pack('<i', {'quad8': 8, 'dim3': 8, 'size16': 16, 'int4': 4, 'size2': 2}[array]), lab + ':size', ir)
                    if array == 'int4':
                        inter[:, :, 1] = 0
                        b.put(np.rint(inter).astype('<i4').tobytes(), lab + ':%d' % i, ir)
                    elif array == 'size2':
                        b.put(np.rint(inter).astype('<i2').tobytes(), lab + ':%d' % i, ir)
                    else:
                        b.put(inter.astype('<f8').tobytes(), lab + ':%d' % i, ir)
            else:
                for j in range(nfct[i]):
                    b.put(np.asarray(rec[1][i][j], dtype='<f8').tobytes(), 'sqn:%d:%d' % (i, j), ir)
                    b.put(np.asarray(rec[2][i][j], dtype='<f8').tobytes(), 'lnr:%d:%d' % (i, j), ir)
        b.records.append({'start': start, 'end': b.pos, 'cfg': nc})
    return b.done()


def parse_rwms(data, version):
    """Independent parse -> (nfct, nsrc, records) in the shape encode_rwms takes."""
    off = 0
    nrw = struct.unpack_from('<i', data, off)[0]
    off += 4
    if version == '2.0':
        nrw //= 2
    if version == '1.4':
        nfct = [1] * nrw
    else:
        nfct = list(struct.unpack_from('<%di' % nrw, data, off))
        off += 4 * nrw
    nsrc = list(struct.unpack_from('<%di' % nrw, data, off))
    off += 4 * nrw
    if version == '2.0':
        if struct.unpack_from('<i', data, off)[0] != 0:
            raise ValueError('not an openQCD 2.0 file')
        off += 4
    records = []
    while off < len(data):
        nc = struct.unpack_from('<i', data, off)[0]
        off += 4
        sqn, lnr, sqn_lo, lnr_lo = [], [], [], []
        for i in range(nrw):
            if version == '2.0':
                for hi_l, lo_l in ((sqn, sqn_lo), (lnr, lnr_lo)):
                    d = struct.unpack_from('<i', data, off)[0]
                    off += 4
                    n = struct.unpack_from('<%di' % d, data, off)
                    off += 4 * d
                    size = struct.unpack_from('<i', data, off)[0]
                    off += 4
                    if d != 2 or size != 8 or n != (nfct[i], 2 * nsrc[i]):
                        raise ValueError('unexpected array header %r %r %r' % (d, n, size))
                    a = np.frombuffer(data, dtype='<f8', count=n[0] * n[1], offset=off).reshape(nfct[i], nsrc[i], 2)
                    off += 8 * n[0] * n[1]
                    hi_l.append(a[:, :, 0].copy())
                    lo_l.append(a[:, :, 1].copy())
            else:
                s_i, l_i = [], []
                for j in range(nfct[i]):
                    s_i.append(np.frombuffer(data, dtype='<f8', count=nsrc[i], offset=off).copy())
                    off += 8 * nsrc[i]
                    l_i.append(np.frombuffer(data, dtype='<f8', count=nsrc[i], offset=off).copy())
                    off += 8 * nsrc[i]
                sqn.append(np.array(s_i))
                lnr.append(np.array(l_i))
        records.append((nc, sqn, lnr, sqn_lo, lnr_lo) if version == '2.0' else (nc, sqn, lnr))
    if off != len(data):
        raise ValueError('trailing bytes')
    return nfct, nsrc, records


def rwms_expect(lnr_i):
    """Documented reduction: product over Hasenbusch factors of the source average of exp(-lnr)."""
    out = 1.0
    for row in np.asarray(lnr_i, dtype=float):
        out *= float(np.mean(np.exp(-row)))
    return out


# ------------------------------------------------------------------------------------------------
# openQCD gradient flow (ms.dat):  int dn, nn, tmax; double eps;
# record: int nc; double Wsl[nn+1][tmax]; double Ysl[nn+1][tmax]; double Qsl[nn+1][tmax]
# ------------------------------------------------------------------------------------------------
def encode_msdat(dn, nn, tmax, eps, records):
    """records: [(nc, W, Y, Q)] with arrays of shape (nn+1, tmax) (flow-time index major)."""
    b = _Buf()
    b.put(struct.pack('<iii', dn, nn, tmax), 'dn,nn,tmax')
    b.put(struct.pack('<d', eps), 'eps')
    b.header_end = b.pos
    for ir, (nc, W, Y, Q) in enumerate(records):
        start = b.pos
        b.put(struct.pack('<i', nc), 'nc', ir)
        for lab, a in (('W', W), ('Y', Y), ('Q', Q)):
            a = np.asarray(a, dtype='<f8')
            if a.shape != (nn + 1, tmax):
                raise ValueError('block shape')
            b.put(a.tobytes(), lab, ir)
        b.records.append({'start': start, 'end': b.pos, 'cfg': nc})
    return b.done()


def parse_msdat(data):
    dn, nn, tmax = struct.unpack_from('<iii', data, 0)
    eps = struct.unpack_from('<d', data, 12)[0]
    off = 20
    m = (nn + 1) * tmax
    records = []
    while off < len(data):
        nc = struct.unpack_from('<i', data, off)[0]
        off += 4
        blocks = []
        for _ in range(3):
            blocks.append(np.frombuffer(data, dtype='<f8', count=m, offset=off).reshape(nn + 1, tmax).copy())
            off += 8 * m
        records.append((nc, blocks[0], blocks[1], blocks[2]))
    if off != len(data):
        raise ValueError('trailing bytes')
    return dn, nn, tmax, eps, records


# ------------------------------------------------------------------------------------------------
# sfqcd gradient flow (gfms.dat): int zthfl, ncs, tmax; int L[3]; double tol, cmax;
# record: int nc; double obs[ncs+1][8*nfl][tmax]     (nfl = 2 if zthfl == 2 else 1; Zeuthen flow first)
# ------------------------------------------------------------------------------------------------
def encode_gfms(zthfl, ncs, tmax, L, tol, cmax, records):
    """records: [(nc, A)] with A of shape (ncs+1, 8*nfl, tmax)."""
    nfl = 2 if zthfl == 2 else 1
    b = _Buf()
    b.put(struct.pack('<iii', zthfl, ncs, tmax), 'zthfl,ncs,tmax')
    b.put(struct.pack('<iii', *L), 'L')
    b.put(struct.pack('<dd', tol, cmax), 'tol,cmax')
    b.header_end = b.pos
    for ir, (nc, A) in enumerate(records):
        start = b.pos
        A = np.asarray(A, dtype='<f8')
        if A.shape != (ncs + 1, 8 * nfl, tmax):
            raise ValueError('block shape')
        b.put(struct.pack('<i', nc), 'nc', ir)
        for j in range(ncs + 1):
            for i in range(8 * nfl):
                b.put(A[j, i].tobytes(), 'obs:%d:%d' % (j, i), ir)
        b.records.append({'start': start, 'end': b.pos, 'cfg': nc})
    return b.done()


def parse_gfms(data):
    zthfl, ncs, tmax = struct.unpack_from('<iii', data, 0)
    L = struct.unpack_from('<iii', data, 12)
    tol, cmax = struct.unpack_from('<dd', data, 24)
    nfl = 2 if zthfl == 2 else 1
    off = 40
    m = (ncs + 1) * 8 * nfl * tmax
    records = []
    while off < len(data):
        nc = struct.unpack_from('<i', data, off)[0]
        off += 4
        records.append((nc, np.frombuffer(data, dtype='<f8', count=m, offset=off).reshape(ncs + 1, 8 * nfl, tmax).copy()))
        off += 8 * m
    if off != len(data):
        raise ValueError('trailing bytes')
    return zthfl, ncs, tmax, L, tol, cmax, records


# ------------------------------------------------------------------------------------------------
# ms5_xsf: double kappa, csw, dF, zF; int tmax, bnd;
# record: int cfg; double bi[10][tmax][2] (gS gP gA gV gVt lA lV lVt lT lTt; re, im); double bb[2][2] (g1, l1)
# ------------------------------------------------------------------------------------------------
MS5_BI = ["gS", "gP", "gA", "gV", "gVt", "lA", "lV", "lVt", "lT", "lTt"]
MS5_BB = ["g1", "l1"]


def encode_ms5xsf(kappa, csw, dF, zF, tmax, bnd, records):
    """records: [(cfg, bi, bb)], bi shape (10, tmax, 2), bb shape (2, 2)."""
    b = _Buf()
    b.put(struct.pack('<dddd', kappa, csw, dF, zF), 'kappa,csw,dF,zF')
    b.put(struct.pack('<ii', tmax, bnd), 'tmax,bnd')
    b.header_end = b.pos
    for ir, (cfg, bi, bb) in enumerate(records):
        start = b.pos
        bi = np.asarray(bi, dtype='<f8')
        bb = np.asarray(bb, dtype='<f8')
        if bi.shape != (10, tmax, 2) or bb.shape != (2, 2):
            raise ValueError('block shape')
        b.put(struct.pack('<i', cfg), 'nc', ir)
        for k, nm in enumerate(MS5_BI):
            b.put(bi[k].tobytes(), nm, ir)
        for k, nm in enumerate(MS5_BB):
            b.put(bb[k].tobytes(), nm, ir)
        b.records.append({'start': start, 'end': b.pos, 'cfg': cfg})
    return b.done()


def parse_ms5xsf(data):
    kappa, csw, dF, zF = struct.unpack_from('<dddd', data, 0)
    tmax, bnd = struct.unpack_from('<ii', data, 32)
    off = 40
    records = []
    while off < len(data):
        cfg = struct.unpack_from('<i', data, off)[0]
        off += 4
        bi = np.frombuffer(data, dtype='<f8', count=10 * tmax * 2, offset=off).reshape(10, tmax, 2).copy()
        off += 8 * 10 * tmax * 2
        bb = np.frombuffer(data, dtype='<f8', count=4, offset=off).reshape(2, 2).copy()
        off += 32
        records.append((cfg, bi, bb))
    if off != len(data):
        raise ValueError('trailing bytes')
    return kappa, csw, dF, zF, tmax, bnd, records


# ------------------------------------------------------------------------------------------------
# sfcf text output (version 2.x): [run] header, then [correlator] blocks
# ------------------------------------------------------------------------------------------------
SFCF_HEADER_KEYS = ['version', 'date', 'host', 'dir', 'user', 'gauge_name', 'gauge_md5', 'param_name',
                    'param_md5', 'param_hash', 'data_name']
SFCF_HEADER_DEFAULT = {
    'version': '2.1', 'date': '2022-01-19 11:03:58 +0100', 'host': 'r04n07.palma.wwu', 'dir': '/scratch/tmp/j_kuhl19',
    'user': 'j_kuhl19', 'gauge_name': '/unity', 'gauge_md5': '1ea28326e4090996111a320b8372811d',
    'param_name': 'sfcf_unity_test.in', 'param_md5': 'd881e90d41188a33b8b0f1bd0bc53ea5',
    'param_hash': '686af5e712ee2902180f5428af94c6e7', 'data_name': './output/data'}


def sfcf_header_text(hdr):
    s = '[run]\n\n'
    for k in SFCF_HEADER_KEYS:
        s += '%-11s %s\n' % (k, hdr[k])
    return s + '\n'


def sfcf_block_text(blk):
    """blk: {'name','quarks','offset','wf','wf2' (None for boundary-to-bulk 'bi'),'kind': 'corr_t'|'corr','vals': [(re, im)]}
    returns (text, spans) with spans = [(line_start, re_start, re_end, im_start, im_end, line_end)] relative to the block."""
    s = '[correlator]\n\n'
    s += 'name      %s\nquarks    %s\noffset    %d\nwf        %d\n' % (blk['name'], blk['quarks'], blk['offset'], blk['wf'])
    if blk['wf2'] is not None:
        s += 'wf_2      %d\n' % blk['wf2']
    s += blk['kind'] + '\n'
    spans = []
    for t, (re_, im_) in enumerate(blk['vals']):
        ls = len(s)
        if blk['kind'] == 'corr_t':
            s += '%3d ' % (t + 1)
        rs = len(s)
        s += '%+.16e' % re_
        re_e = len(s)
        s += ' '
        is_ = len(s)
        s += '%+.16e' % im_
        ie = len(s)
        s += '\n'
        spans.append((ls, rs, re_e, is_, ie, len(s)))
    data_end = len(s)
    s += '\n'
    return s, spans, data_end


def encode_sfcf_file(hdr, blocks):
    """One [run] chunk: header + blocks.  Returns (text, info) with
    info = {'header_end', 'blocks': [{'key', 'start', 'data_end' (one past the newline of the last data line), 'end', 'spans' (absolute)}]}"""
    s = sfcf_header_text(hdr)
    info = {'header_end': len(s), 'blocks': []}
    for blk in blocks:
        t, spans, data_end = sfcf_block_text(blk)
        base = len(s)
        info['blocks'].append({'key': (blk['name'], blk['quarks'], blk['offset'], blk['wf'], blk['wf2']),
                               'start': base, 'data_end': base + data_end, 'end': base + len(t),
                               'spans': [tuple(base + x for x in sp) for sp in spans]})
        s += t
    info['size'] = len(s)
    return s, info


def parse_sfcf_text(text):
    """Independent parse of sfcf output: list of chunks [(hdr dict, [blocks])]."""
    chunks = []
    parts = text.split('[run]\n')
    if parts[0] != '':
        raise ValueError('text before the first [run]')
    for part in parts[1:]:
        secs = part.split('[correlator]\n')
        hdr = {}
        for line in secs[0].split('\n'):
            if line.strip():
                k, v = line.split(None, 1)
                hdr[k] = v
        blocks = []
        for sec in secs[1:]:
            lines = sec.split('\n')
            if lines[0] != '' or lines[-1] != '' or lines[-2] != '':
                raise ValueError('block framing')
            body = lines[1:-2]
            meta = {}
            i = 0
            while body[i] not in ('corr_t', 'corr'):
                k, v = body[i].split(None, 1)
                meta[k] = v
                i += 1
            kind = body[i]
            vals = []
            for line in body[i + 1:]:
                f = line.split()
                if kind == 'corr_t':
                    if int(f[0]) != len(vals) + 1:
                        raise ValueError('time index')
                    f = f[1:]
                vals.append((float(f[0]), float(f[1])))
            blocks.append({'name': meta['name'], 'quarks': meta['quarks'], 'offset': int(meta['offset']), 'wf': int(meta['wf']),
                           'wf2': int(meta['wf_2']) if 'wf_2' in meta else None, 'kind': kind, 'vals': vals})
        chunks.append((hdr, blocks))
    return chunks


def write_sfcf_set(root, layout, prefix, table, blocks_of, names, header=None, rep_sep='r'):
    """Write a synthetic sfcf file set below `root` (must exist).

    table: {rep -> [cfg, ...]} (order = order of appearance in appended files)
    blocks_of(rep, cfg, name) -> list of block dicts of correlator `name` for that configuration
    names: list of correlator names (file names in the 'o' and 'a' layouts; file order in 'c')
    layouts:  'o'  root/<prefix>_r<rep>/cfg<cfg>/<name>
              'c'  root/<prefix>_r<rep>/<prefix>_r<rep>_n<cfg>           (all names in one file)
              'a'  root/<prefix>_r<rep>.<name>                            (one [run] chunk per configuration, gauge_name /<prefix>_r<rep>_n<cfg>)
    Returns {relative path -> info} with info as encode_sfcf_file (layout 'a': {'chunks': [(cfg, start, end, info)], 'size'}).
    """
    out = {}
    hdr0 = dict(SFCF_HEADER_DEFAULT)
    if header:
        hdr0.update(header)
    for rep, cfgs in table.items():
        rdir = '%s_%s%d' % (prefix, rep_sep, rep)
        if layout in ('o', 'c'):
            os.makedirs(os.path.join(root, rdir))
        if layout == 'o':
            for c in cfgs:
                os.makedirs(os.path.join(root, rdir, 'cfg%d' % c))
                for nm in names:
                    txt, info = encode_sfcf_file(hdr0, blocks_of(rep, c, nm))
                    rel = os.path.join(rdir, 'cfg%d' % c, nm)
                    with open(os.path.join(root, rel), 'w') as f:
                        f.write(txt)
                    info.update(rep=rep, cfg=c, name=nm)
                    out[rel] = info
        elif layout == 'c':
            for c in cfgs:
                blks = []
                for nm in names:
                    blks.extend(blocks_of(rep, c, nm))
                txt, info = encode_sfcf_file(hdr0, blks)
                rel = os.path.join(rdir, '%s_n%d' % (rdir, c))
                with open(os.path.join(root, rel), 'w') as f:
                    f.write(txt)
                info.update(rep=rep, cfg=c, name=None)
                out[rel] = info
        elif layout == 'a':
            for nm in names:
                txt = ''
                chunks = []
                for c in cfgs:
                    h = dict(hdr0)
                    h['gauge_name'] = '/%s_n%d' % (rdir, c)
                    t, info = encode_sfcf_file(h, blocks_of(rep, c, nm))
                    chunks.append((c, len(txt), len(txt) + len(t), info))
                    txt += t
                rel = '%s.%s' % (rdir, nm)
                with open(os.path.join(root, rel), 'w') as f:
                    f.write(txt)
                out[rel] = {'chunks': chunks, 'size': len(txt), 'rep': rep, 'name': nm}
        else:
            raise ValueError(layout)
    return out


# ------------------------------------------------------------------------------------------------
# Hadrons hdf5 (meson contraction files):  <filestem>.<cfg>.h5
#   /<group>/<group>_<k>/corr   compound {re: f8, im: f8}[T];  attributes of /<group>/<group>_<k>: arrays of byte strings
# ------------------------------------------------------------------------------------------------
def write_hadrons_file(path, group, entries):
    """entries: [(attrs dict str -> str, complex array[T])] written as <group>_<k> in the given order."""
    import h5py
    dt = np.dtype([('re', '<f8'), ('im', '<f8')])
    with h5py.File(path, 'w') as f:
        g = f.create_group(group)
        for k, (attrs, corr) in enumerate(entries):
            e = g.create_group('%s_%d' % (group, k))
            corr = np.asarray(corr, dtype=complex)
            a = np.empty(len(corr), dtype=dt)
            a['re'] = corr.real
            a['im'] = corr.imag
            e.create_dataset('corr', data=a)
            for an, av in attrs.items():
                e.attrs.create(an, np.array([av.encode()], dtype='S%d' % max(1, len(av.encode()))))


def parse_hadrons_file(path, group):
    import h5py
    out = []
    with h5py.File(path, 'r') as f:
        g = f[group]
        k = 0
        while '%s_%d' % (group, k) in g:
            e = g['%s_%d' % (group, k)]
            raw = e['corr'][:]
            attrs = {an: bytes(av[0]).decode() for an, av in e.attrs.items()}
            out.append((attrs, raw['re'] + 1j * raw['im']))
            k += 1
    return out


# ------------------------------------------------------------------------------------------------
# Hadrons DistillationContraction:  <path>/data.<cfg>/<stem>.<cfg>.h5
#   /DistillationContraction/Metadata              attrs TimeSources = ["0..."], Nt = [Nt]
#   /DistillationContraction/Metadata/DmfInputFiles attrs DmfInputFiles_<k> = ["<dir>/<Gamma>_p<mom>_n<vec>_t<t>.h5"], n = [count]
#   /DistillationContraction/Correlators/<diagram>/<x0>   compound {re, im}[Nt] for every source time x0
# ------------------------------------------------------------------------------------------------
H5_COMPLEX = np.dtype([('re', '<f8'), ('im', '<f8')])


def _compound(z):
    z = np.asarray(z, dtype=complex)
    a = np.empty(z.shape, dtype=H5_COMPLEX)
    a['re'] = z.real
    a['im'] = z.imag
    return a


def write_distillation_file(path, inputs, data, Nt, time_sources='0...'):
    """inputs: list of strings '<Gamma>_p<mom>_n<vec>_t<t>'; data: {diagram: complex array [x0][t]}."""
    import h5py
    with h5py.File(path, 'w') as f:
        md = f.create_group('DistillationContraction/Metadata')
        md.attrs['TimeSources'] = np.array([time_sources.encode()])
        md.attrs['Nt'] = np.array([Nt])
        inp = md.create_group('DmfInputFiles')
        for k, s_ in enumerate(inputs):
            inp.attrs['DmfInputFiles_%d' % k] = np.array([('/some/dir/' + s_ + '.h5').encode()])
        inp.attrs['n'] = np.array([len(inputs)])
        for diag, arr in data.items():
            g = f.create_group('DistillationContraction/Correlators/' + diag)
            for x0 in range(Nt):
                g.create_dataset(str(x0), data=_compound(arr[x0]))


def distillation_identifier(inputs):
    res = []
    for s_ in inputs:
        f = s_.split('_')
        res.append((f[0], f[1][1:], f[2], f[3]))
    return str(tuple(res))


def distillation_expect(arr, field):
    """Documented reduction: average over the source times of the correlator shifted back by its source time."""
    Nt = len(arr)
    acc = np.zeros(Nt)
    for x0 in range(Nt):
        acc += np.roll(getattr(np.asarray(arr[x0]), field), -x0)
    return acc / Nt


# ------------------------------------------------------------------------------------------------
# Hadrons NPR modules: ExternalLeg, Bilinear (16 gamma insertions), FourQuarkFullyConnected (32 pairs)
#   <group>/corr   compound {re, im}, shape (1, 1) + spin-colour shape;   <group>/info attrs pIn, pOut ("a b c d"), gamma / gammaA, gammaB
# ------------------------------------------------------------------------------------------------
GAMMA16 = ['Identity', 'Gamma5', 'GammaX', 'GammaY', 'GammaZ', 'GammaT', 'GammaXGamma5', 'GammaYGamma5', 'GammaZGamma5', 'GammaTGamma5',
           'SigmaXY', 'SigmaXZ', 'SigmaXT', 'SigmaYZ', 'SigmaYT', 'SigmaZT']
_LOR = ['X', 'Y', 'Z', 'T']


def fourquark_pairs(vertex):
    """(gammaA, gammaB, sign) contributing to a four-quark vertex.  The overall sign of the TTtilde terms follows the
    library's convention (documented nowhere): (XY,ZT), (XT,YZ), (YZ,XT), (ZT,XY) enter with -1, (XZ,YT), (YT,XZ) with +1."""
    if vertex == 'TT':
        return [('Sigma' + _LOR[i] + _LOR[j], 'Sigma' + _LOR[i] + _LOR[j], 1) for i in range(4) for j in range(i + 1, 4)]
    if vertex == 'TTtilde':
        return [('SigmaXY', 'SigmaZT', -1), ('SigmaXZ', 'SigmaYT', 1), ('SigmaXT', 'SigmaYZ', -1),
                ('SigmaYZ', 'SigmaXT', -1), ('SigmaYT', 'SigmaXZ', 1), ('SigmaZT', 'SigmaXY', -1)]
    if len(vertex) != 2:
        return None
    if set(vertex) <= {'S', 'P'}:
        g = {'S': 'Identity', 'P': 'Gamma5'}
        return [(g[vertex[0]], g[vertex[1]], 1)]
    if set(vertex) <= {'V', 'A'}:
        return [('Gamma' + x + ('Gamma5' if vertex[0] == 'A' else ''), 'Gamma' + x + ('Gamma5' if vertex[1] == 'A' else ''), 1) for x in _LOR]
    return None


FOURQUARK_VERTICES = ['VV', 'VA', 'AV', 'AA', 'SS', 'SP', 'PS', 'PP', 'TT', 'TTtilde']


def fourquark_all_pairs():
    out = []
    for v in FOURQUARK_VERTICES:
        for a, b, _ in fourquark_pairs(v):
            if (a, b) not in out:
                out.append((a, b))
    return out


def _mom_attr(m):
    return np.array([' '.join(str(x) for x in m).encode()])


def write_npr_file(path, kind, entries, p_in, p_out=None):
    """kind 'ExternalLeg': entries = [complex array]; 'Bilinear': entries = [(gamma, array)] (16);
    'FourQuarkFullyConnected': entries = [((gammaA, gammaB), array)] (32)."""
    import h5py
    with h5py.File(path, 'w') as f:
        if kind == 'ExternalLeg':
            g = f.create_group('ExternalLeg')
            g.create_dataset('corr', data=_compound(entries[0])[None, None])
            g.create_group('info').attrs['pIn'] = _mom_attr(p_in)
            return
        top = f.create_group(kind)
        for i, (lab, arr) in enumerate(entries):
            g = top.create_group('%s_%d' % (kind, i))
            g.create_dataset('corr', data=_compound(arr)[None, None])
            info = g.create_group('info')
            info.attrs['pIn'] = _mom_attr(p_in)
            info.attrs['pOut'] = _mom_attr(p_out)
            if kind == 'Bilinear':
                info.attrs['gamma'] = np.array([lab.encode()])
            else:
                info.attrs['gammaA'] = np.array([lab[0].encode()])
                info.attrs['gammaB'] = np.array([lab[1].encode()])


# ------------------------------------------------------------------------------------------------
# Hadrons FlowObservables (extract_t0_hd5):  <stem>.<cfg>.h5
#   /FlowObservables/FlowObservables_<k>/data  double[n]; attribute description = ["..."];  k = 0 holds the flow times
# ------------------------------------------------------------------------------------------------
def write_flowobs_file(path, entries):
    """entries: [(description, 1-d array)]; entry 0 = flow times."""
    import h5py
    with h5py.File(path, 'w') as f:
        g = f.create_group('FlowObservables')
        for k, (desc, arr) in enumerate(entries):
            e = g.create_group('FlowObservables_%d' % k)
            e.create_dataset('data', data=np.asarray(arr, dtype='<f8'))
            e.attrs['description'] = np.array([desc.encode()])


# ------------------------------------------------------------------------------------------------
# validation of the writers against the repository's sample files
# ------------------------------------------------------------------------------------------------
def selfcheck(repo):
    """Re-encode every sample file of the repository from an independent parse; returns a list of
    (format, ok, detail).  A failure means the writer (or parser) is wrong - a harness error."""
    res = []
    d = os.path.join(repo, 'tests', 'data', 'openqcd_test')

    def rd(p):
        with open(p, 'rb') as f:
            return f.read()

    # rwms 1.6
    raw = rd(os.path.join(d, 'sfqcdr1.rwms.dat'))
    nfct, nsrc, recs = parse_rwms(raw, '1.6')
    enc, bounds = encode_rwms('1.6', nfct, nsrc, recs)
    res.append(('rwms-1.6', enc == raw and bounds['records'][-1]['end'] == len(raw), 'records=%d' % len(recs)))
    # rwms 1.4: the repository has no sample; the 1.6 sample with nfct == 1 everywhere differs from its 1.4 form only
    # by the nfct words of the header
    if all(f == 1 for f in nfct):
        enc14, _ = encode_rwms('1.4', nfct, nsrc, recs)
        nrw = len(nsrc)
        res.append(('rwms-1.4', enc14 == raw[:4] + raw[4 + 4 * nrw:], 'derived from the 1.6 sample'))
        n2, s2, r2 = parse_rwms(enc14, '1.4')
        res.append(('rwms-1.4-parse', s2 == nsrc and len(r2) == len(recs), ''))
    # rwms 2.0
    raw = rd(os.path.join(d, 'openqcd2r1.ms1.dat'))
    nfct, nsrc, recs = parse_rwms(raw, '2.0')
    enc, bounds = encode_rwms('2.0', nfct, nsrc, recs)
    res.append(('rwms-2.0', enc == raw, 'records=%d nfct=%r nsrc=%r' % (len(recs), nfct, nsrc)))
    # ms.dat
    raw = rd(os.path.join(d, 'openqcd2r1.ms.dat'))
    dn, nn, tmax, eps, recs = parse_msdat(raw)
    enc, bounds = encode_msdat(dn, nn, tmax, eps, recs)
    res.append(('ms.dat', enc == raw, 'records=%d' % len(recs)))
    # gfms
    raw = rd(os.path.join(d, 'sfqcdr1.gfms.dat'))
    p = parse_gfms(raw)
    enc, bounds = encode_gfms(*p)
    res.append(('gfms', enc == raw, 'records=%d' % len(p[-1])))
    # ms5_xsf
    for r in (1, 2, 3):
        raw = rd(os.path.join(d, 'ms5_xsf_T24L16r%d.ms5_xsf_dd.dat' % r))
        p = parse_ms5xsf(raw)
        enc, bounds = encode_ms5xsf(*p)
        res.append(('ms5_xsf-r%d' % r, enc == raw, 'records=%d' % len(p[-1])))
    # sfcf
    s = os.path.join(repo, 'tests', 'data', 'sfcf_test')
    samples = [('sfcf-c', os.path.join(s, 'data_c', 'data_c_r0', 'data_c_r0_n1'))]
    for nm in ('f_A', 'f_1', 'F_V0'):
        samples.append(('sfcf-o-' + nm, os.path.join(s, 'data_o', 'test_r0', 'cfg1', nm)))
        samples.append(('sfcf-a-' + nm, os.path.join(s, 'data_a', 'data_a_r0.' + nm)))
    for lab, p in samples:
        with open(p) as f:
            txt = f.read()
        chunks = parse_sfcf_text(txt)
        enc = ''.join(encode_sfcf_file(h, b)[0] for h, b in chunks)
        ok = enc == txt
        detail = 'chunks=%d blocks=%d' % (len(chunks), sum(len(b) for _, b in chunks))
        if not ok:
            # numbers only (text formats): same numbers in the same places
            c2 = parse_sfcf_text(enc)
            ok = [(h, [(b['name'], b['wf'], b['wf2'], b['vals']) for b in bl]) for h, bl in c2] == \
                 [(h, [(b['name'], b['wf'], b['wf2'], b['vals']) for b in bl]) for h, bl in chunks]
            detail += ' (numbers equal, bytes differ)' if ok else ' MISMATCH'
        res.append((lab, ok, detail))
    return res


def natural_key(s):
    return [int(t) if t.isdigit() else t for t in re.split(r'(\d+)', s)]
