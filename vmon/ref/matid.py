"""Matrix identities as polynomial functions of scalar variables (property C10).

Every real scalar that enters an identity (real / imaginary part of an entry of the input matrix
or of a result of the library) is a *variable* that carries a snapshot (see vmon.snap.snap); plain
numbers are constants.  An identity is written with explicit loops over `Dual` numbers (complex
value + sparse gradient with respect to the variables); its residual is then propagated through
the dense model of C01 (vmon.ref.dense.propagate: union of configuration lists, up-weighting) and
must vanish in value and in every fluctuation.  MUST NOT import pyerrors.
"""
import itertools

import numpy as np

from . import dense


class Dual:
    __slots__ = ('v', 'g')

    def __init__(self, v, g=None):
        self.v = v
        self.g = g or {}

    @staticmethod
    def lift(x):
        return x if isinstance(x, Dual) else Dual(x, {})

    def __add__(self, o):
        o = Dual.lift(o)
        g = dict(self.g)
        for k, c in o.g.items():
            g[k] = g.get(k, 0.0) + c
        return Dual(self.v + o.v, g)

    __radd__ = __add__

    def __neg__(self):
        return Dual(-self.v, {k: -c for k, c in self.g.items()})

    def __sub__(self, o):
        return self + (-Dual.lift(o))

    def __rsub__(self, o):
        return Dual.lift(o) + (-self)

    def __mul__(self, o):
        o = Dual.lift(o)
        g = {k: c * o.v for k, c in self.g.items()}
        for k, c in o.g.items():
            g[k] = g.get(k, 0.0) + c * self.v
        return Dual(self.v * o.v, g)

    __rmul__ = __mul__

    def conj(self):
        return Dual(np.conj(self.v), {k: np.conj(c) for k, c in self.g.items()})


class Tape:
    """Registry of the real variables of one check."""

    def __init__(self):
        self.snaps = []

    def var(self, snapshot, value=None):
        i = len(self.snaps)
        self.snaps.append(snapshot)
        return Dual(snapshot['value'] if value is None else value, {i: 1.0})

    def grads(self, d, part):
        """gradient of the real ('re') or imaginary ('im') part of a Dual with respect to all variables."""
        out = [0.0] * len(self.snaps)
        for k, c in d.g.items():
            c = complex(c)
            out[k] = c.real if part == 're' else c.imag
        return out


def entry_dual(tape, entry):
    """entry: ('num', z) | ('re', snapshot) | ('c', snapshot_re or number, snapshot_im or number)."""
    kind = entry[0]
    if kind == 'num':
        return Dual(entry[1], {})
    if kind == 're':
        return tape.var(entry[1])
    re, im = entry[1], entry[2]
    dre = tape.var(re) if isinstance(re, dict) else Dual(re, {})
    dim = tape.var(im) if isinstance(im, dict) else Dual(im, {})
    return dre + dim * 1j


def matrix_duals(tape, entries):
    return [[entry_dual(tape, e) for e in row] for row in entries]


def shape(m):
    return len(m), (len(m[0]) if m else 0)


def mm(a, b):
    n, k = shape(a)
    k2, m = shape(b)
    assert k == k2
    out = []
    for i in range(n):
        row = []
        for j in range(m):
            acc = Dual(0.0, {})
            for l in range(k):
                acc = acc + a[i][l] * b[l][j]
            row.append(acc)
        out.append(row)
    return out


def transpose(a):
    n, m = shape(a)
    return [[a[i][j] for i in range(n)] for j in range(m)]


def hconj(a):
    n, m = shape(a)
    return [[a[i][j].conj() for i in range(n)] for j in range(m)]


def sub(a, b):
    n, m = shape(a)
    return [[a[i][j] - b[i][j] for j in range(m)] for i in range(n)]


def eye(n):
    return [[Dual(1.0 if i == j else 0.0, {}) for j in range(n)] for i in range(n)]


def diag(v):
    n = len(v)
    return [[v[i] if i == j else Dual(0.0, {}) for j in range(n)] for i in range(n)]


def det_cofactor(a):
    """Laplace expansion along the first row (explicit, n <= 4)."""
    n = len(a)
    if n == 1:
        return a[0][0]
    acc = Dual(0.0, {})
    for j in range(n):
        minor = [[a[i][l] for l in range(n) if l != j] for i in range(1, n)]
        term = a[0][j] * det_cofactor(minor)
        acc = acc + term if j % 2 == 0 else acc - term
    return acc


def det_leibniz(a):
    """Sum over permutations (independent of the cofactor recursion)."""
    n = len(a)
    acc = Dual(0.0, {})
    for perm in itertools.permutations(range(n)):
        inv = sum(1 for i in range(n) for j in range(i + 1, n) if perm[i] > perm[j])
        term = Dual(1.0, {})
        for i in range(n):
            term = term * a[i][perm[i]]
        acc = acc + term if inv % 2 == 0 else acc - term
    return acc


def trace(a):
    acc = Dual(0.0, {})
    for i in range(len(a)):
        acc = acc + a[i][i]
    return acc


def product(vals):
    acc = Dual(1.0, {})
    for v in vals:
        acc = acc * v
    return acc


def total(vals):
    acc = Dual(0.0, {})
    for v in vals:
        acc = acc + v
    return acc


# ------------------------------------------------------------------------------------------
def propagate_part(tape, d, part, f=None):
    """dense propagation of the real / imaginary part of a Dual; returns (reference observable, scale)
    where scale = sum_k |g_k| max|delta_k| * (largest up-weighting factor) bounds the size of the terms."""
    g = tape.grads(d, part)
    val = complex(d.v).real if part == 're' else complex(d.v).imag
    ref = dense.propagate(tape.snaps, g, f if f is not None else (lambda v: val))
    if f is None:
        ref['value'] = val
        ref['chains'] = {c: (x[0], x[1], None) for c, x in ref['chains'].items()}
    chains, union = dense.union_lists(tape.snaps)
    wmax = max([1.0] + list(dense.weights(tape.snaps, chains, union).values()))
    scale = dense.delta_scale(tape.snaps, g) * wmax
    cscale = {}
    for n in ref['cov']:
        s = 0.0
        for sn, gg in zip(tape.snaps, g):
            if n in sn['cov']:
                s += abs(gg) * float(np.max(np.abs(sn['cov'][n][1]))) if np.size(sn['cov'][n][1]) else 0.0
        cscale[n] = s
    vscale = sum(abs(gg) * abs(sn['value']) for sn, gg in zip(tape.snaps, g))
    return ref, scale, cscale, vscale


def residual_size(tape, d):
    """(|value|, value scale, max |fluctuation|, fluctuation scale, max |cov gradient|, cov scale) of a Dual
    that an identity claims to be zero."""
    out = dict(value=abs(complex(d.v)), vscale=0.0, fluct=0.0, fscale=0.0, cov=0.0, cscale=0.0, where=None, dall=0.0, call=0.0)
    # size of all fluctuations / covariance gradients on the tape (floor for residuals whose own gradient is rounding noise)
    chains, union = dense.union_lists(tape.snaps)
    wmax = max([1.0] + list(dense.weights(tape.snaps, chains, union).values()))
    out['dall'] = wmax * dense.delta_scale(tape.snaps, [1.0] * len(tape.snaps))
    out['call'] = sum(float(np.max(np.abs(v[1]))) for sn in tape.snaps for v in sn['cov'].values() if np.size(v[1]))
    for part in ('re', 'im'):
        g = tape.grads(d, part)
        if not any(g):
            continue
        ref, scale, cscale, vscale = propagate_part(tape, d, part)
        out['vscale'] = max(out['vscale'], vscale)
        out['fscale'] = max(out['fscale'], scale)
        for c, (idl, dl, _) in ref['chains'].items():
            m = float(np.max(np.abs(dl))) if len(dl) else 0.0
            if m > out['fluct']:
                out['fluct'] = m
                out['where'] = (part, c)
        for n, gr in ref['cov'].items():
            m = float(np.max(np.abs(gr))) if np.size(gr) else 0.0
            out['cov'] = max(out['cov'], m)
            out['cscale'] = max(out['cscale'], cscale.get(n, 0.0))
    return out
