"""mpmath (40 digits) reference values and derivatives of the special functions re-exported by the
library (property C20).  MUST NOT import pyerrors.

REF[name] = function(consts, x) -> mpf, with consts a tuple of fixed (non-differentiated) parameters
and x a list of mpf arguments (the ones given as observables).  Derivatives are taken numerically
(symmetric difference quotient at 50 digits, validated against mpmath.diff), i.e. independently of
the closed forms that autograd / the library use; for K_n the closed form of the property
statement is evaluated from a recurrence table and cross-checked against the numerical derivative.
"""
import mpmath as mp

DPS = 40


def _gammainc_lower(c, x):
    return mp.gammainc(c[0], 0, x[0], regularized=True)


def _gammainc_upper(c, x):
    return mp.gammainc(c[0], x[0], mp.inf, regularized=True)


def _multigammaln(c, x):
    d = int(c[0])
    return mp.mpf(d * (d - 1)) / 4 * mp.log(mp.pi) + mp.fsum(mp.log(abs(mp.gamma(x[0] - mp.mpf(j - 1) / 2))) for j in range(1, d + 1))


def _order(v):
    """order of a modified Bessel function of the first kind: I_{-n} = I_n for integer n (avoids the complex branch mpmath
    takes for a negative integer order at negative argument)"""
    v = float(v)
    return abs(int(v)) if v.is_integer() else mp.mpf(v)


REF = {
    'kn': lambda c, x: mp.besselk(int(c[0]), x[0]),
    'j0': lambda c, x: mp.besselj(0, x[0]),
    'j1': lambda c, x: mp.besselj(1, x[0]),
    'y0': lambda c, x: mp.bessely(0, x[0]),
    'y1': lambda c, x: mp.bessely(1, x[0]),
    'jn': lambda c, x: mp.besselj(int(c[0]), x[0]),
    'yn': lambda c, x: mp.bessely(int(c[0]), x[0]),
    'i0': lambda c, x: mp.besseli(0, x[0]),
    'i1': lambda c, x: mp.besseli(1, x[0]),
    'iv': lambda c, x: mp.besseli(_order(c[0]), x[0]),
    'ive': lambda c, x: mp.besseli(_order(c[0]), x[0]) * mp.exp(-abs(x[0])),
    'beta': lambda c, x: mp.beta(x[0], x[1]),
    'betaln': lambda c, x: mp.log(abs(mp.beta(x[0], x[1]))),
    'betainc': lambda c, x: mp.betainc(mp.mpf(c[0]), mp.mpf(c[1]), 0, x[0], regularized=True),
    'polygamma': lambda c, x: mp.polygamma(int(c[0]), x[0]),
    'psi': lambda c, x: mp.digamma(x[0]),
    'digamma': lambda c, x: mp.digamma(x[0]),
    'gamma': lambda c, x: mp.gamma(x[0]),
    'gammaln': lambda c, x: mp.log(abs(mp.gamma(x[0]))),
    'gammainc': _gammainc_lower,
    'gammaincc': _gammainc_upper,
    'gammasgn': lambda c, x: mp.sign(mp.gamma(x[0])),
    'rgamma': lambda c, x: mp.rgamma(x[0]),
    'multigammaln': _multigammaln,
    'erf': lambda c, x: mp.erf(x[0]),
    'erfc': lambda c, x: mp.erfc(x[0]),
    'erfinv': lambda c, x: mp.erfinv(x[0]),
    'erfcinv': lambda c, x: mp.erfinv(1 - x[0]),
    'logit': lambda c, x: mp.log(x[0]) - mp.log(1 - x[0]),
    'expit': lambda c, x: 1 / (1 + mp.exp(-x[0])),
    'logsumexp': lambda c, x: mp.log(mp.fsum(mp.exp(t) for t in x)),
}


def value(name, consts, xs):
    """f(xs) as an mpf (xs: floats, taken exactly)."""
    with mp.workdps(DPS):
        return +REF[name](consts, [mp.mpf(float(t)) for t in xs])


def partials(name, consts, xs):
    """[df/dx_k] as mpf: symmetric difference quotient with step 1e-15 |x| (1e-15 at x = 0) evaluated with 50 digits
    (truncation ~1e-30 times the third derivative, rounding ~1e-35 |f|: at least 25 correct digits for these
    analytic functions, two function evaluations per argument).  Validated against mpmath.diff in self_test()."""
    out = []
    with mp.workdps(DPS + 10):
        x0 = [mp.mpf(float(t)) for t in xs]
        if name == 'gammasgn':
            return [mp.mpf(0) for _ in x0]
        for k in range(len(x0)):
            # step relative to the argument (a tiny argument next to a singularity needs a tiny step), one unit at the origin
            h = mp.mpf(10) ** -15 * (abs(x0[k]) if x0[k] != 0 else 1)
            yp = list(x0)
            ym = list(x0)
            yp[k] = x0[k] + h
            ym[k] = x0[k] - h
            out.append((REF[name](consts, yp) - REF[name](consts, ym)) / (2 * h))
    return out


def partials_mpdiff(name, consts, xs):
    """the same derivatives by mpmath.diff (slower; used to validate partials())"""
    out = []
    with mp.workdps(DPS):
        x0 = [mp.mpf(float(t)) for t in xs]
        for k in range(len(x0)):
            def g(t, k=k):
                y = list(x0)
                y[k] = t
                return REF[name](consts, y)
            out.append(+mp.diff(g, x0[k]))
    return out


def kn_table(x, nmax):
    """[K_0(x) .. K_nmax(x)] at 40 digits from two Bessel evaluations and the upward recurrence
    K_{n+1} = K_{n-1} + (2n/x) K_n (stable in this direction)."""
    with mp.workdps(DPS + 5):
        xx = mp.mpf(float(x))
        k = [mp.besselk(0, xx), mp.besselk(1, xx)]
        for n in range(1, nmax):
            k.append(k[n - 1] + 2 * n / xx * k[n])
        return k[:nmax + 1]


def kn_derivative_from_table(k, n):
    """-(K_{n-1} + K_{n+1}) / 2 with K_{-1} = K_1: the statement of the property"""
    return -(k[abs(n - 1)] + k[n + 1]) / 2


def self_test():
    """the reference against itself: difference quotient vs mpmath.diff, recurrence vs direct evaluation, closed-form
    K_n derivative vs numerical derivative.  Raises AssertionError on disagreement."""
    with mp.workdps(DPS):
        for name, c, x in [('j0', (), [2.3]), ('erf', (), [0.4]), ('gamma', (), [1.7]), ('beta', (), [0.7, 1.9]), ('gammainc', (2.5,), [1.2]),
                           ('iv', (2.5,), [0.9]), ('logsumexp', (), [0.1, -0.4, 1.2]), ('kn', (2,), [0.8])]:
            a = partials(name, c, x)
            b = partials_mpdiff(name, c, x)
            for u, v in zip(a, b):
                if abs(u - v) > mp.mpf(10) ** -22 * max(abs(v), 1):
                    raise AssertionError('difference quotient and mpmath.diff disagree for %s' % name)
        for x in (0.06, 0.9, 7.5, 19.0):
            k = kn_table(x, 7)
            for n in range(8):
                d = mp.besselk(n, mp.mpf(x))
                if abs(k[n] - d) > mp.mpf(10) ** -30 * abs(d):
                    raise AssertionError('K_n recurrence disagrees with besselk at n=%d x=%r' % (n, x))
            for n in range(7):
                nd = partials('kn', (n,), [x])[0]
                cf = kn_derivative_from_table(k, n)
                if abs(nd - cf) > mp.mpf(10) ** -22 * abs(cf):
                    raise AssertionError('K_n derivative: closed form and numerical derivative disagree at n=%d x=%r' % (n, x))
    return True
