"""Closed forms for property C09: function families with explicit inverse (roots) and integrands
with explicit antiderivative (integrals), with the derivatives typed analytically.
MUST NOT import pyerrors.  Everything takes plain floats.

Root families:   residual(x, d, c), inverse(d, c) with residual(inverse(d, c), d, c) = 0,
                 sens(d, c) = d inverse / d d_k = -(df/dd_k)/(df/dx) at the root.
Integrand families: f(p, x, c), integral(p, a, b, c) = int_a^b f dx from the antiderivative,
                 dparam(p, a, b, c) = (int_a^b df/dp_k dx)_k, limits: +f(p, b), -f(p, a).
`c` are plain constants of the family (exponent, rate, ...), `d` / `p` lists of floats.
"""
import math


def _cbrt(v):
    return math.copysign(abs(v) ** (1.0 / 3.0), v)


def _cardano(b, d):
    """the real root of x^3 + b x - d = 0 for b > 0 (monotone cubic)."""
    s = math.sqrt(d * d / 4.0 + b ** 3 / 27.0)
    return _cbrt(d / 2.0 + s) + _cbrt(d / 2.0 - s)


ROOTS = {
    # name: (number of observables, residual, inverse, sensitivities)
    'power': (1,
              lambda x, d, c: x ** c['n'] - d[0],
              lambda d, c: d[0] ** (1.0 / c['n']),
              lambda d, c, x: [1.0 / (c['n'] * x ** (c['n'] - 1))]),
    'exp': (1,
            lambda x, d, c: math.exp(c['a'] * x) - d[0],
            lambda d, c: math.log(d[0]) / c['a'],
            lambda d, c, x: [1.0 / (c['a'] * d[0])]),
    'log': (1,
            lambda x, d, c: c['a'] * math.log(x) - d[0],
            lambda d, c: math.exp(d[0] / c['a']),
            lambda d, c, x: [x / c['a']]),
    'tanh': (1,
             lambda x, d, c: math.tanh(c['a'] * x) - d[0],
             lambda d, c: math.atanh(d[0]) / c['a'],
             lambda d, c, x: [1.0 / (c['a'] * (1.0 - d[0] ** 2))]),
    'cubic': (1,
              lambda x, d, c: x ** 3 + c['b'] * x - d[0],
              lambda d, c: _cardano(c['b'], d[0]),
              lambda d, c, x: [1.0 / (3 * x * x + c['b'])]),
    'vec_ratio_exp': (2,
                      lambda x, d, c: d[0] * math.exp(x) - d[1],
                      lambda d, c: math.log(d[1] / d[0]),
                      lambda d, c, x: [-1.0 / d[0], 1.0 / d[1]]),
    'vec_quadratic': (2,
                      lambda x, d, c: d[0] * x * x - d[1],
                      lambda d, c: math.sqrt(d[1] / d[0]),
                      lambda d, c, x: [-x / (2 * d[0]), 1.0 / (2 * d[0] * x)]),
    'vec_linear': (3,
                   lambda x, d, c: d[0] * x + d[1] - d[2],
                   lambda d, c: (d[2] - d[1]) / d[0],
                   lambda d, c, x: [-x / d[0], -1.0 / d[0], 1.0 / d[0]]),
    'vec_cubic': (2,
                  lambda x, d, c: x ** 3 + d[0] * x - d[1],
                  lambda d, c: _cardano(d[0], d[1]),
                  lambda d, c, x: [-x / (3 * x * x + d[0]), 1.0 / (3 * x * x + d[0])]),
}


def _poly_f(p, x, c):
    return sum(p[k] * x ** k for k in range(len(p)))


def _poly_int(p, a, b, c):
    return sum(p[k] * (b ** (k + 1) - a ** (k + 1)) / (k + 1) for k in range(len(p)))


def _poly_dp(p, a, b, c):
    return [(b ** (k + 1) - a ** (k + 1)) / (k + 1) for k in range(len(p))]


def _eb(rate, b):
    """exp(-rate * b), b may be +inf (rate > 0)."""
    return 0.0 if math.isinf(b) else math.exp(-rate * b)


def _beb(rate, b):
    return 0.0 if math.isinf(b) else b * math.exp(-rate * b)


def _exp_f(p, x, c):
    # p0 * exp(-p1 x) + p2
    return p[0] * math.exp(-p[1] * x) + (p[2] if len(p) > 2 else 0.0)


def _exp_int(p, a, b, c):
    r = p[0] * (_eb(p[1], a) - _eb(p[1], b)) / p[1]
    if len(p) > 2:
        r += p[2] * (b - a)
    return r


def _exp_dp(p, a, b, c):
    e = _eb(p[1], a) - _eb(p[1], b)
    g = [e / p[1],
         p[0] * ((-_beb(p[1], a) + _beb(p[1], b)) / p[1] - e / p[1] ** 2)]
    if len(p) > 2:
        g.append(b - a)
    return g


def _trig_f(p, x, c):
    # p0 sin(p1 x) + p2 cos(w x)
    return p[0] * math.sin(p[1] * x) + p[2] * math.cos(c['w'] * x)


def _trig_int(p, a, b, c):
    w = c['w']
    return p[0] * (math.cos(p[1] * a) - math.cos(p[1] * b)) / p[1] + p[2] * (math.sin(w * b) - math.sin(w * a)) / w


def _trig_dp(p, a, b, c):
    w = c['w']
    cc = math.cos(p[1] * a) - math.cos(p[1] * b)
    return [cc / p[1],
            p[0] * ((-a * math.sin(p[1] * a) + b * math.sin(p[1] * b)) / p[1] - cc / p[1] ** 2),
            (math.sin(w * b) - math.sin(w * a)) / w]


INTEGRANDS = {
    'poly': (_poly_f, _poly_int, _poly_dp),
    'exp': (_exp_f, _exp_int, _exp_dp),
    'trig': (_trig_f, _trig_int, _trig_dp),
}


def gradient(family, p, a, b, c, p_is_obs, a_is_obs, b_is_obs):
    """Expected gradient in the order (observable parameters..., lower limit, upper limit)."""
    f, integral, dp = INTEGRANDS[family]
    g = [v for v, is_o in zip(dp(p, a, b, c), p_is_obs) if is_o]
    if a_is_obs:
        g.append(-f(p, a, c))
    if b_is_obs:
        g.append(f(p, b, c))
    return g


# ------------------------------------------------------------------------------------------
def self_check():
    """The typed formulas against mpmath (numerical root finding / quadrature / differentiation)."""
    import mpmath
    mpmath.mp.dps = 30
    pts = {
        'power': ([2.3], {'n': 3}), 'exp': ([1.7], {'a': -0.8}), 'log': ([0.6], {'a': 1.4}), 'tanh': ([0.45], {'a': 0.7}),
        'cubic': ([-1.9], {'b': 0.8}), 'vec_ratio_exp': ([1.3, 2.9], {}), 'vec_quadratic': ([0.7, 2.2], {}),
        'vec_linear': ([-1.6, 0.4, 2.5], {}), 'vec_cubic': ([1.1, -2.7], {}),
    }
    for name, (d, c) in pts.items():
        n, res, inv, sens = ROOTS[name]
        assert n == len(d)
        x = inv(d, c)
        scale = 1.0 + abs(x)
        if abs(res(x, d, c)) > 1e-12 * scale * 10:
            raise AssertionError('inverse of root family %s is wrong' % name)
        s = sens(d, c, x)
        for k in range(n):
            h = 1e-5
            num = (inv([v + (h if i == k else 0) for i, v in enumerate(d)], c) - inv([v - (h if i == k else 0) for i, v in enumerate(d)], c)) / (2 * h)
            if abs(num - s[k]) > 1e-7 * (1 + abs(s[k])):
                raise AssertionError('sensitivity %d of root family %s is wrong: %r vs %r' % (k, name, s[k], num))
    ipts = {
        'poly': ([0.7, -1.3, 0.4], 0.3, 1.9, {}), 'exp': ([1.2, 0.8, -0.3], 0.2, 2.4, {}), 'trig': ([0.9, 1.7, -0.6], -0.4, 2.1, {'w': 1.3}),
    }
    for name, (p, a, b, c) in ipts.items():
        f, integral, dp = INTEGRANDS[name]
        num = float(mpmath.quad(lambda x: f(p, float(x), c), [a, b]))
        if abs(num - integral(p, a, b, c)) > 1e-10:
            raise AssertionError('antiderivative of %s is wrong' % name)
        g = dp(p, a, b, c)
        for k in range(len(p)):
            h = 1e-5
            pp = list(p)
            pm = list(p)
            pp[k] += h
            pm[k] -= h
            fd = (integral(pp, a, b, c) - integral(pm, a, b, c)) / (2 * h)
            if abs(fd - g[k]) > 1e-7 * (1 + abs(g[k])):
                raise AssertionError('parameter derivative %d of %s is wrong' % (k, name))
    # exponential on a half line
    f, integral, dp = INTEGRANDS['exp']
    num = float(mpmath.quad(lambda x: f([1.2, 0.8], float(x), {}), [0.2, mpmath.inf]))
    if abs(num - integral([1.2, 0.8], 0.2, math.inf, {})) > 1e-10:
        raise AssertionError('half-line integral wrong')
    return True
