"""Closed forms for property C09: function families with explicit inverse (roots) and integrands
with explicit antiderivative (integrals), with the derivatives typed analytically.
MUST NOT import pyerrors.  Everything takes plain floats.

Root families:   residual(x, d, c), inverse(d, c) with residual(inverse(d, c), d, c) = 0,
                 sens(d, c) = d inverse / d d_k = -(df/dd_k)/(df/dx) at the root.
Integrand families: f(p, x, c), integral(p, a, b, c) = int_a^b f dx from the antiderivative,
                 dparam(p, a, b, c) = (int_a^b df/dp_k dx)_k, limits: +f(p, b), -f(p, a).
`c` are plain constants of the family (exponent, rate, ...), `d` / `p` lists of floats.
"""
import math
import cmath

import numpy as np


def _cbrt(v):
    return math.copysign(abs(v) ** (1.0 / 3.0), v)


def _cardano(b, d):
    """the real root of x^3 + b x - d = 0 for b > 0 (monotone cubic)."""
    s = math.sqrt(d * d / 4.0 + b ** 3 / 27.0)
    if d == 0:
        return 0.0
    # stable form (no cancellation for small b): t = cbrt(d/2 + sign(d) s), x = t - b / (3 t)
    t = _cbrt(d / 2.0 + math.copysign(s, d))
    return t - b / (3.0 * t)


# more than ten data (numbered by position): d0 x + sum_{k>=1} w_k d_k = 0
MANY_N = 12
MANY_WEIGHTS = [0.0] + [((-1) ** k) * (0.3 + 0.17 * ((7 * k) % 5)) for k in range(1, MANY_N)]


ROOTS = {
    # name: (number of observables, residual, inverse, sensitivities)
    'power': (1,
              lambda x, d, c: x ** c['n'] - d[0],
              lambda d, c: d[0] ** (1.0 / c['n']),
              lambda d, c, x: [1.0 / (c['n'] * x ** (c['n'] - 1))]),
    'exp': (1,
            lambda x, d, c: math.exp(c['a'] * x) - d[0],
            lambda d, c: math.log(d[0]) / c['a'],
            lambda d, c, x: [1.0 / (c['a'] * d[0])]),
    'log': (1,
            lambda x, d, c: c['a'] * math.log(x) - d[0],
            lambda d, c: math.exp(d[0] / c['a']),
            lambda d, c, x: [x / c['a']]),
    'tanh': (1,
             lambda x, d, c: math.tanh(c['a'] * x) - d[0],
             lambda d, c: math.atanh(d[0]) / c['a'],
             lambda d, c, x: [1.0 / (c['a'] * (1.0 - d[0] ** 2))]),
    'cubic': (1,
              lambda x, d, c: x ** 3 + c['b'] * x - d[0],
              lambda d, c: _cardano(c['b'], d[0]),
              lambda d, c, x: [1.0 / (3 * x * x + c['b'])]),
    'vec_ratio_exp': (2,
                      lambda x, d, c: d[0] * math.exp(x) - d[1],
                      lambda d, c: math.log(d[1] / d[0]),
                      lambda d, c, x: [-1.0 / d[0], 1.0 / d[1]]),
    'vec_quadratic': (2,
                      lambda x, d, c: d[0] * x * x - d[1],
                      lambda d, c: math.sqrt(d[1] / d[0]),
                      lambda d, c, x: [-x / (2 * d[0]), 1.0 / (2 * d[0] * x)]),
    'vec_linear': (3,
                   lambda x, d, c: d[0] * x + d[1] - d[2],
                   lambda d, c: (d[2] - d[1]) / d[0],
                   lambda d, c, x: [-x / d[0], -1.0 / d[0], 1.0 / d[0]]),
    'vec_many': (MANY_N,
                 lambda x, d, c: d[0] * x + sum(MANY_WEIGHTS[k] * d[k] for k in range(1, MANY_N)),
                 lambda d, c: -sum(MANY_WEIGHTS[k] * d[k] for k in range(1, MANY_N)) / d[0],
                 lambda d, c, x: [-x / d[0]] + [-MANY_WEIGHTS[k] / d[0] for k in range(1, MANY_N)]),
    'vec_cubic': (2,
                  lambda x, d, c: x ** 3 + d[0] * x - d[1],
                  lambda d, c: _cardano(d[0], d[1]),
                  lambda d, c, x: [-x / (3 * x * x + d[0]), 1.0 / (3 * x * x + d[0])]),
}


def _narrow(a, b):
    """an interval so short that differences of the antiderivative cancel (their error is eps (|F(a)| + |F(b)|), i.e. eps |a| / |b - a| relative):
    16-point Gauss-Legendre instead (exact to degree 31; for widths <= 0.05 the remainder is below 1e-30 relative)"""
    return (not math.isinf(a)) and (not math.isinf(b)) and abs(b - a) <= 0.05 * max(1.0, abs(a), abs(b))


_GL_X, _GL_W = np.polynomial.legendre.leggauss(16)


def _simpson(g, a, b):
    h, m = 0.5 * (b - a), 0.5 * (a + b)
    return h * math.fsum(float(w_) * g(m + h * float(x_)) for x_, w_ in zip(_GL_X, _GL_W))


def _poly_f(p, x, c):
    return sum(p[k] * x ** k for k in range(len(p)))


def _poly_int(p, a, b, c):
    if _narrow(a, b):
        return _simpson(lambda x: _poly_f(p, x, c), a, b)
    return sum(p[k] * (b ** (k + 1) - a ** (k + 1)) / (k + 1) for k in range(len(p)))


def _poly_dp(p, a, b, c):
    if _narrow(a, b):
        return [_simpson(lambda x, k=k: x ** k, a, b) for k in range(len(p))]
    return [(b ** (k + 1) - a ** (k + 1)) / (k + 1) for k in range(len(p))]


def _eb(rate, b):
    """exp(-rate * b), b may be +inf (rate > 0)."""
    return 0.0 if math.isinf(b) else math.exp(-rate * b)


def _beb(rate, b):
    return 0.0 if math.isinf(b) else b * math.exp(-rate * b)


def _exp_f(p, x, c):
    # p0 * exp(-p1 x) + p2
    return p[0] * math.exp(-p[1] * x) + (p[2] if len(p) > 2 else 0.0)


def _exp_int(p, a, b, c):
    if _narrow(a, b):
        return _simpson(lambda x: _exp_f(p, x, c), a, b)
    r = p[0] * (_eb(p[1], a) - _eb(p[1], b)) / p[1]
    if len(p) > 2:
        r += p[2] * (b - a)
    return r


def _exp_dp(p, a, b, c):
    if _narrow(a, b):
        return [_simpson(lambda x: math.exp(-p[1] * x), a, b), _simpson(lambda x: -p[0] * x * math.exp(-p[1] * x), a, b)] + ([b - a] if len(p) > 2 else [])
    e = _eb(p[1], a) - _eb(p[1], b)
    g = [e / p[1],
         p[0] * ((-_beb(p[1], a) + _beb(p[1], b)) / p[1] - e / p[1] ** 2)]
    if len(p) > 2:
        g.append(b - a)
    return g


def _trig_f(p, x, c):
    # p0 sin(p1 x) + p2 cos(w x)
    return p[0] * math.sin(p[1] * x) + p[2] * math.cos(c['w'] * x)


def _trig_int(p, a, b, c):
    if _narrow(a, b):
        return _simpson(lambda x: _trig_f(p, x, c), a, b)
    w = c['w']
    return p[0] * (math.cos(p[1] * a) - math.cos(p[1] * b)) / p[1] + p[2] * (math.sin(w * b) - math.sin(w * a)) / w


def _trig_dp(p, a, b, c):
    if _narrow(a, b):
        return [_simpson(lambda x: math.sin(p[1] * x), a, b), _simpson(lambda x: p[0] * x * math.cos(p[1] * x), a, b), _simpson(lambda x: math.cos(c['w'] * x), a, b)]
    w = c['w']
    cc = math.cos(p[1] * a) - math.cos(p[1] * b)
    return [cc / p[1],
            p[0] * ((-a * math.sin(p[1] * a) + b * math.sin(p[1] * b)) / p[1] - cc / p[1] ** 2),
            (math.sin(w * b) - math.sin(w * a)) / w]


INTEGRANDS = {
    'poly': (_poly_f, _poly_int, _poly_dp),
    'exp': (_exp_f, _exp_int, _exp_dp),
    'trig': (_trig_f, _trig_int, _trig_dp),
}


def gradient(family, p, a, b, c, p_is_obs, a_is_obs, b_is_obs):
    """Expected gradient in the order (observable parameters..., lower limit, upper limit)."""
    f, integral, dp = INTEGRANDS[family]
    g = [v for v, is_o in zip(dp(p, a, b, c), p_is_obs) if is_o]
    if a_is_obs:
        g.append(-f(p, a, c))
    if b_is_obs:
        g.append(f(p, b, c))
    return g


# ------------------------------------------------------------------------------------------
# weighted integrals  int_a^b f(p, x) cos(w x) dx / sin(w x)  (scipy's weight='cos'|'sin', wvar=w), from the complex
# antiderivatives of x^k e^{iwx} (recursion by parts) and e^{(iw - r) x}
def _xk_eiw(k, w, x):
    """antiderivative of x^k e^{i w x} at x."""
    iw = 1j * w
    if k == 0:
        return cmath.exp(iw * x) / iw
    return x ** k * cmath.exp(iw * x) / iw - (k / iw) * _xk_eiw(k - 1, w, x)


def _part(z, weight):
    return z.real if weight == 'cos' else z.imag


def weight_value(weight, w, x):
    return math.cos(w * x) if weight == 'cos' else math.sin(w * x)


def weighted_dparam(family, p, a, b, c, weight, w):
    if w == 0:
        # cos(0 x) = 1: the unweighted integral; sin(0 x) = 0
        return INTEGRANDS[family][2](p, a, b, c) if weight == 'cos' else [0.0] * len(p)
    if family == 'poly':
        return [_part(_xk_eiw(k, w, b) - _xk_eiw(k, w, a), weight) for k in range(len(p))]
    if family == 'exp':
        cc = 1j * w - p[1]

        def e0(x):
            return cmath.exp(cc * x) / cc

        def e1(x):
            return x * cmath.exp(cc * x) / cc - cmath.exp(cc * x) / cc ** 2
        g = [_part(e0(b) - e0(a), weight), _part(-p[0] * (e1(b) - e1(a)), weight)]
        if len(p) > 2:
            g.append(_part(_xk_eiw(0, w, b) - _xk_eiw(0, w, a), weight))
        return g
    raise ValueError(family)


def weighted_integral(family, p, a, b, c, weight, w):
    if family == 'poly':
        return sum(p[k] * v for k, v in enumerate(weighted_dparam(family, p, a, b, c, weight, w)))
    if family == 'exp':
        g = weighted_dparam(family, p, a, b, c, weight, w)
        return p[0] * g[0] + (p[2] * g[2] if len(p) > 2 else 0.0)
    raise ValueError(family)


def weighted_gradient(family, p, a, b, c, p_is_obs, a_is_obs, b_is_obs, weight, w):
    """(observable parameters..., lower limit, upper limit): the limit terms carry the weight function."""
    f = INTEGRANDS[family][0]
    g = [v for v, is_o in zip(weighted_dparam(family, p, a, b, c, weight, w), p_is_obs) if is_o]
    if a_is_obs:
        g.append(-f(p, a, c) * weight_value(weight, w, a))
    if b_is_obs:
        g.append(f(p, b, c) * weight_value(weight, w, b))
    return g


# ------------------------------------------------------------------------------------------
def self_check():
    """The typed formulas against mpmath (numerical root finding / quadrature / differentiation)."""
    import mpmath
    mpmath.mp.dps = 30
    pts = {
        'power': ([2.3], {'n': 3}), 'exp': ([1.7], {'a': -0.8}), 'log': ([0.6], {'a': 1.4}), 'tanh': ([0.45], {'a': 0.7}),
        'cubic': ([-1.9], {'b': 0.8}), 'vec_ratio_exp': ([1.3, 2.9], {}), 'vec_quadratic': ([0.7, 2.2], {}),
        'vec_linear': ([-1.6, 0.4, 2.5], {}), 'vec_cubic': ([1.1, -2.7], {}),
        'vec_many': ([1.3] + [0.2 * k - 1.1 for k in range(1, MANY_N)], {}),
    }
    for name, (d, c) in pts.items():
        n, res, inv, sens = ROOTS[name]
        assert n == len(d)
        x = inv(d, c)
        scale = 1.0 + abs(x)
        if abs(res(x, d, c)) > 1e-12 * scale * 10:
            raise AssertionError('inverse of root family %s is wrong' % name)
        s = sens(d, c, x)
        for k in range(n):
            h = 1e-5
            num = (inv([v + (h if i == k else 0) for i, v in enumerate(d)], c) - inv([v - (h if i == k else 0) for i, v in enumerate(d)], c)) / (2 * h)
            if abs(num - s[k]) > 1e-7 * (1 + abs(s[k])):
                raise AssertionError('sensitivity %d of root family %s is wrong: %r vs %r' % (k, name, s[k], num))
    ipts = {
        'poly': ([0.7, -1.3, 0.4], 0.3, 1.9, {}), 'exp': ([1.2, 0.8, -0.3], 0.2, 2.4, {}), 'trig': ([0.9, 1.7, -0.6], -0.4, 2.1, {'w': 1.3}),
    }
    for name, (p, a, b, c) in ipts.items():
        f, integral, dp = INTEGRANDS[name]
        num = float(mpmath.quad(lambda x: f(p, float(x), c), [a, b]))
        if abs(num - integral(p, a, b, c)) > 1e-10:
            raise AssertionError('antiderivative of %s is wrong' % name)
        g = dp(p, a, b, c)
        for k in range(len(p)):
            h = 1e-5
            pp = list(p)
            pm = list(p)
            pp[k] += h
            pm[k] -= h
            fd = (integral(pp, a, b, c) - integral(pm, a, b, c)) / (2 * h)
            if abs(fd - g[k]) > 1e-7 * (1 + abs(g[k])):
                raise AssertionError('parameter derivative %d of %s is wrong' % (k, name))
    # weighted integrals against high-accuracy numerical quadrature
    for name, p in (('poly', [0.7, -1.3, 0.4, 0.9]), ('exp', [1.2, 0.8, -0.3]), ('exp', [-0.9, 1.4])):
        f = INTEGRANDS[name][0]
        for weight in ('cos', 'sin'):
            a, b, w = -0.4, 2.1, 1.7
            num = float(mpmath.quad(lambda x: f(p, float(x), {}) * weight_value(weight, w, float(x)), [a, b]))
            if abs(num - weighted_integral(name, p, a, b, {}, weight, w)) > 1e-10:
                raise AssertionError('weighted antiderivative of %s (%s) is wrong' % (name, weight))
            g = weighted_dparam(name, p, a, b, {}, weight, w)
            for k in range(len(p)):
                h = 1e-5
                pp, pm = list(p), list(p)
                pp[k] += h
                pm[k] -= h
                fd = (weighted_integral(name, pp, a, b, {}, weight, w) - weighted_integral(name, pm, a, b, {}, weight, w)) / (2 * h)
                if abs(fd - g[k]) > 1e-7 * (1 + abs(g[k])):
                    raise AssertionError('weighted parameter derivative %d of %s (%s) is wrong' % (k, name, weight))
                numd = float(mpmath.quad(lambda x: (f(pp, float(x), {}) - f(pm, float(x), {})) / (2 * h) * weight_value(weight, w, float(x)), [a, b]))
                if abs(numd - g[k]) > 1e-6 * (1 + abs(g[k])):
                    raise AssertionError('weighted parameter derivative %d of %s (%s) disagrees with quadrature' % (k, name, weight))
    # exponential on a half line
    f, integral, dp = INTEGRANDS['exp']
    num = float(mpmath.quad(lambda x: f([1.2, 0.8], float(x), {}), [0.2, mpmath.inf]))
    if abs(num - integral([1.2, 0.8], 0.2, math.inf, {})) > 1e-10:
        raise AssertionError('half-line integral wrong')
    return True
