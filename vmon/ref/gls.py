"""Closed-form generalised least squares (reference model of property C07).

Works on plain arrays and on snapshots (dictionaries produced by vmon.snap.snap) only.
MUST NOT import pyerrors.

    chi2(p) = (y - c - A p)^T W (y - c - A p) + sum_j ((p[m_j] - prior_j) / dprior_j)^2
    p*      = (A^T W A + P)^-1 (A^T W (y - c) + P prior)          P = sum_j e_mj e_mj^T / dprior_j^2
    dp*/dy  = (A^T W A + P)^-1 A^T W                               dp*/dprior_j = (A^T W A + P)^-1 e_mj / dprior_j^2

W = diag(1/dy^2) (uncorrelated), or L^T L with L an inverse Cholesky factor (user supplied), or
D^-1 C^-1 D^-1 with C the estimated correlation matrix of the data and D = diag(dy).
"""
import math

import numpy as np
from scipy import special


# ------------------------------------------------------------------------------------------
# weights
def weights_diag(dy):
    dy = np.asarray(dy, dtype=float)
    return np.diag(1.0 / dy ** 2)


def weights_from_factor(L):
    """L: matrix with |L r|^2 the data part of chi-square (the 'inverse Cholesky factor')."""
    L = np.asarray(L, dtype=float)
    return L.T @ L


def weights_from_corr(corr, dy):
    """Inverse covariance D^-1 C^-1 D^-1 by a symmetric solve (no Cholesky factor involved)."""
    corr = np.asarray(corr, dtype=float)
    dinv = np.diag(1.0 / np.asarray(dy, dtype=float))
    ci = np.linalg.solve(corr, np.eye(len(corr)))
    ci = 0.5 * (ci + ci.T)
    return dinv @ ci @ dinv


# ------------------------------------------------------------------------------------------
# correlation estimate of a list of observables given as snapshots (documented estimator:
# per ensemble sum_r sum_{cfg in common} d_i d_j / sum_r sqrt(sum_common d_i^2 sum_common d_j^2), plus
# g_i^T Sigma g_j for shared covariance inputs, normalised to unit diagonal)
def _ens(name):
    return name.split('|')[0]


def cov_element(a, b):
    tot = 0.0
    ens = sorted(set(_ens(n) for n in a['chains']) & set(_ens(n) for n in b['chains']))
    for e in ens:
        num = 0.0
        den = 0.0
        for n in a['chains']:
            if _ens(n) != e or n not in b['chains']:
                continue
            da = dict(zip([int(c) for c in a['chains'][n][0]], a['chains'][n][1]))
            db = dict(zip([int(c) for c in b['chains'][n][0]], b['chains'][n][1]))
            common = sorted(set(da) & set(db))
            if not common:
                continue
            va = np.array([da[c] for c in common])
            vb = np.array([db[c] for c in common])
            num += float(np.sum(va * vb))
            den += math.sqrt(float(np.sum(va * va)) * float(np.sum(vb * vb)))
        if num != 0.0:
            tot += num / den
    for n in a['cov']:
        if n in b['cov']:
            cov, ga = a['cov'][n]
            gb = b['cov'][n][1]
            tot += float(np.asarray(ga) @ np.asarray(cov) @ np.asarray(gb))
    return tot


def corr_from_snapshots(snaps):
    n = len(snaps)
    c = np.zeros((n, n))
    for i in range(n):
        for j in range(i, n):
            c[i, j] = c[j, i] = cov_element(snaps[i], snaps[j])
    d = 1.0 / np.sqrt(np.diag(c))
    return c * d[:, None] * d[None, :]


def n_samples(sn):
    return sum(len(v[0]) for v in sn['chains'].values())


# ------------------------------------------------------------------------------------------
# prior strings 'value(err)' (documented forms 0.548(23), 500(40), 0.5(0.4))
def parse_prior(s):
    s = s.strip()
    head, _, rest = s.partition('(')
    if not rest.endswith(')'):
        raise ValueError('not a value(err) string: %r' % s)
    err_txt = rest[:-1]
    val = float(head)
    err = float(err_txt)
    if '.' in head and '.' not in err_txt:
        digits = len(head.split('.')[1])
        err = float(err_txt) / 10 ** digits
    return val, err


class Singular(Exception):
    """The problem does not determine the parameters (outside the quantifier of the property)."""


# ------------------------------------------------------------------------------------------
def solve(A, y, W, prior_idx=(), prior_val=(), prior_err=(), offset=None):
    """Closed-form estimator. Returns dict(p, Sy, Sp, M, Minv, cond, chi2, dof, resid)."""
    A = np.asarray(A, dtype=float)
    y = np.asarray(y, dtype=float)
    n, k = A.shape
    c = np.zeros(n) if offset is None else np.asarray(offset, dtype=float)
    prior_idx = [int(i) for i in prior_idx]
    prior_val = np.asarray(prior_val, dtype=float)
    prior_err = np.asarray(prior_err, dtype=float)
    M = A.T @ W @ A
    rhs = A.T @ W @ (y - c)
    for j, m in enumerate(prior_idx):
        w = 1.0 / prior_err[j] ** 2
        M[m, m] += w
        rhs[m] += w * prior_val[j]
    M = 0.5 * (M + M.T)
    # Jacobi scaling before inversion (parameters of very different magnitude)
    if not np.all(np.isfinite(M)) or np.any(np.diag(M) <= 0):
        raise Singular('normal matrix has a non-positive diagonal entry')
    s = 1.0 / np.sqrt(np.diag(M))
    Ms = M * s[:, None] * s[None, :]
    try:
        ev = np.linalg.eigvalsh(Ms)
    except np.linalg.LinAlgError:
        raise Singular('eigenvalues of the normal matrix not available') from None
    if not ev[0] > 1e-13 * ev[-1]:
        raise Singular('normal matrix is singular to working precision')
    Minv = np.linalg.inv(Ms) * s[:, None] * s[None, :]
    p = Minv @ rhs
    Sy = Minv @ A.T @ W
    Sp = np.zeros((k, len(prior_idx)))
    for j, m in enumerate(prior_idx):
        Sp[:, j] = Minv[:, m] / prior_err[j] ** 2
    out = dict(p=p, Sy=Sy, Sp=Sp, M=M, Minv=Minv, cond=float(np.linalg.cond(M)), cond_scaled=float(np.linalg.cond(Ms)),
               dof=n - k + len(prior_idx), perr=np.sqrt(np.diag(Minv)))
    out['chi2'] = chi2_at(p, A, y, W, prior_idx, prior_val, prior_err, offset)
    return out


def chi2_at(p, A, y, W, prior_idx=(), prior_val=(), prior_err=(), offset=None):
    A = np.asarray(A, dtype=float)
    p = np.asarray(p, dtype=float)
    c = 0.0 if offset is None else np.asarray(offset, dtype=float)
    r = np.asarray(y, dtype=float) - c - A @ p
    chi = float(r @ W @ r)
    for j, m in enumerate(prior_idx):
        chi += ((p[int(m)] - prior_val[j]) / prior_err[j]) ** 2
    return chi


# ------------------------------------------------------------------------------------------
# goodness-of-fit numbers
def chi2_sf(chi2, dof):
    """p-value = 1 - CDF of the chi-square distribution = Q(dof/2, chi2/2) (regularised upper gamma)."""
    if dof <= 0:
        return float('nan')
    return float(special.gammaincc(0.5 * dof, 0.5 * chi2))


def f_sf(x, d1, d2):
    """1 - CDF of the F distribution = I_{d2/(d2+d1 x)}(d2/2, d1/2)."""
    if d1 <= 0 or d2 <= 0:
        return float('nan')
    if x <= 0:
        return 1.0
    # the incomplete beta function is evaluated at the argument that is not rounded towards 1 (for tiny x the complement form would
    # lose sqrt(eps) for d1 = 1)
    if d1 * x < d2:
        return float(1.0 - special.betainc(0.5 * d1, 0.5 * d2, d1 * x / (d1 * x + d2)))
    return float(special.betainc(0.5 * d2, 0.5 * d1, d2 / (d2 + d1 * x)))


def hotelling_p(chi2, dof, n_cov):
    """Hotelling t^2 p-value of a correlated fit whose covariance was estimated from n_cov samples."""
    if dof <= 0 or n_cov - dof <= 0:
        return float('nan')
    x = (n_cov - dof) / (dof * (n_cov - 1.0)) * chi2
    return f_sf(x, dof, n_cov - dof)


def expected_chisquare(A, dy, cov):
    """<chi2> of an uncorrelated fit when the data have covariance cov: tr[(1 - P) D^-1 cov D^-1],
    P the orthogonal projector on the column space of D^-1 A."""
    A = np.asarray(A, dtype=float)
    dinv = np.diag(1.0 / np.asarray(dy, dtype=float))
    B = dinv @ A
    q, _ = np.linalg.qr(B)
    P = q @ q.T
    n = len(B)
    return float(np.trace((np.eye(n) - P) @ dinv @ np.asarray(cov, dtype=float) @ dinv))
