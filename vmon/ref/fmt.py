"""Decimal-arithmetic oracle for value(error) strings (property C19).  MUST NOT import pyerrors.

Grammar      [sign]digits[.digits](digits[.digits])       sign in {'+', ' ', '-', ''}
Meaning      value = the signed decimal before the parenthesis; last printed unit q = 10^-(decimals of the value);
             error = the decimal in the parenthesis if it carries a point (then it must have the same number of
             decimals), else (integer in the parenthesis) * q.
Judgement    |printed value - value| <= q/2 EXACTLY (the value is printed by the correctly rounded float formatting of the
             exact binary number: no slack); |printed error - error| <= q/2 with a slack of 2 ulp of the error (the error
             is scaled by a power of ten in floating point before it is rounded: one rounding of the product, one of the
             power of ten beyond 1e22);
             the error shows `significance` digits: 10^(s-1) <= error/q <= 10^s (the upper end only by rounding
             carry, i.e. only when the exact error is below 10^s units), unless no decimals are printed (q = 1, integer floor), where only the lower bound applies.
All arithmetic on decimal.Decimal built from the exact binary value of the floats (Decimal(float) is exact).
"""
import re
import math
from decimal import Decimal, localcontext

PAT = re.compile(r'^(?P<lead>[+ -]?)(?P<int>\d+)(?:\.(?P<frac>\d+))?\((?P<eint>\d+)(?:\.(?P<efrac>\d+))?\)$')
CPAT = re.compile(r'^\((?P<re>[+ -]?\d+(?:\.\d+)?\(\d+(?:\.\d+)?\))(?P<im>[+-]\d+(?:\.\d+)?\(\d+(?:\.\d+)?\))j\)$')
PREC = 200


class Parsed:
    __slots__ = ('lead', 'value', 'error', 'nd', 'q', 'units', 'error_has_point', 'text')


def parse(s):
    """-> Parsed, or a string naming why the text is not a value(error) string"""
    if not isinstance(s, str):
        return 'not-a-string'
    m = PAT.match(s)
    if not m:
        return 'not-of-the-form-value(error)'
    p = Parsed()
    p.text = s
    p.lead = m.group('lead')
    frac = m.group('frac')
    p.nd = len(frac) if frac else 0
    with localcontext() as c:
        c.prec = PREC
        p.q = Decimal(1).scaleb(-p.nd)
        mag = Decimal(m.group('int') + ('.' + frac if frac else ''))
        p.value = -mag if p.lead == '-' else mag
        efrac = m.group('efrac')
        p.error_has_point = efrac is not None
        if efrac is not None:
            if len(efrac) != p.nd:
                return 'error-decimals-differ-from-value-decimals'
            p.error = Decimal(m.group('eint') + '.' + efrac)
        else:
            p.error = Decimal(m.group('eint')) * p.q
        p.units = p.error / p.q
    return p


def judge(s, value, dvalue, significance, slack_ulp=2, value_ulp=None, dvalue_ulp=None, value_slack_ulp=0):
    """List of (tag, detail) describing every way in which the string s fails to denote (value, dvalue) rounded
    to `significance` digits of the error.  Empty list = the string is right.
    value_ulp / dvalue_ulp: spacing of the floating-point type the number was held in (default: double precision);
    a float32 number scaled and rounded in float32 arithmetic can be off by that many of *its* ulps."""
    p = parse(s)
    if isinstance(p, str):
        return [(p, {'string': s})]
    out = []
    value = float(value)
    dvalue = float(dvalue)
    with localcontext() as c:
        c.prec = PREC
        half = p.q / 2
        dv = Decimal(dvalue)
        v = Decimal(value)
        de = abs(p.error - dv)
        if de > half + slack_ulp * Decimal(math.ulp(dvalue) if dvalue_ulp is None else float(dvalue_ulp)):
            out.append(('error-not-within-half-a-unit-of-the-last-digit', {'string': s, 'printed_error': str(p.error), 'error': repr(dvalue), 'unit': str(p.q),
                                                                           'deviation_in_units': float(de / p.q)}))
        dvv = abs(p.value - v)
        if dvv > half + value_slack_ulp * Decimal(math.ulp(value) if value_ulp is None else float(value_ulp)):
            out.append(('value-not-within-half-a-unit-of-the-last-digit', {'string': s, 'printed_value': str(p.value), 'value': repr(value), 'unit': str(p.q),
                                                                           'deviation_in_units': float(dvv / p.q)}))
        lo = Decimal(10) ** (significance - 1)
        hi = Decimal(10) ** significance
        if p.nd > 0:
            if not (lo <= p.units <= hi):
                out.append(('error-digits-differ-from-significance', {'string': s, 'error_in_units': str(p.units), 'significance': significance}))
            elif p.units == hi and not dv < hi * p.q:
                # 10^s units are only legitimate as a rounding carry of an error below 10^s units; an error that IS 10^s units
                # (exactly a power of ten) printed like this shows one digit too many
                out.append(('error-digits-differ-from-significance', {'string': s, 'error_in_units': str(p.units), 'significance': significance,
                                                                      'note': 'error is not below 10^significance units: no rounding carry'}))
        elif p.units < lo:
            out.append(('error-digits-differ-from-significance', {'string': s, 'error_in_units': str(p.units), 'significance': significance, 'note': 'integer floor'}))
        neg = value < 0
        if neg and p.lead != '-':
            out.append(('negative-value-printed-without-minus', {'string': s, 'value': repr(value)}))
        if value > 0 and p.lead == '-':
            out.append(('positive-value-printed-with-minus', {'string': s, 'value': repr(value)}))
    return out


def denoted(s):
    """(value, error) as correctly rounded floats of the decimals the string denotes, or None"""
    p = parse(s)
    if isinstance(p, str):
        return None
    with localcontext() as c:
        c.prec = PREC
        return float(p.value), float(p.error)


def with_flag(plain, flag):
    """what the sign / padding flag must do to the plain string: prepend the flag character unless the text starts with '-'"""
    if flag == '' or plain.startswith('-'):
        return plain
    return flag + plain


def split_complex(s):
    """'(re(err)+im(err)j)' -> (re text, im text) or None"""
    m = CPAT.match(s) if isinstance(s, str) else None
    if not m:
        return None
    return m.group('re'), m.group('im')


def within_ulps(got, exp, n):
    got = float(got)
    exp = float(exp)
    if got == exp:
        return True
    if not (math.isfinite(got) and math.isfinite(exp)):
        return False
    return abs(got - exp) <= n * math.ulp(exp)


def plain_value_ok(s, value, flag=''):
    """an observable without error prints as its plain value: the text (after an optional flag character) reads back as
    exactly that float and contains no parenthesis"""
    if not isinstance(s, str) or '(' in s or ')' in s:
        return False
    t = s
    if flag and t.startswith(flag) and not t.startswith('-'):
        t = t[len(flag):]
    try:
        back = float(t)
    except ValueError:
        return False
    value = float(value)
    return back == value or (math.isnan(back) and math.isnan(value))
