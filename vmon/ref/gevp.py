"""Reference model for C16: correlator matrices with an exactly known spectral decomposition.

Independent of the library (numpy / scipy dense linear algebra on plain floats only; this file must
not import pyerrors).

Model.  G_ij(t) = sum_n Z_in Z_jn F_n(t),   F_n(t) = exp(-E_n t) + b_n exp(-e_n (T - t)),  b_n >= 0.
With b = 0 this is the matrix of N exact exponentials of the property statement; with some b_n > 0
the matrix is still symmetric and positive definite and its generalised eigenvectors are still the
time-independent dual vectors of the columns of Z, but the *order* of the eigenvalues changes with
t (used to make eigenvector sorting a non-trivial operation).

Exact solution of G(t) v = lambda G(t0) v:
    lambda_n(t) = F_n(t) / F_n(t0),        v_n = +- w_n / sqrt(F_n(t0)),   W = (Z^T)^-1 = [w_0 .. w_N-1]
    v_m^T G(t) v_n = delta_mn lambda_n(t), in particular v_n^T G(t0) v_n = 1.
All functions also return the first-order response to fluctuations (dE_n, dZ_in) given per
configuration, which is what linear error propagation must reproduce exactly.
"""
import numpy as np
import scipy.linalg

EPS = 2.220446049250313e-16


# ------------------------------------------------------------------------------------------
# the model
def F_of(E, T, b=None, e=None):
    """F[t, n] for t = 0..T-1."""
    E = np.asarray(E, dtype=float)
    t = np.arange(T, dtype=float)
    F = np.exp(-np.outer(t, E))
    if b is not None:
        b = np.asarray(b, dtype=float)
        e = np.asarray(e, dtype=float)
        F = F + b[None, :] * np.exp(-np.outer(T - t, e))
    return F


def dF_dE(E, T):
    """d F[t, n] / d E_n (the backward part does not depend on E)."""
    E = np.asarray(E, dtype=float)
    t = np.arange(T, dtype=float)
    return -t[:, None] * np.exp(-np.outer(t, E))


def matrices(E, Z, T, b=None, e=None, jac=True):
    """G[t, i, j] and its Jacobian J[t, i, j, k] w.r.t. the parameter vector (E_0..E_N-1, Z_00, Z_01, .. row-major);
    jac=False: G only."""
    E = np.asarray(E, dtype=float)
    Z = np.asarray(Z, dtype=float)
    N = len(E)
    F = F_of(E, T, b, e)
    G = np.einsum('in,jn,tn->tij', Z, Z, F)
    if not jac:
        return G
    dF = dF_dE(E, T)
    J = np.zeros((T, N, N, N + N * N))
    for n in range(N):
        J[:, :, :, n] = np.einsum('i,j,t->tij', Z[:, n], Z[:, n], dF[:, n])
    for i in range(N):
        for n in range(N):
            k = N + i * N + n
            J[:, i, :, k] += np.einsum('b,t->tb', Z[:, n], F[:, n])
            J[:, :, i, k] += np.einsum('a,t->ta', Z[:, n], F[:, n])
    return G, J


def single_correlator(E, A, T):
    """c(t) = sum_n A_n exp(-E_n t) and Jacobian w.r.t. (E_0.., A_0..)."""
    E = np.asarray(E, dtype=float)
    A = np.asarray(A, dtype=float)
    t = np.arange(T, dtype=float)
    X = np.exp(-np.outer(t, E))
    c = X @ A
    J = np.concatenate([-t[:, None] * X * A[None, :], X], axis=1)
    return c, J


def lambdas(F, t0):
    """lambda[t, n] = F[t, n] / F[t0, n]."""
    return F / F[t0][None, :]


def order_at(F, t0, t):
    """state labels sorted by decreasing eigenvalue at time t (label = column of Z)."""
    lam = F[t] / F[t0]
    return [int(i) for i in np.argsort(-lam, kind='stable')]


def dual_vectors(Z, F0):
    """V[:, n] = w_n / sqrt(F0_n): the G(t0)-normalised generalised eigenvectors (sign +)."""
    W = np.linalg.inv(np.asarray(Z, dtype=float).T)
    return W / np.sqrt(F0)[None, :]


def dual_vector_response(Z, F0, dF0, dE, dZ):
    """first-order response of V = dual_vectors(Z, F0) to fluctuations.
    dE: (N, ncfg), dZ: (N, N, ncfg);  dF0[n] = dF[t0, n]/dE_n.  returns dV (N, N, ncfg)."""
    Z = np.asarray(Z, dtype=float)
    W = np.linalg.inv(Z.T)
    # dW = -W (dZ^T) W
    dW = -np.einsum('ab,cbk,cd->adk', W, dZ, W)
    s = 1.0 / np.sqrt(F0)
    dV = dW * s[None, :, None] - 0.5 * W[:, :, None] * (F0 ** -1.5 * dF0)[None, :, None] * dE[None, :, :]
    return dV


def lambda_response(F, dF, t0, dE):
    """first-order response of lambda[t, n] to dE (N, ncfg) -> (T, N, ncfg)."""
    lam = F / F[t0][None, :]
    g_t = dF / F[t0][None, :]
    g_0 = -lam * (dF[t0] / F[t0])[None, :]
    return (g_t + g_0)[:, :, None] * dE[None, :, :]


# ------------------------------------------------------------------------------------------
# conditioning: what floating point arithmetic can deliver (calibrated, see C16.ASSUMPTIONS)
def cond_sym(G0):
    w = np.linalg.eigvalsh(0.5 * (G0 + G0.T))
    if w[0] <= 0:
        return np.inf
    return float(w[-1] / w[0])


def cond_equilibrated(G0):
    """condition number of D^-1 G0 D^-1, D = sqrt(diag G0).  The Cholesky-based algorithms (and their derivatives) are
    covariant under a rescaling of the operators, G -> D G D, v -> D^-1 v, so what governs their rounding errors is the
    conditioning of the equilibrated matrix (van der Sluis / Demmel), not that of G0 itself."""
    S = 0.5 * (G0 + G0.T)
    d = np.diag(S)
    if np.any(d <= 0):
        return np.inf
    s = 1.0 / np.sqrt(d)
    return cond_sym(S * s[:, None] * s[None, :])


def cond_for_bounds(G0):
    """the condition number entering the calibrated error bounds below: equilibrated condition number plus an additive
    floor (for an almost perfectly conditioned pencil the errors are a few eps, not eps * 1.0)."""
    return cond_equilibrated(G0) + 10.0


def err_eigenvalue(kappa, lam_t, n):
    """relative rounding error to be expected for lambda_n(t) obtained from a Cholesky-reduced pencil."""
    return EPS * kappa * float(np.max(lam_t)) / float(lam_t[n])


def err_vector(kappa, lam_t, n):
    """admixture of other states to be expected in the computed vector n."""
    gap = float(np.min(np.abs(np.delete(lam_t, n) - lam_t[n])))
    if gap == 0:
        return np.inf
    return EPS * kappa * float(np.max(lam_t)) / gap


def err_vector_response(kappa, lam_t, n):
    """relative error to be expected in the *derivative* of vector n (fluctuations of a vector computed with
    vector_obs=True): second order in lambda_max / gap, because the derivative of an eigenvector is a sum of terms
    ~ 1/gap that cancel for a time-independent vector."""
    gap = float(np.min(np.abs(np.delete(lam_t, n) - lam_t[n])))
    if gap == 0:
        return np.inf
    return EPS * kappa * (float(np.max(lam_t)) / gap) ** 2


# ------------------------------------------------------------------------------------------
# generic dense cross-checks on central values
def rayleigh(v, Gt, G0):
    v = np.asarray(v, dtype=float)
    return float(v @ Gt @ v) / float(v @ G0 @ v)


def residual(v, lam, Gt, G0):
    """norm of G(t) v - lam G(t0) v in the metric that is invariant under a rescaling of the operators:
    with d_i = sqrt(G0_ii), || r_i / d_i ||_2 relative to (||D^-1 G(t) D^-1||_2 + |lam| ||D^-1 G0 D^-1||_2) ||D v||_2."""
    v = np.asarray(v, dtype=float)
    d = np.sqrt(np.abs(np.diag(G0)))
    if np.any(d == 0):
        return np.inf
    r = (Gt @ v - lam * (G0 @ v)) / d
    s = 1.0 / d
    den = (np.linalg.norm(Gt * s[:, None] * s[None, :], 2) + abs(lam) * np.linalg.norm(G0 * s[:, None] * s[None, :], 2)) * np.linalg.norm(v * d)
    return float(np.linalg.norm(r) / den) if den > 0 else np.inf


def pencil_eigenvalues(Gt, G0):
    """eigenvalues of the symmetric-definite pencil, descending, by two routes that differ from the
    library's call: scipy's symmetric solver on the explicitly symmetrised matrices with the *upper*
    triangles, and the unsymmetric solver applied to G0^-1 G(t)."""
    Gt = 0.5 * (Gt + Gt.T)
    G0 = 0.5 * (G0 + G0.T)
    a = scipy.linalg.eigh(Gt, G0, lower=False, eigvals_only=True)[::-1]
    b = np.sort(np.real(np.linalg.eigvals(np.linalg.solve(G0, Gt))))[::-1]
    return a, b


def align_sign(v, ref):
    """+1 / -1 such that sign * v is closest to ref."""
    return 1.0 if float(np.dot(v, ref)) >= 0 else -1.0


# ------------------------------------------------------------------------------------------
# matrix pencil on central values (Hua & Sarkar), for conditioning and a value cross-check
def pencil_energies(c, k, p=None):
    """energies from the k largest singular directions of the Hankel pencil of the sequence c, and the
    ratio s_k / s_1 of the singular values of the shifted Hankel matrix (conditioning)."""
    c = np.asarray(c, dtype=float)
    n = len(c)
    if p is None:
        p = max(n // 2, k)
    L = n - p
    H = np.array([[c[i + j] for j in range(p + 1)] for i in range(L)])
    Y1 = H[:, :p]
    Y2 = H[:, 1:]
    u, s, vh = np.linalg.svd(Y2, full_matrices=False)
    z = np.diag(1.0 / s[:k]) @ u[:, :k].T @ Y1 @ vh.T[:, :k]
    ev = np.linalg.eigvals(z)
    en = np.sort(np.log(np.abs(ev)))
    return en, float(s[k - 1] / s[0]), s


def pencil_energies_set(cs, k, p=None):
    """the same for several sequences analysed at once (Hankel blocks stacked on top of each other)."""
    cs = [np.asarray(c, dtype=float) for c in cs]
    n = len(cs[0])
    if p is None:
        p = max(n // 2, k)
    L = n - p
    H = np.concatenate([np.array([[c[i + j] for j in range(p + 1)] for i in range(L)]) for c in cs], axis=0)
    Y1 = H[:, :p]
    Y2 = H[:, 1:]
    u, s, vh = np.linalg.svd(Y2, full_matrices=False)
    z = np.diag(1.0 / s[:k]) @ u[:, :k].T @ Y1 @ vh.T[:, :k]
    en = np.sort(np.log(np.abs(np.linalg.eigvals(z))))
    return en, float(s[k - 1] / s[0]), s
