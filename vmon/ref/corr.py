"""Reference model of a correlator (properties C14, C15).  MUST NOT import pyerrors.

A correlator is a plain python list of length T.  An entry is None (undefined timeslice) or an
N x N matrix written as a list of N rows of N scalars (N = 1: [[x]]).  The single-valued helpers
of the second half (derivatives, effective masses, plateaus) work on a flat list of optional
scalars instead.

Nothing in here knows what a scalar is: entries are combined with the python operators
(+ - * / **) and with callables handed in by the caller (log, arccosh, value accessor, NaN
test), i.e. by duck typing.  The harness hands in the library's scalar observables, whose
overloads are judged separately by C01; the same code runs on floats (self test at the bottom).

Every function is written from the docstrings / the statement of the property with explicit
indices: out[t] = formula(in[...]).  An output timeslice is undefined (None) exactly when a
referenced input timeslice is undefined, when the index leaves the lattice (non periodic maps),
or when the scalar result is not a number.
"""
import math


# ------------------------------------------------------------------------------------------
# matrices of scalars
def dims(A):
    """(T, N) of a correlator model; N is None when no timeslice is defined."""
    for m in A:
        if m is not None:
            return len(A), len(m)
    return len(A), None


def pattern(A):
    return ''.join('.' if m is None else 'x' for m in A)


def _mat(n, f):
    return [[f(i, j) for j in range(n)] for i in range(n)]


def _elementwise(op, m1, m2):
    """entry-by-entry; a 1x1 matrix is broadcast against an N x N one (in either position)."""
    n1, n2 = len(m1), len(m2)
    if n1 == n2:
        return _mat(n1, lambda i, j: op(m1[i][j], m2[i][j]))
    if n1 == 1:
        return _mat(n2, lambda i, j: op(m1[0][0], m2[i][j]))
    if n2 == 1:
        return _mat(n1, lambda i, j: op(m1[i][j], m2[0][0]))
    raise ValueError('matrix dimensions %d and %d cannot be combined' % (n1, n2))


def drop_nan(A, isnan):
    """a timeslice whose result contains a not-a-number scalar is undefined"""
    out = []
    for m in A:
        if m is not None and any(isnan(x) for row in m for x in row):
            out.append(None)
        else:
            out.append(m)
    return out


def unary(f, A, isnan=None):
    out = [None if m is None else _mat(len(m), lambda i, j, m=m: f(m[i][j])) for m in A]
    return drop_nan(out, isnan) if isnan else out


def binary(op, A, B, isnan=None):
    """correlator (op) correlator: out[t] = A[t] op B[t], undefined where A[t] or B[t] is."""
    if len(A) != len(B):
        raise ValueError('temporal extents differ')
    out = [None if (a is None or b is None) else _elementwise(op, a, b) for a, b in zip(A, B)]
    return drop_nan(out, isnan) if isnan else out


def binary_scalar(op, A, s, scalar_left=False, isnan=None):
    """correlator (op) scalar  /  scalar (op) correlator: the same scalar on every timeslice."""
    if scalar_left:
        out = [None if m is None else _mat(len(m), lambda i, j, m=m: op(s, m[i][j])) for m in A]
    else:
        out = [None if m is None else _mat(len(m), lambda i, j, m=m: op(m[i][j], s)) for m in A]
    return drop_nan(out, isnan) if isnan else out


def binary_per_slice(op, A, numbers, numbers_left=False, isnan=None):
    """correlator (op) sequence of T numbers, one per timeslice."""
    if len(A) != len(numbers):
        raise ValueError('temporal extents differ')
    out = []
    for m, s in zip(A, numbers):
        if m is None:
            out.append(None)
        elif numbers_left:
            out.append(_mat(len(m), lambda i, j, m=m, s=s: op(s, m[i][j])))
        else:
            out.append(_mat(len(m), lambda i, j, m=m, s=s: op(m[i][j], s)))
    return drop_nan(out, isnan) if isnan else out


def _sum(terms):
    acc = terms[0]
    for x in terms[1:]:
        acc = acc + x
    return acc


def _matprod(m1, m2):
    n = len(m1)
    if len(m2) != n:
        raise ValueError('matrix dimensions differ')
    return _mat(n, lambda i, j: _sum([m1[i][k] * m2[k][j] for k in range(n)]))


def matmul(A, B):
    """out[t] = A[t] @ B[t] (matrix product of the timeslices)."""
    return [None if (a is None or b is None) else _matprod(a, b) for a, b in zip(A, B)]


def matmul_const(A, M, const_left=False):
    """out[t] = A[t] @ M   or   M @ A[t]   for a constant matrix M (list of rows)."""
    if const_left:
        return [None if a is None else _matprod(M, a) for a in A]
    return [None if a is None else _matprod(a, M) for a in A]


# ------------------------------------------------------------------------------------------
# index maps
def roll(A, dt):
    """periodic shift by dt: the entry of timeslice t moves to t + dt  <=>  out[t] = in[(t - dt) mod T]"""
    T = len(A)
    return [A[(t - dt) % T] for t in range(T)]


def reverse(A):
    """out[t] = in[T - 1 - t]"""
    T = len(A)
    return [A[T - 1 - t] for t in range(T)]


def thin(A, spacing=2, offset=0):
    """keep timeslice t iff (offset + t) is a multiple of spacing, all others become undefined"""
    return [A[t] if (offset + t) % spacing == 0 else None for t in range(len(A))]


def _fold(A, sign):
    T = len(A)
    out = [A[0]]
    for t in range(1, T):
        a, b = A[t], A[T - t]
        if a is None or b is None:
            out.append(None)
        else:
            out.append(_elementwise(lambda x, y: 0.5 * (x + sign * y), a, b))
    return out


def symmetric(A):
    """out[0] = in[0]; out[t] = (in[t] + in[T - t]) / 2 for t = 1..T-1 (even T)"""
    return _fold(A, +1)


def anti_symmetric(A):
    """out[0] = in[0]; out[t] = (in[t] - in[T - t]) / 2 for t = 1..T-1 (even T)"""
    return _fold(A, -1)


def T_symmetry(A, P, parity=+1):
    """out[t] = (A[t] + parity * P[T - 1 - t]) / 2"""
    T = len(A)
    out = []
    for t in range(T):
        a, p = A[t], P[T - 1 - t]
        if a is None or p is None:
            out.append(None)
        else:
            out.append(_elementwise(lambda x, y: (x + parity * y) / 2, a, p))
    return out


def item(A, i, j):
    """out[t] = in[t][i][j] as single-valued correlator"""
    return [None if m is None else [[m[i][j]]] for m in A]


def trace(A):
    """out[t] = sum_i in[t][i][i]"""
    return [None if m is None else [[_sum([m[i][i] for i in range(len(m))])]] for m in A]


def matrix_symmetric(A):
    """out[t][i][j] = (in[t][i][j] + in[t][j][i]) / 2"""
    return [None if m is None else _mat(len(m), lambda i, j, m=m: 0.5 * (m[j][i] + m[i][j])) for m in A]


def is_matrix_symmetric(A, same):
    """True iff in[t][i][j] and in[t][j][i] are the same scalar (predicate 'same') on every defined timeslice."""
    for m in A:
        if m is None:
            continue
        for i in range(len(m)):
            for j in range(i + 1, len(m)):
                if not same(m[i][j], m[j][i]):
                    return False
    return True


def normalized(v):
    nrm = math.sqrt(sum(x * x for x in v))
    return [x / nrm for x in v]


def projected(A, vl, vr, normalize=False):
    """out[t] = sum_ij vl(t)_i in[t][i][j] vr(t)_j.  vl / vr: one vector (list of numbers) for all
    timeslices or a list of T vectors (entries may be None = no vector at that timeslice).
    normalize: every vector is divided by its euclidean norm first."""
    T = len(A)

    def per_t(v):
        if len(v) > 0 and (v[0] is None or isinstance(v[0], (list, tuple))):
            if len(v) != T:
                raise ValueError('need one vector per timeslice')
            return list(v)
        return [v] * T
    L, R = per_t(vl), per_t(vr)
    out = []
    for t in range(T):
        m = A[t]
        if m is None or L[t] is None or R[t] is None:
            out.append(None)
            continue
        l = normalized(L[t]) if normalize else L[t]
        r = normalized(R[t]) if normalize else R[t]
        n = len(m)
        rows = [_sum([m[i][j] * r[j] for j in range(n)]) for i in range(n)]
        out.append([[_sum([l[i] * rows[i] for i in range(n)])]])
    return out


def hankel(A, n, periodic=False):
    """out[t][i][j] = in[t + i + j]  (index taken modulo T when periodic); a timeslice is undefined
    when an index leaves the lattice (non periodic) or a referenced input timeslice is undefined."""
    T = len(A)
    out = []
    for t in range(T):
        idx = [[t + i + j for j in range(n)] for i in range(n)]
        if not periodic and idx[n - 1][n - 1] >= T:
            out.append(None)
            continue
        ref = [[A[k % T] for k in row] for row in idx]
        if any(x is None for row in ref for x in row):
            out.append(None)
        else:
            out.append([[x[0][0] for x in row] for row in ref])
    return out


def assemble(components):
    """matrix correlator from an N x N table of single-valued correlators (flat lists of optional scalars):
    out[t][i][j] = components[i][j][t]; a timeslice is undefined when any component is undefined there."""
    n = len(components)
    T = len(components[0][0])
    out = []
    for t in range(T):
        if any(components[i][j][t] is None for i in range(n) for j in range(n)):
            out.append(None)
        else:
            out.append(_mat(n, lambda i, j, t=t: components[i][j][t]))
    return out


def getitem(A, t):
    m = A[t]
    if m is None:
        return None
    return m[0][0] if len(m) == 1 else m


# ------------------------------------------------------------------------------------------
# single-valued correlators: flat lists of optional scalars
def flat(A):
    return [None if m is None else m[0][0] for m in A]


def unflat(c):
    return [None if x is None else [[x]] for x in c]


def none_patterns(T):
    """every set of undefined timeslices of a correlator of extent T that leaves at least one
    timeslice defined (a completely undefined correlator cannot be constructed): 2^T - 1 masks;
    mask[t] True = defined."""
    for bits in range(1, 2 ** T):
        yield [bool((bits >> t) & 1) for t in range(T)]


def pattern_class(mask):
    """none | boundary (only leading / trailing undefined) | one-interior | several"""
    T = len(mask)
    undef = [t for t in range(T) if not mask[t]]
    if not undef:
        return 'none'
    first = next(t for t in range(T) if mask[t])
    last = max(t for t in range(T) if mask[t])
    interior = [t for t in undef if first < t < last]
    if not interior:
        return 'boundary'
    if len(undef) == 1:
        return 'one-interior'
    return 'several'


def _need(c, idx):
    T = len(c)
    return all(0 <= k < T and c[k] is not None for k in idx)


def deriv(c, variant, fn):
    """first lattice derivative; fn.log(x), fn.val(x) (central value) are handed in.
      symmetric  d[t] = (c[t+1] - c[t-1]) / 2
      forward    d[t] = c[t+1] - c[t]
      backward   d[t] = c[t] - c[t-1]
      improved   d[t] = (c[t-2] - 8 c[t-1] + 8 c[t+1] - c[t+2]) / 12
      log        d[t] = c[t] * (log c[t+1] - log c[t-1]) / 2      (needs c[t-1], c[t+1] > 0)
    """
    T = len(c)
    out = []
    for t in range(T):
        if variant == 'symmetric':
            out.append(0.5 * (c[t + 1] - c[t - 1]) if _need(c, [t - 1, t + 1]) else None)
        elif variant == 'forward':
            out.append(c[t + 1] - c[t] if _need(c, [t, t + 1]) else None)
        elif variant == 'backward':
            out.append(c[t] - c[t - 1] if _need(c, [t - 1, t]) else None)
        elif variant == 'improved':
            if _need(c, [t - 2, t - 1, t + 1, t + 2]):
                out.append((1 / 12) * (c[t - 2] - 8 * c[t - 1] + 8 * c[t + 1] - c[t + 2]))
            else:
                out.append(None)
        elif variant == 'log':
            if _need(c, [t - 1, t, t + 1]) and fn.val(c[t - 1]) > 0 and fn.val(c[t + 1]) > 0:
                out.append(c[t] * (0.5 * (fn.log(c[t + 1]) - fn.log(c[t - 1]))))
            else:
                out.append(None)
        else:
            raise ValueError(variant)
    return out


def second_deriv(c, variant, fn):
    """second lattice derivative
      symmetric      d[t] = c[t+1] - 2 c[t] + c[t-1]
      big_symmetric  d[t] = (c[t+2] - 2 c[t] + c[t-2]) / 4
      improved       d[t] = (-c[t+2] + 16 c[t+1] - 30 c[t] + 16 c[t-1] - c[t-2]) / 12
      log            d[t] = c[t] * ( L[t+1] - 2 L[t] + L[t-1] + ((L[t+1] - L[t-1]) / 2)^2 ),  L = log c  (needs c > 0 on t-1, t, t+1)
    """
    T = len(c)
    out = []
    for t in range(T):
        if variant == 'symmetric':
            out.append(c[t + 1] - 2 * c[t] + c[t - 1] if _need(c, [t - 1, t, t + 1]) else None)
        elif variant == 'big_symmetric':
            out.append((c[t + 2] - 2 * c[t] + c[t - 2]) / 4 if _need(c, [t - 2, t, t + 2]) else None)
        elif variant == 'improved':
            if _need(c, [t - 2, t - 1, t, t + 1, t + 2]):
                out.append((1 / 12) * (-c[t + 2] + 16 * c[t + 1] - 30 * c[t] + 16 * c[t - 1] - c[t - 2]))
            else:
                out.append(None)
        elif variant == 'log':
            if _need(c, [t - 1, t, t + 1]) and all(fn.val(c[k]) > 0 for k in (t - 1, t, t + 1)):
                lm, l0, lp = fn.log(c[t - 1]), fn.log(c[t]), fn.log(c[t + 1])
                out.append(c[t] * ((lp - 2 * l0 + lm) + (0.5 * (lp - lm)) ** 2))
            else:
                out.append(None)
        else:
            raise ValueError(variant)
    return out


def m_eff_direct(c, variant, fn):
    """effective masses with a closed formula
      log      m[t] = log(c[t] / c[t+1])                       t = 0..T-2, needs c[t]/c[t+1] > 0
      logsym   m[t] = log(c[t-1] / c[t+1]) / 2                 t = 1..T-2, needs c[t-1]/c[t+1] > 0
      arccosh  m[t] = arccosh((c[t+1] + c[t-1]) / (2 c[t]))    t = 1..T-2, needs the argument >= 1
    returns (values, reasons); reasons[t] says why a timeslice is undefined."""
    T = len(c)
    out, why = [], []
    for t in range(T):
        if variant == 'log':
            idx, num, den = [t, t + 1], t, t + 1
        elif variant == 'logsym':
            idx, num, den = [t - 1, t + 1], t - 1, t + 1
        elif variant == 'arccosh':
            idx, num, den = [t - 1, t, t + 1], None, t
        else:
            raise ValueError(variant)
        if not _need(c, idx):
            out.append(None)
            why.append('undefined-input')
            continue
        if fn.val(c[den]) == 0:
            out.append(None)
            why.append('zero-denominator')
            continue
        if variant == 'arccosh':
            arg = (c[t + 1] + c[t - 1]) / (2 * c[t])
            if fn.val(arg) < 1:
                out.append(None)
                why.append('no-real-solution')
            else:
                out.append(fn.arccosh(arg))
                why.append(None)
            continue
        ratio = c[num] / c[den]
        if not fn.val(ratio) > 0:
            out.append(None)
            why.append('no-real-solution')
        else:
            out.append(fn.log(ratio) if variant == 'log' else fn.log(ratio) / 2)
            why.append(None)
    return out, why


def root_exists(kind, a, b, r, tol=1e-7):
    """Does  F(m a) / F(m b) = r  (F = cosh or sinh, b = a + 1) have a real solution m?
    True / False / None (within tol of the boundary of the solvable interval: not judged)."""
    if kind == 'cosh':
        if abs(a) == abs(b):
            # the ratio is identically 1
            return None if abs(r - 1) <= tol else False
        lo, hi = (1.0, math.inf) if abs(a) > abs(b) else (0.0, 1.0)
    elif kind == 'sinh':
        if a == 0 or b == 0:
            raise ValueError('mid-lattice timeslices are filled, not solved')
        if a * b < 0:
            # a = -1/2, b = 1/2: the ratio is identically -1
            return None if abs(r + 1) <= tol else False
        bound = a / b
        lo, hi = (bound, math.inf) if abs(a) > abs(b) else (0.0, bound)
    else:
        raise ValueError(kind)
    for edge in (lo, hi):
        if math.isfinite(edge) and abs(r - edge) <= tol * max(1.0, abs(edge)):
            return None
    return lo < r < hi


def m_eff_root_plan(c, variant, fn, tol=1e-7):
    """Plan for the root variants: for t = 0..T-2 the mass solves
          c[t] / c[t+1] = F(m (t - T/2)) / F(m (t + 1 - T/2)),   F = cosh ('cosh', 'periodic') or sinh,
    the result being |m|.  For 'sinh' and even T the two mid-lattice timeslices T/2 - 1 and T/2 (where the
    defining ratio degenerates) are filled with their predecessor (documented in the code comment).
    Returns a list of T entries:
       ('undefined', reason)         expected None
       ('root', ratio, a, b, kind)   expected defined; F(m a)/F(m b) must reproduce ratio
       ('copy', t_src)               expected equal to the output at t_src (None if that is None)
       ('skip', reason)              boundary of the solvable interval: not judged
    """
    T = len(c)
    kind = 'sinh' if variant == 'sinh' else 'cosh'
    plan = []
    for t in range(T):
        if t == T - 1:
            plan.append(('undefined', 'last-timeslice'))
            continue
        if not _need(c, [t, t + 1]):
            plan.append(('undefined', 'undefined-input'))
            continue
        if fn.val(c[t + 1]) == 0:
            plan.append(('undefined', 'zero-denominator'))
            continue
        a, b = t - T / 2, t + 1 - T / 2
        if kind == 'sinh' and (a == 0 or b == 0):
            plan.append(('copy', t - 1))
            continue
        ratio = c[t] / c[t + 1]
        r = fn.val(ratio)
        if r < 0:
            plan.append(('undefined', 'negative-ratio'))
            continue
        ex = root_exists(kind, a, b, r, tol)
        if ex is None:
            plan.append(('skip', 'boundary-of-solvable-interval'))
        elif ex:
            plan.append(('root', ratio, a, b, kind))
        else:
            plan.append(('undefined', 'no-real-solution'))
    return plan


def ratio_at(F, m, a, b):
    """F(m a) / F(m b)"""
    return F(m * a) / F(m * b)


def solve_mass(kind, a, b, r, iters=200):
    """|m| solving F(m a)/F(m b) = r by bisection on plain floats (diagnostic only)."""
    F = math.cosh if kind == 'cosh' else math.sinh

    def g(m):
        try:
            return F(m * a) / F(m * b) - r
        except OverflowError:
            return math.exp(m * (abs(a) - abs(b))) - r
    lo, hi = 1e-12, 1.0
    glo = g(lo)
    while g(hi) * glo > 0 and hi < 1e3:
        hi *= 2
    if g(hi) * glo > 0:
        return None
    for _ in range(iters):
        mid = 0.5 * (lo + hi)
        if g(mid) * glo > 0:
            lo = mid
        else:
            hi = mid
    return 0.5 * (lo + hi)


def plateau_average(c, first, last):
    """plain average over the defined timeslices of the inclusive range first..last"""
    ys = [c[t] for t in range(first, last + 1) if c[t] is not None]
    if not ys:
        return None
    return _sum(ys) / len(ys)


def plateau_constant_fit(c, weights, first, last):
    """constant minimising sum_t w[t] (c[t] - a)^2 over the defined timeslices of the inclusive range:
    a = sum_t w[t] c[t] / sum_t w[t]   (w[t] = 1 / error[t]^2, plain numbers frozen at call time)"""
    ts = [t for t in range(first, last + 1) if c[t] is not None]
    if not ts:
        return None
    wsum = sum(weights[t] for t in ts)
    return _sum([(weights[t] / wsum) * c[t] for t in ts])


# ------------------------------------------------------------------------------------------
def _selftest():
    """the model on plain floats"""
    class Fn:
        log = staticmethod(math.log)
        arccosh = staticmethod(math.acosh)
        val = staticmethod(float)
    c = [math.cosh(0.3 * (t - 4)) for t in range(8)]
    A = unflat(c)
    assert flat(roll(A, 1))[1] == c[0] and flat(roll(A, -1))[0] == c[1]
    assert flat(reverse(A))[0] == c[7]
    assert pattern(thin(A, 3, 1)) == '..x..x..'
    assert abs(flat(symmetric(A))[3] - 0.5 * (c[3] + c[5])) < 1e-15
    h = hankel(A, 3)
    assert pattern(h) == 'xxxx....' and h[1][2][1] == c[4]
    assert pattern(hankel(A, 3, True)) == 'xxxxxxxx' and hankel(A, 3, True)[6][2][1] == c[1]
    me, _ = m_eff_direct(c, 'arccosh', Fn)
    assert abs(me[3] - 0.3) < 1e-12
    plan = m_eff_root_plan(c, 'cosh', Fn)
    assert plan[2][0] == 'root' and abs(solve_mass('cosh', plan[2][2], plan[2][3], c[2] / c[3]) - 0.3) < 1e-9
    d2 = second_deriv(c, 'improved', Fn)
    assert d2[0] is None and abs(d2[4] - 0.09 * c[4]) < 1e-4
    assert sum(1 for _ in none_patterns(5)) == 31
    return True


if __name__ == '__main__':
    print(_selftest())
