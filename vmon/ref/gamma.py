"""Reference implementation of the Gamma method (Wolff 2004, Schaefer et al. tail) - property C02.

Pair-count formulation: Gamma(t) = sum over replicas and over configurations c such that both c and
c + t*gap were measured of delta(c) delta(c + t*gap), divided by the number of such pairs.
No FFT, no zero padding.  MUST NOT import pyerrors.

Adopted conventions (the papers leave them open; taken from the documentation of the library):
  * maximal lag w_max = (longest replica extent in units of the gap) // 2, with the extent of an
    equally spaced replica = length*step/gap and of an irregular one (last-first)/gap + 1
  * tau_int(W) is clamped to > 1/2 before use
  * tail branch stops at the first n with rho(n) - N_sigma*drho(n) < 0 or at n = w_max//2 - 2
"""
import math

import numpy as np

TINY = 10 * np.finfo(float).tiny


def ens(name):
    return name.split('|')[0]


def min_gap(idl):
    return min(b - a for a, b in zip(idl, idl[1:]))


def equally_spaced(idl):
    d = idl[1] - idl[0]
    return all(b - a == d for a, b in zip(idl, idl[1:]))


def extent(idl, gap):
    if equally_spaced(idl):
        return len(idl) * (idl[1] - idl[0]) // gap
    return (idl[-1] - idl[0]) // gap + 1


class Borderline(Exception):
    pass


def gamma_pairs(chains, gap, w_max):
    num = np.zeros(w_max)
    cnt = np.zeros(w_max)
    for idl, d in chains:
        cfg = np.asarray(idl, dtype=np.int64)
        d = np.asarray(d, dtype=float)
        for t in range(w_max):
            sh = cfg + t * gap
            j = np.searchsorted(cfg, sh)
            ok = j < len(cfg)
            ok[ok] = cfg[j[ok]] == sh[ok]
            if np.any(ok):
                num[t] += float(np.dot(d[ok], d[j[ok]]))
                cnt[t] += int(np.count_nonzero(ok))
    cnt[cnt < 1] = 1.0
    return num / cnt


def analyse_ensemble(chains, S=2.0, tau_exp=0.0, N_sigma=1.0, force_W=None, rel_margin=1e-9):
    """chains: list of (idl list, deltas).  Returns dict with N, gap, w_max, rho, tauint, dtauint,
    dvalue, ddvalue, W, drho (dict lag->value), admissible (set of windows that differ from W only
    by a decision within rounding of zero)."""
    gaps = [min_gap(idl) for idl, _ in chains]
    gap = min(gaps)
    if any(g % gap for g in gaps):
        raise ValueError('no common spacing')
    N = sum(len(d) for _, d in chains)
    w_max = max(extent(idl, gap) for idl, _ in chains) // 2
    Gamma = gamma_pairs(chains, gap, w_max)
    res = dict(N=N, w_max=w_max, gap=gap, gamma0=float(Gamma[0]) if w_max else 0.0, admissible=set())
    if w_max == 0 or abs(Gamma[0]) < TINY:
        res.update(tauint=0.5, dtauint=0.0, dvalue=0.0, ddvalue=0.0, W=0, rho=np.zeros(w_max), drho={}, zero=True)
        res['admissible'] = {0}
        return res
    rho = Gamma / Gamma[0]
    ntau = np.cumsum(np.concatenate(([0.5], rho[1:])))
    ntau[ntau <= 0.5] = 0.5 + np.finfo(float).eps
    ndtau = ntau * 2 * np.sqrt(np.abs(np.arange(w_max) + 0.5 - ntau) / N)
    ndtau[0] = 0.0

    def drho(t):
        s = 0.0
        for k in range(1, w_max - t):
            a = rho[k + t] + rho[abs(k - t)] - 2 * rho[k] * rho[t]
            s += a * a
        return math.sqrt(s / N)

    res.update(rho=rho, ntau=ntau, ndtau=ndtau, zero=False)
    adm = set()
    if tau_exp > 0:
        if w_max // 2 <= 1:
            raise ValueError('Need at least 8 samples for tau_exp error analysis')
        dr = {1: drho(1)}
        W = None
        for n in range(1, w_max // 2):
            dr[n + 1] = drho(n + 1)
            crit = rho[n] - N_sigma * dr[n]
            tol = rel_margin * (abs(rho[n]) + abs(N_sigma * dr[n])) + 1e-12
            cap = n >= w_max // 2 - 2
            definite = crit < -tol or cap
            borderline = abs(crit) <= tol and not cap
            if definite or borderline:
                adm.add(n)
            if force_W is not None:
                if n == force_W and (definite or borderline):
                    W = n
                    break
            elif W is None and (crit < 0 or cap):
                W = n
            if definite:
                break
        if W is None:
            raise Borderline('forced window not reachable')
        n = W
        tau = ntau[n] * (1 + (2 * n + 1) / N) / (1 + 1 / N) + tau_exp * abs(rho[n + 1])
        dtau = math.sqrt(ndtau[n] ** 2 + tau_exp ** 2 * dr[n + 1] ** 2)
        dv = math.sqrt(2 * tau * Gamma[0] * (1 + 1 / N) / N)
        res.update(tauint=tau, dtauint=dtau, dvalue=dv, ddvalue=dv * math.sqrt((n + 0.5) / N), W=n,
                   drho={k: v for k, v in dr.items() if k <= n + 1})
    elif S == 0:
        dv = math.sqrt(Gamma[0] / (N - 1))
        res.update(tauint=0.5, dtauint=0.0, dvalue=dv, ddvalue=dv * math.sqrt(0.5 / N), W=0, drho={})
        adm.add(0)
    else:
        W = None
        for n in range(1, w_max):
            tw = S / math.log((2 * ntau[n] + 1) / (2 * ntau[n] - 1))
            a = math.exp(-n / tw)
            b = tw / math.sqrt(n * N)
            g = a - b
            tol = rel_margin * (abs(a) + abs(b)) + 1e-13
            cap = n >= w_max - 1
            definite = g < -tol or cap
            borderline = abs(g) <= tol and not cap
            if definite or borderline:
                adm.add(n)
            if force_W is not None:
                if n == force_W and (definite or borderline):
                    W = n
                    break
            elif W is None and (g < 0 or cap):
                W = n
            if definite:
                break
        if W is None:
            if w_max <= 1:
                # no admissible lag at all: the library leaves the ensemble without a result
                raise Borderline('no admissible window (w_max <= 1)')
            raise Borderline('forced window not reachable')
        n = W
        tau = ntau[n] * (1 + (2 * n + 1) / N) / (1 + 1 / N)
        dv = math.sqrt(2 * tau * Gamma[0] * (1 + 1 / N) / N)
        res.update(tauint=tau, dtauint=ndtau[n], dvalue=dv, ddvalue=dv * math.sqrt((n + 0.5) / N), W=n, drho={n: drho(n)})
    res['admissible'] = adm
    return res


def analyse(snapshot, params, force_W=None):
    """snapshot: vmon.snap.snap(obs); params: {ensemble: (S, tau_exp, N_sigma)}; force_W: {ensemble: W}.
    Returns per-ensemble results and the totals."""
    by = {}
    for name, (idl, d, _) in snapshot['chains'].items():
        by.setdefault(ens(name), []).append((name, idl, d))
    per = {}
    tot = 0.0
    dd = 0.0
    for e in sorted(by):
        S, te, ns = params[e]
        chains = [(idl, d) for _, idl, d in sorted(by[e])]
        r = analyse_ensemble(chains, S, te, ns, None if force_W is None else force_W.get(e))
        per[e] = r
        tot += r['dvalue'] ** 2
        dd += (r['dvalue'] * r['ddvalue']) ** 2
    cov = {}
    for n, (c, g) in snapshot['cov'].items():
        v = float(g @ c @ g)
        cov[n] = math.sqrt(v)
        tot += v
    dvalue = math.sqrt(tot)
    ddvalue = 0.0 if dvalue == 0.0 else math.sqrt(dd) / dvalue
    return dict(per=per, cov=cov, dvalue=dvalue, ddvalue=ddvalue)
