"""Reference model of linear error propagation (property C01) on plain dictionaries.

An observable is {'value', 'chains': {name: (idl list, deltas, r_value)}, 'cov': {name: (cov, grad)}, 'rew'}
(see vmon.snap.snap).  Independent of the library: configuration numbers are dictionary keys,
no aligned arrays, no range arithmetic.  MUST NOT import pyerrors.
"""
import numpy as np


def ens(name):
    return name.split('|')[0]


def from_table(tab):
    """{chain: {cfg: sample}} -> snapshot (value = mean over all samples)."""
    chains = {}
    tot = 0.0
    n = 0
    for c, d in tab.items():
        idl = sorted(d)
        x = np.array([d[k] for k in idl], dtype=float)
        m = x.mean()
        chains[c] = (idl, x - m, float(m))
        tot += x.sum()
        n += len(x)
    return dict(value=tot / n, chains=chains, cov={}, rew=False, idl_form={})


def union_lists(ins):
    chains = sorted(set(n for s in ins for n in s['chains']))
    return chains, {c: sorted(set().union(*[set(s['chains'][c][0]) for s in ins if c in s['chains']])) for c in chains}


def weights(ins, chains, union):
    """weight[(operand index, chain)] = |union|/|own| * (ensemble size / size of the replicas it has)."""
    w = {}
    for k, s in enumerate(ins):
        for c in s['chains']:
            own_in_ens = [x for x in s['chains'] if ens(x) == ens(c)]
            all_in_ens = [x for x in chains if ens(x) == ens(c)]
            repf = 1.0
            if len(own_in_ens) < len(all_in_ens):
                repf = sum(len(union[x]) for x in all_in_ens) / sum(len(union[x]) for x in own_in_ens)
            w[(k, c)] = len(union[c]) / len(s['chains'][c][0]) * repf
    return w


def propagate(ins, grads, f):
    """ins: snapshots; grads: d f / d input_k (floats); f: list of floats -> float."""
    chains, union = union_lists(ins)
    w = weights(ins, chains, union)
    out = {}
    for c in chains:
        pos = {cfg: i for i, cfg in enumerate(union[c])}
        acc = np.zeros(len(union[c]))
        for k, (s, g) in enumerate(zip(ins, grads)):
            if c not in s['chains']:
                continue
            idl, d, _ = s['chains'][c]
            fac = w[(k, c)]
            for cfg, dv in zip(idl, d):
                acc[pos[cfg]] += g * fac * dv
        rv = f([s['chains'][c][2] if c in s['chains'] else s['value'] for s in ins])
        out[c] = (union[c], acc, rv)
    covn = sorted(set(n for s in ins for n in s['cov']))
    cov = {}
    for n in covn:
        gr = 0
        for s, g in zip(ins, grads):
            if n in s['cov']:
                gr = gr + g * s['cov'][n][1]
        cov[n] = gr
    return dict(value=f([s['value'] for s in ins]), chains=out, cov=cov, rew=any(s['rew'] for s in ins))


def equally_spaced(l):
    if len(l) < 2:
        return True
    d = l[1] - l[0]
    return all(b - a == d for a, b in zip(l, l[1:]))


def delta_scale(ins, grads):
    """Scale for the comparison of fluctuations: sum_k |g_k| max|delta_k| (times its weight bound)."""
    s = 0.0
    for sn, g in zip(ins, grads):
        m = 0.0
        for c, (idl, d, _) in sn['chains'].items():
            if len(d):
                m = max(m, float(np.max(np.abs(d))))
        s += abs(g) * m
    return s
