"""Round-trip oracle shared by C11 (json / data frames / pickle) and C12 (dobs / pobs).

Nothing in here imports pyerrors: library objects are inspected by attribute through
vmon.snap.snap() and compared field by field as plain data (never through the library's ==).
The generators take the library module as an argument.
"""
import math

import numpy as np

from ..snap import snap, is_obs, is_corr

ENS_POOL = ['A', 'AB', 'A1', 'B', 'ens']        # prefix traps: A / AB / A1
REP_POOL = ['r1', 'r2', 'r10', 'r3']            # sort trap: r10 < r2 lexicographically
SUPPORTS = ['one', 'replicas', 'ensembles', 'cov', 'mixed']


# ------------------------------------------------------------------------------------------
# how often did each judgement run (checklist item 13): counters j:<mechanism> in the evidence
# ------------------------------------------------------------------------------------------
def count_judgements(ctx):
    """Wrap the comparison methods of this context so that every evaluation is counted under its mechanism tag."""
    if getattr(ctx, '_judgements_counted', False):
        return
    ctx._judgements_counted = True
    for name, pos in (('close', 2), ('equal', 2), ('require', 1)):
        orig = getattr(ctx, name)

        def wrapped(*a, _orig=orig, _pos=pos, **k):
            mech = a[_pos] if len(a) > _pos else k.get('mechanism')
            ctx.count('j:%s' % mech)
            return _orig(*a, **k)
        setattr(ctx, name, wrapped)


def judged(ctx, mechanism):
    """For judgements that are decided by a classifier and recorded through ctx.violation directly."""
    ctx.ev()
    ctx.count('j:%s' % mechanism)


# ------------------------------------------------------------------------------------------
# strict equality of JSON values (1 != True != 1.0; dict order irrelevant)
# ------------------------------------------------------------------------------------------
def json_kind(x):
    if x is None:
        return 'null'
    if isinstance(x, (bool, np.bool_)):
        return 'bool'
    if isinstance(x, (int, np.integer)):
        return 'int'
    if isinstance(x, (float, np.floating)):
        return 'float'
    if isinstance(x, str):
        return 'str'
    if isinstance(x, (list, tuple)):
        return 'list'
    if isinstance(x, dict):
        return 'dict'
    return 'other:' + type(x).__name__


def json_strict_equal(a, b):
    ka, kb = json_kind(a), json_kind(b)
    if ka != kb:
        return False
    if ka == 'list':
        return len(a) == len(b) and all(json_strict_equal(x, y) for x, y in zip(a, b))
    if ka == 'dict':
        if set(a.keys()) != set(b.keys()) or not all(isinstance(k, str) for k in list(a) + list(b)):
            return False
        return all(json_strict_equal(a[k], b[k]) for k in a)
    if ka == 'float':
        return (a == b) or (math.isnan(a) and math.isnan(b))
    if ka in ('null',):
        return True
    if ka.startswith('other'):
        return False
    return a == b


# ------------------------------------------------------------------------------------------
# structures -> plain trees
# ------------------------------------------------------------------------------------------
def tree(x):
    """Plain-data description of an Obs / list / ndarray / Corr / dict structure."""
    if is_obs(x):
        return {'k': 'Obs', 'snap': snap(x), 'tag': x.tag, 'rew_type': type(x.reweighted).__name__}
    if is_corr(x):
        return {'k': 'Corr', 'N': int(x.N), 'T': int(x.T), 'tag': x.tag, 'prange': x.prange,
                'content': [None if c is None else tree(np.asarray(c)) for c in x.content]}
    if isinstance(x, np.ndarray):
        if x.dtype == object:
            return {'k': 'Array', 'shape': tuple(int(s) for s in x.shape), 'items': [tree(i) for i in x.ravel()]}
        return {'k': 'Val', 'v': x.tolist()}
    if isinstance(x, list):
        return {'k': 'List', 'items': [tree(i) for i in x]}
    if isinstance(x, dict):
        return {'k': 'Dict', 'items': {k: tree(v) for k, v in x.items()}}
    return {'k': 'Val', 'v': x}


def walk_obs(x):
    """All Obs objects inside a structure, in traversal order."""
    if is_obs(x):
        yield x
    elif is_corr(x):
        for c in x.content:
            if c is not None:
                for o in np.asarray(c).ravel():
                    yield from walk_obs(o)
    elif isinstance(x, np.ndarray) and x.dtype == object:
        for o in x.ravel():
            yield from walk_obs(o)
    elif isinstance(x, (list, tuple)):
        for o in x:
            yield from walk_obs(o)
    elif isinstance(x, dict):
        for o in x.values():
            yield from walk_obs(o)


def has_undefined_slices(x):
    if is_corr(x):
        return any(c is None for c in x.content)
    if isinstance(x, (list, tuple)):
        return any(has_undefined_slices(i) for i in x)
    if isinstance(x, dict):
        return any(has_undefined_slices(i) for i in x.values())
    return False


# ------------------------------------------------------------------------------------------
# snapshot comparison
# ------------------------------------------------------------------------------------------
class Profile:
    """Tolerances of one storage format.

    exact        everything bit-identical (pickle)
    value_rtol   central value; 0.0 = bit-identical (numbers that are written losslessly and read without arithmetic)
    cov_rtol     covariance matrix and gradient; 0.0 = bit-identical; cov_elementwise: relative to each entry (text with fixed digits)
    delta_rtol   fluctuations / replica means, in units of the scale the format stores them with: the reader does
                 stored - mean(stored) and mean(stored) + value, i.e. a pairwise sum over N <= 500 numbers and two
                 additions, at most ~(log2 N + 3) eps = 2.7e-15 of the largest stored number; 4e-15 is used
    scale        'json': delta + (r_mean - value);  'dobs': that + the central value;  'pobs': delta + r_mean
    """

    def __init__(self, fam, exact=False, value_rtol=0.0, cov_rtol=0.0, delta_rtol=4e-15, scale='json',
                 drop_zero_grad=False, check_form=True, check_tag=True, check_rew=True, value_recomputed=False, cov_elementwise=False):
        self.fam = fam
        self.exact = exact
        self.value_rtol = value_rtol
        self.cov_rtol = cov_rtol
        self.delta_rtol = delta_rtol
        self.scale = scale
        self.drop_zero_grad = drop_zero_grad
        self.check_form = check_form
        self.check_tag = check_tag
        self.check_rew = check_rew
        self.value_recomputed = value_recomputed     # the reader recomputes the central value from the samples
        self.cov_elementwise = cov_elementwise


def chain_scale(e, name, mode):
    idl, d, r = e['chains'][name]
    v = float(e['value'])
    md = float(np.max(np.abs(d))) if len(d) else 0.0
    if mode == 'json':
        return md + abs(r - v)
    if mode == 'dobs':
        return md + abs(r - v) + abs(v)
    if mode == 'pobs':
        return md + abs(r)
    raise ValueError(mode)


def cmp_snap(ctx, g, e, prof, where, name_map=None, skip_chains=(), detail=None):
    """g: snapshot of the re-imported observable, e: snapshot of the original.
    name_map: {original chain name: expected chain name after the round trip}.
    skip_chains: original chain names whose content is not judged here (classified by the caller)."""
    fam = prof.fam
    ok = True
    det = {'where': where, 'extra': detail}
    if prof.exact:
        ok &= ctx.require(json_kind(g['value']) in ('float', 'int') and float(g['value']) == float(e['value']), fam + ':value',
                          lambda: dict(det, got=g['value'], exp=e['value']))
    elif prof.value_recomputed:
        vs = abs(float(e['value'])) + max([chain_scale(e, n, prof.scale) for n in e['chains']] or [0.0])
        ok &= ctx.close(g['value'], e['value'], fam + ':value', where, rtol=prof.delta_rtol, scale=vs, detail=detail)
    else:
        ok &= ctx.close(g['value'], e['value'], fam + ':value', where, rtol=prof.value_rtol, detail=detail)
    nm = {n: n for n in e['chains']} if name_map is None else name_map
    exp_names = sorted(nm[n] for n in e['chains'] if n not in skip_chains)
    got_names = sorted(n for n in g['chains'] if n not in set(nm[s] for s in skip_chains))
    if not ctx.require(got_names == exp_names, fam + ':chain-names', lambda: dict(det, got=got_names, exp=exp_names)):
        return False
    for n in sorted(e['chains']):
        if n in skip_chains:
            continue
        eidl, ed, er = e['chains'][n]
        gidl, gd, gr = g['chains'][nm[n]]
        if not ctx.require([int(i) for i in gidl] == [int(i) for i in eidl] and all(json_kind(i) == 'int' for i in gidl),
                           fam + ':configuration-list', lambda: dict(det, chain=n, got=gidl, exp=eidl)):
            ok = False
            continue
        if prof.check_form:
            ok &= ctx.require(g['idl_form'][nm[n]] == e['idl_form'][n], fam + ':configuration-list-form',
                              lambda: dict(det, chain=n, got=g['idl_form'][nm[n]], exp=e['idl_form'][n], idl=eidl))
        if prof.exact:
            ok &= ctx.require(np.array_equal(gd, ed), fam + ':fluctuations', lambda: dict(det, chain=n))
            ok &= ctx.require(gr == er, fam + ':replica-mean', lambda: dict(det, chain=n, got=gr, exp=er))
        else:
            sc = chain_scale(e, n, prof.scale)
            # every format stores the samples of a chain (as delta + offset) and the readers split them again into a mean and
            # zero-mean fluctuations: the lossless image of (delta, r_mean) is (delta - <delta>, r_mean + <delta>).  <delta> is
            # zero to rounding for ordinary chains; for a frozen chain, whose fluctuations are rounding noise, it is not.
            shift = math.fsum(float(x) for x in ed) / len(ed) if len(ed) else 0.0
            ok &= ctx.close(gd, np.asarray(ed, dtype=float) - shift, fam + ':fluctuations', where + ' chain ' + n, rtol=prof.delta_rtol, scale=sc, detail=detail)
            ok &= ctx.close(gr, er + shift, fam + ':replica-mean', where + ' chain ' + n, rtol=prof.delta_rtol,
                            scale=sc + abs(er) + abs(float(e['value'])), detail=detail)
    ec, gc = e['cov'], g['cov']
    if prof.drop_zero_grad:
        ec = {n: v for n, v in ec.items() if np.any(v[1] != 0)}
        gc = {n: v for n, v in gc.items() if np.any(v[1] != 0)}
    if not ctx.require(sorted(gc) == sorted(ec), fam + ':covariance-names', lambda: dict(det, got=sorted(gc), exp=sorted(ec))):
        return False
    for n in sorted(ec):
        (ecov, egrad), (gcov, ggrad) = ec[n], gc[n]
        if prof.exact:
            ok &= ctx.require(np.array_equal(gcov, ecov), fam + ':covariance-matrix', lambda: dict(det, cov=n))
            ok &= ctx.require(np.array_equal(ggrad, egrad), fam + ':covariance-gradient', lambda: dict(det, cov=n, got=ggrad, exp=egrad))
        elif prof.cov_elementwise:
            for lab, gg, ee in (('covariance-matrix', gcov, ecov), ('covariance-gradient', ggrad, egrad)):
                good = gg.shape == ee.shape and bool(np.all(np.abs(gg - ee) <= prof.cov_rtol * np.abs(ee)))
                ok &= ctx.require(good, fam + ':' + lab, lambda: dict(det, cov=n, got=gg, exp=ee,
                                                                       worst_relative=float(np.max(np.abs(gg - ee) / np.where(ee == 0, 1.0, np.abs(ee)))) if gg.shape == ee.shape else None))
        else:
            ok &= ctx.close(gcov, ecov, fam + ':covariance-matrix', where + ' cov ' + n, rtol=prof.cov_rtol, detail=detail)
            ok &= ctx.close(ggrad, egrad, fam + ':covariance-gradient', where + ' cov ' + n, rtol=prof.cov_rtol, detail=detail)
    if prof.check_rew:
        ok &= ctx.require(g['rew'] == e['rew'], fam + ':reweighted-flag', lambda: dict(det, got=g['rew'], exp=e['rew']))
    return bool(ok)


# ------------------------------------------------------------------------------------------
# analysis equality
# ------------------------------------------------------------------------------------------
def analysable(e, lo=1e-140, hi=1e140, ratio=1e4, mode='json'):
    """An analysis is compared when no square can over/underflow and no chain is degenerate
    (fluctuations at rounding level of what the format stores)."""
    for n, (idl, d, r) in e['chains'].items():
        md = float(np.max(np.abs(d))) if len(d) else 0.0
        sc = chain_scale(e, n, mode)
        if md == 0.0 or not (lo < md < hi) or sc > ratio * md:
            return False
        if md <= 1e-10 * (abs(r) + abs(float(e['value']))):
            return False          # fluctuations that are rounding noise of the mean (a frozen chain): nothing to analyse

    for n, (cov, grad) in e['cov'].items():
        m = float(np.max(np.abs(grad))) if grad.size else 0.0
        c = float(np.max(np.abs(cov))) if cov.size else 0.0
        if m and not (lo < m < hi):
            return False
        # the contribution sqrt(g^T C g) and the intermediate products C g, g^T C g must stay inside the floating-point range
        if c and m and not (lo < m * np.sqrt(c) < hi and m * c < 1e300 and c < 1e300):
            return False
    return True


def cmp_analysis(ctx, o, r, fam, where, kw, rtol=1e-8):
    """gamma_method(**kw) on original and copy must give the same numbers."""
    eo = er = None
    try:
        o.gamma_method(**kw)
    except Exception as ex:          # the same request must fail the same way on the copy
        eo = ex
    try:
        r.gamma_method(**kw)
    except Exception as ex:
        er = ex
    if eo is not None or er is not None:
        return ctx.require(type(eo) is type(er), fam + ':analysis:exception', {'where': where, 'orig': repr(eo), 'copy': repr(er), 'kw': kw})
    ok = True
    det = {'kw': kw}
    if not (np.isfinite(o.dvalue) and np.isfinite(r.dvalue)):
        # an overflowing total error leaves no finite scale to compare the parts with: only the overflow itself is compared
        ctx.count('analysis_total_error_not_finite')
        return ctx.require(repr(float(o.dvalue)) == repr(float(r.dvalue)), fam + ':analysis:dvalue', {'where': where, 'got': r.dvalue, 'exp': o.dvalue, 'kw': kw})
    ok &= ctx.close(r.dvalue, o.dvalue, fam + ':analysis:dvalue', where, rtol=rtol, detail=det)
    ok &= ctx.close(r.ddvalue, o.ddvalue, fam + ':analysis:ddvalue', where, rtol=10 * rtol, scale=max(abs(o.dvalue), abs(o.ddvalue)), detail=det)
    ok &= ctx.require(sorted(r.e_dvalue) == sorted(o.e_dvalue), fam + ':analysis:ensembles', {'where': where, 'got': sorted(r.e_dvalue), 'exp': sorted(o.e_dvalue)})
    if not ok:
        return False
    for en in sorted(o.e_dvalue):
        ok &= ctx.close(r.e_dvalue[en], o.e_dvalue[en], fam + ':analysis:e_dvalue', where + ' ' + en, rtol=rtol, scale=abs(o.dvalue), detail=det)
        if en in o.e_tauint:
            ok &= ctx.close(r.e_tauint[en], o.e_tauint[en], fam + ':analysis:tauint', where + ' ' + en, rtol=rtol, atol=1e-9, detail=det)
            # dtauint = 2 tau sqrt((W + 1/2 - tau) / N): the square is linear in tau, the root is not Lipschitz where the bracket
            # cancels (a rounding-level change of tau moves dtauint by ~sqrt(eps)); therefore the squares are compared
            ok &= ctx.close(float(r.e_dtauint[en]) ** 2, float(o.e_dtauint[en]) ** 2, fam + ':analysis:dtauint', where + ' ' + en, rtol=20 * rtol,
                            atol=1e-9 * max(1.0, float(o.e_tauint[en]) ** 2), detail=det)
            ok &= ctx.require(r.e_windowsize[en] == o.e_windowsize[en], fam + ':analysis:window',
                              {'where': where, 'ens': en, 'got': r.e_windowsize[en], 'exp': o.e_windowsize[en]})
            ok &= ctx.close(np.asarray(r.e_rho[en]), np.asarray(o.e_rho[en]), fam + ':analysis:rho', where + ' ' + en, rtol=rtol, atol=1e-8, detail=det)
    return bool(ok)


# ------------------------------------------------------------------------------------------
# generators (the library module is passed in)
# ------------------------------------------------------------------------------------------
def rand_idl(rng, n, kind):
    """Sorted configuration numbers (python ints); now and then beyond 255, 65535, 2**31 (no small integer type may be assumed)."""
    start = int(rng.integers(1, 60))
    u = rng.random()
    if u < 0.06:
        start = int(10 ** int(rng.integers(3, 10)) + rng.integers(0, 50))
    elif u < 0.09:
        start = int(3 * 10 ** 9 + rng.integers(0, 50))
    if kind == 'contig':
        return list(range(start, start + n))
    if kind == 'strided':
        s = int(rng.integers(2, 6))
        return list(range(start, start + n * s, s))
    m = n + int(rng.integers(1, max(2, n)))
    keep = sorted(int(k) for k in rng.choice(m, size=n, replace=False))
    if all(b - a == keep[1] - keep[0] for a, b in zip(keep, keep[1:])):
        keep[-1] += 1               # irregular: not equally spaced (n >= 3)
    g = 1 if kind == 'irregular' else int(rng.integers(2, 4))   # 'gapped': holes on a strided grid
    return [start + g * k for k in keep]


def rand_layout(rng, support, nmin=5, nmax=30, allow_bare=True, ens_pool=None, idl_kinds=None, maxens=3, rep_pool=None):
    """{ensemble: {chain name: configuration list}} for a support class."""
    ens_pool = ens_pool or ENS_POOL
    rep_pool = rep_pool or REP_POOL
    idl_kinds = idl_kinds or ['contig', 'strided', 'gapped', 'irregular']
    if support == 'cov':
        return {}
    if support in ('one', 'replicas'):
        nens = 1
    elif support == 'ensembles':
        nens = int(rng.integers(2, maxens + 1))
    else:
        nens = int(rng.integers(1, maxens + 1))
    lay = {}
    for e in rng.choice(ens_pool, size=nens, replace=False):
        e = str(e)
        if support == 'one':
            reps = [None] if (allow_bare and rng.random() < 0.3) else [str(rng.choice(rep_pool))]
        elif support == 'replicas':
            reps = sorted(str(r) for r in rng.choice(rep_pool, size=int(rng.integers(2, 4)), replace=False))
        else:
            reps = sorted(str(r) for r in rng.choice(rep_pool, size=int(rng.integers(1, 4)), replace=False))
            if allow_bare and len(reps) == 1 and rng.random() < 0.15:
                reps = [None]
        lay[e] = {}
        for r in reps:
            n = int(rng.integers(nmin, nmax + 1))
            lay[e][e if r is None else e + '|' + r] = rand_idl(rng, n, str(rng.choice(idl_kinds)))
    return lay


def rand_samples(rng, n, kind):
    if kind == 'white':
        return rng.normal(size=n) + float(rng.choice([0.0, 1.0, -2.5, 10.0]))
    if kind == 'ar':
        a = rng.uniform(0.5, 0.95)
        x = np.zeros(n)
        x[0] = rng.normal()
        e = rng.normal(size=n)
        for i in range(1, n):
            x[i] = a * x[i - 1] + e[i]
        return x + float(rng.choice([0.0, 3.0]))
    if kind == 'counts':            # integer valued, exact zeros
        x = rng.integers(-3, 4, size=n).astype(float)
        if not np.any(x == 0):
            x[int(rng.integers(0, n))] = 0.0
        return x
    if kind == 'posint':            # non-negative counts with exact zeros
        x = rng.integers(0, 5, size=n).astype(float)
        if not np.any(x == 0):
            x[int(rng.integers(0, n))] = 0.0
        return x
    if kind == 'const':
        return np.full(n, float(rng.choice([0.0, 1.5])))
    if kind == 'distinct':
        return rng.permutation(n).astype(float) + rng.uniform(0.1, 0.9, size=n)
    raise ValueError(kind)


def strided_copy(rng, x):
    """An array with the values of x that is not C-contiguous (stride-2 or negative-stride view)."""
    x = np.asarray(x)
    if rng.random() < 0.5:
        big = np.empty(2 * len(x), dtype=x.dtype)
        big[::2] = x
        big[1::2] = -777
        return big[::2]
    return np.array(x[::-1])[::-1]


STATS = {}          # generator telemetry (flushed into the evidence by the property modules)


def _stat(name, n=1):
    STATS[name] = STATS.get(name, 0) + n


def flush_stats(ctx):
    for k, v in STATS.items():
        ctx.count(k, v)
    STATS.clear()


def jackknife_primary(pe, rng, chains, kind):
    """An observable whose central value is NOT the mean of its replica means: jackknife samples of a non-linear function
    imported with import_jackknife (entry 0 = f(mean) differs from the mean of f over the jackknife means), one import per
    chain, summed over the chains of the ensemble."""
    o = None
    for n in sorted(chains):
        cfgs = chains[n]
        x = rand_samples(rng, len(cfgs), kind)
        tot = float(np.sum(x))
        jm = (tot - x) / (len(x) - 1)
        # non-linear but of linear growth, so that nothing built on top of it (products, exp(0.05 o), magnitudes up to 1e200) overflows
        f = (lambda y: y + 0.3 * y * y / (1.0 + np.abs(y))) if rng.random() < 0.5 else (lambda y: y + np.sin(y))
        jacks = np.concatenate([[f(tot / len(x))], f(jm)])
        part = pe.import_jackknife(jacks, n, idl=[list(cfgs)])
        o = part if o is None else o + part
    _stat('primaries_with_replica_mean_different_from_value')
    return o


def primary(pe, rng, chains, kind, table=None, special=True):
    """special: True (both), 'frozen-only' (no jackknife imports: the format wants plain primaries), False."""
    if special is True and table is None and rng.random() < 0.15:
        return jackknife_primary(pe, rng, chains, kind)
    return _primary(pe, rng, chains, kind, table, frozen=bool(special))


def _primary(pe, rng, chains, kind, table=None, frozen=True):
    """Primary observable on the chains {name: idl} of one ensemble.  The configuration lists are handed over as
    range / list of int / list of numpy integers / int64 array / int32 array, the samples as arrays, strided views or lists."""
    names = sorted(chains)
    samples, idls = [], []
    # all-equal samples on one replica of several (a charge frozen at 0, a constant) while the others fluctuate
    frozen_chain = names[int(rng.integers(0, len(names)))] if (frozen and len(names) > 1 and rng.random() < 0.15) else None
    for n in names:
        cfgs = chains[n]
        x = rand_samples(rng, len(cfgs), kind)
        if n == frozen_chain:
            x = np.full(len(cfgs), float(rng.choice([0.0, 1.0, -2.0, 0.5])))
            if rng.random() < 0.4:
                # near, not at, the special value: almost frozen (distinct numbers 1e-12 .. 1e-6 apart, none exactly the constant)
                x = x + float(10.0 ** rng.uniform(-12, -6)) * (rng.permutation(len(cfgs)) + 1.0)
                _stat('almost_frozen_replica_chains')
            _stat('frozen_replica_chains')
        if table is not None:
            table[n] = {int(c): float(v) for c, v in zip(cfgs, x)}
        u = rng.random()
        if u < 0.2:
            x = strided_copy(rng, x)
        elif u < 0.3:
            x = x.tolist()
        samples.append(x)
        form = str(rng.choice(['list', 'ndarray', 'native', 'int32', 'npints']))
        if form == 'int32' and max(cfgs) > 2 ** 31 - 1:
            form = 'ndarray'
        if form == 'ndarray':
            idls.append(np.array(cfgs, dtype=np.int64))
        elif form == 'int32':
            idls.append(np.array(cfgs, dtype=np.int32))
        elif form == 'npints':
            idls.append([np.int64(c) if i % 2 else int(c) for i, c in enumerate(cfgs)])
        elif form == 'native' and len(cfgs) > 1 and all(b - a == cfgs[1] - cfgs[0] for a, b in zip(cfgs, cfgs[1:])):
            idls.append(range(cfgs[0], cfgs[-1] + 1, cfgs[1] - cfgs[0]))
        else:
            idls.append(list(cfgs))
    return pe.Obs(samples, names, idl=idls)


def twin_idl(rng, cfgs):
    """Another configuration list with the same first number and the same length (and, when there is room inside,
    the same last number) but a different interior: everything a cheap signature of the list looks at agrees."""
    cf = sorted(int(c) for c in cfgs)
    n = len(cf)
    free = sorted(set(range(cf[0] + 1, cf[-1])) - set(cf))
    if free and n > 3:
        new = list(cf)
        for _ in range(int(rng.integers(1, 4))):
            new[int(rng.integers(1, n - 1))] = int(rng.choice(free))
        new = sorted(set(new))
        while len(new) < n:
            cand = [x for x in range(cf[0] + 1, cf[-1]) if x not in new]
            new = sorted(new + [int(rng.choice(cand))])
        if new != cf:
            return new
    # contiguous list (no room inside): stretch it, keeping first number and length
    inner = sorted(int(x) for x in rng.choice(np.arange(cf[0] + 1, cf[0] + 3 * n), size=n - 2, replace=False))
    return [cf[0]] + inner + [cf[0] + 3 * n]


def twin_layout(rng, layout):
    """Same ensembles, chain names, first configuration and length per chain; different interior."""
    return {e: {c: twin_idl(rng, cf) for c, cf in chains.items()} for e, chains in layout.items()}


def obs_arrays(o):
    """The numpy arrays an observable owns (fluctuations, covariance matrices, gradients)."""
    out = [o.deltas[n] for n in o.deltas]
    for c in o.covobs.values():
        out += [c.cov, c.grad]
    return [a for a in out if isinstance(a, np.ndarray) and a.size]


def _byte_bounds(a):
    f = getattr(np, 'byte_bounds', None) or np.lib.array_utils.byte_bounds
    return f(a)


def sharing(objs_a, objs_b=None):
    """Pairs (i, j) of distinct observables whose arrays overlap in memory (objs_b None: within objs_a, i < j)."""
    spans = []
    for side, objs in ((0, objs_a), (1, objs_b or [])):
        for i, o in enumerate(objs):
            for arr in obs_arrays(o):
                lo, hi = _byte_bounds(arr)
                spans.append((lo, hi, side, i, arr))
    spans.sort(key=lambda t: t[0])
    out = set()
    active = []
    for lo, hi, side, i, arr in spans:
        active = [t for t in active if t[1] > lo]
        for (lo2, hi2, side2, i2, arr2) in active:
            if objs_b is None:
                if objs_a[i] is objs_a[i2]:
                    continue
                pair = tuple(sorted((i, i2)))
            else:
                if side == side2:
                    continue
                pair = (i, i2) if side == 0 else (i2, i)
            if pair not in out and np.shares_memory(arr, arr2):
                out.add(pair)
        active.append((lo, hi, side, i, arr))
    return sorted(out)


def rand_covobs(pe, rng, count=None, dims=None, extreme=False):
    """1-2 covariance inputs of dimension 1-3: [(name, [Obs per component], scale)].  The matrix is handed over as scalar /
    1-d variances / 2-d matrix, as list or ndarray; extreme: matrix entries scaled by s**2 with s = 1e-120..1e120 and tiny
    means, so that arbitrary gradients can be attached without drowning the Monte-Carlo part of the central value."""
    out = []
    names = ['cvA', 'cv', '#renorm']
    count = int(rng.integers(1, 3)) if count is None else count
    for name in rng.choice(names, size=count, replace=False):
        dim = int(rng.integers(1, 4)) if dims is None else int(rng.choice(dims))
        sc = float(10.0 ** rng.uniform(-120, 120)) if extreme else 1.0
        means = (rng.normal(size=dim) + 2.0) * (1e-75 if extreme else 1.0)
        as_array = bool(rng.integers(0, 2))
        if dim == 1 and rng.random() < 0.5:
            cv = pe.cov_Obs(float(means[0]) if rng.random() < 0.7 else np.float64(means[0]), (float(rng.uniform(0.01, 0.3)) * sc) ** 2, str(name))
        elif rng.random() < 0.3:
            var = (rng.uniform(0.01, 0.3, size=dim) * sc) ** 2
            cv = pe.cov_Obs(means if as_array else means.tolist(), var if as_array else var.tolist(), str(name))
        else:
            a = rng.normal(size=(dim, dim))
            m = a @ a.T / dim + 0.05 * np.eye(dim)
            m = (m + m.T) / 2 * sc * sc
            if as_array and rng.random() < 0.5:
                m = np.asfortranarray(m)
            cv = pe.cov_Obs(means if as_array else means.tolist(), m if as_array else m.tolist(), str(name))
        out.append((str(name), [cv] if is_obs(cv) else list(cv), sc))
    return out


class Family:
    """Members that share one layout (names, configuration lists, covariance names), as the
    List / Array / Corr structures require."""

    def __init__(self, pe, rng, support, nmin=5, nmax=30, allow_bare=True, kinds=None, mags='any', maxens=3, layout=None, dims=None,
                 ens_pool=None, cov_extreme=None, cvs=None):
        self.pe = pe
        self.rng = rng
        self.support = support
        self.layout = rand_layout(rng, support, nmin, nmax, allow_bare, maxens=maxens, ens_pool=ens_pool) if layout is None else layout
        self.kinds = kinds or ['white', 'white', 'ar', 'counts', 'distinct', 'const']
        self.cov_extreme = bool(rng.random() < 0.25) if cov_extreme is None else cov_extreme
        if cvs is not None:
            self.cvs = cvs
        else:
            self.cvs = rand_covobs(pe, rng, dims=dims, extreme=self.cov_extreme) if support in ('cov', 'mixed') else []
        self.cov_extreme = self.cov_extreme and bool(self.cvs)
        self.mags = mags
        self.spectators = 0
        self.centered = 0

    def magnitude(self):
        rng = self.rng
        if self.mags == 'unit':
            return 1.0
        u = rng.random()
        if u < 0.45:
            return 1.0
        if u < 0.7:
            return float(10.0 ** rng.uniform(-8, 8))
        return float(10.0 ** rng.uniform(-200, 200))

    def member(self, mag=None, linear_only=False):
        pe, rng = self.pe, self.rng
        o = None
        ens = sorted(self.layout)
        linear_only = linear_only or self.cov_extreme
        if ens:
            prims = []
            for e in ens:
                kind = str(rng.choice(self.kinds))
                if kind == 'const' and rng.random() < 0.7:
                    kind = 'white'
                prims.append(primary(pe, rng, self.layout[e], kind))
            how = str(rng.choice(['primary', 'linear', 'product', 'nonlinear']))
            if linear_only and how in ('product', 'nonlinear'):
                how = 'linear'
            if how == 'primary' and len(prims) == 1:
                o = prims[0]
            elif how in ('primary', 'linear'):
                coef = [float(rng.uniform(0.5, 2.0)) for p in prims]
                if len(prims) > 1 and rng.random() < 0.2:
                    # spectator: an ensemble that enters with coefficient exactly 0 (first, last or any slot);
                    # its chains stay in the observable with fluctuations that are exactly zero
                    coef[int(rng.choice([0, len(prims) - 1, int(rng.integers(0, len(prims)))]))] = 0.0
                    self.spectators += 1
                o = sum(c * p for c, p in zip(coef, prims))
            elif how == 'product':
                o = prims[0]
                for p in prims[1:]:
                    o = o * (p + 20.0)
                if len(prims) == 1:
                    o = o * primary(pe, rng, self.layout[ens[0]], 'white')
            else:
                o = np.sin(prims[0]) + sum(np.exp(0.05 * p) for p in prims)
        for name, comps, sc in self.cvs:
            if self.cov_extreme:
                # tiny / huge gradients next to tiny / huge matrix entries
                lin = sum(float(10.0 ** rng.uniform(-70, 70)) * float(rng.choice([-1, 1])) * c for c in comps)
                o = lin if o is None else o + lin
                continue
            cc = [float(rng.uniform(0.3, 2.0)) * float(rng.choice([-1, 1])) for c in comps]
            if rng.random() < 0.2:
                # spectator components: gradient entries that are exactly zero (one of them, or the whole covariance input)
                if len(cc) > 1 and rng.random() < 0.6:
                    cc[int(rng.choice([0, len(cc) - 1]))] = 0.0
                elif o is not None:
                    cc = [0.0 for c in cc]
                self.spectators += 1
            lin = sum(k * c for k, c in zip(cc, comps))
            if o is None:
                o = lin if rng.random() < 0.5 else lin * comps[0]
            elif rng.random() < 0.5:
                o = o + lin
            else:
                o = o * comps[0] + lin
        if ens and rng.random() < 0.08 and all(float(np.max(np.abs(d))) > 1e-6 * abs(o.value) for d in o.deltas.values() if len(d)):
            # degenerate value: the central value is exactly 0.0 while the fluctuations are not (o - <o>); chains whose
            # fluctuations are rounding noise of the value would turn into objects made of noise only
            o = o - o.value
            self.centered += 1
        mag = self.magnitude() if mag is None else mag
        if mag != 1.0:
            o = o * mag
        if rng.random() < 0.15:
            # fluctuation arrays that are views (not C-contiguous), same numbers
            for n in list(o.deltas):
                o.deltas[n] = strided_copy(rng, o.deltas[n])
        return o
