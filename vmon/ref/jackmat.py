"""Exact jackknife evaluation of products / contractions of matrices of observables (property C10,
jack_matmul and einsum), recomputed from the per-configuration samples.  MUST NOT import pyerrors.

Definitions (single chain with configurations c_1..c_N and measurements x_k = replica mean + delta_k):
  jackknife sample k       j_k = (sum_{i != k} x_i) / (N - 1)           (leave-one-out mean, explicit sum)
  sample 0                 j_0 = central value
  function of matrices     F_s = F(j_s) evaluated sample by sample, s = 0..N
  back transformation      y_k = sum_{i} F_i - (N - 1) F_k              (pseudo-values)
                           value = F_0, replica mean = mean_k y_k, fluctuation_k = y_k - mean
"""
import math

import numpy as np


class NotOnOneChain(Exception):
    pass


def leave_one_out(snapshot):
    """(chain name, cfg list, array [central value, j_1..j_N]) for a snapshot living on exactly one chain."""
    if len(snapshot['chains']) != 1 or any(np.any(np.asarray(v[0]) != 0) for v in snapshot['cov'].values()):
        raise NotOnOneChain()
    (name, (idl, deltas, rmean)), = snapshot['chains'].items()
    x = [float(rmean) + float(d) for d in deltas]
    n = len(x)
    out = np.empty(n + 1)
    out[0] = snapshot['value']
    for k in range(n):
        out[1 + k] = math.fsum(x[i] for i in range(n) if i != k) / (n - 1)
    return name, [int(c) for c in idl], out


def entry_samples(entry, layout):
    """entry: ('num', z) | ('re', snapshot) | ('c', snapshot/number, snapshot/number) -> array of N+1 samples
    (or the plain number).  layout: dict collecting the (name, idl) seen; all observables must share it."""
    def one(sn):
        name, idl, arr = leave_one_out(sn)
        if 'name' not in layout:
            layout['name'], layout['idl'] = name, idl
        elif layout['name'] != name or layout['idl'] != idl:
            raise NotOnOneChain()
        return arr
    if entry[0] == 'num':
        return entry[1]
    if entry[0] == 're':
        return one(entry[1])
    re = one(entry[1]) if isinstance(entry[1], dict) else entry[1]
    im = one(entry[2]) if isinstance(entry[2], dict) else entry[2]
    return re + 1j * im


def sample_arrays(operands):
    """operands: list of nested lists (matrix: list of rows; vector: flat list) of entries ->
    (list of arrays with a trailing sample axis, layout)."""
    layout = {}
    raw = []
    for op in operands:
        if len(op) and isinstance(op[0], list):
            arr = np.empty((len(op), len(op[0])), dtype=object)
            for i, row in enumerate(op):
                for j, e in enumerate(row):
                    arr[i, j] = entry_samples(e, layout)
        else:
            arr = np.empty((len(op),), dtype=object)
            for i, e in enumerate(op):
                arr[i] = entry_samples(e, layout)
        raw.append(arr)
    if 'name' not in layout:
        raise NotOnOneChain()
    ns = len(layout['idl']) + 1
    out = []
    for arr in raw:
        cplx = any(np.iscomplexobj(x) for x in arr.ravel())
        full = np.empty(arr.shape + (ns,), dtype=complex if cplx else float)
        for idx in np.ndindex(arr.shape):
            full[idx] = arr[idx]          # plain numbers are the same in every sample
        out.append(full)
    return out, layout


def back_transform(samples):
    """samples: array (N+1,) of a scalar function -> (value, fluctuations (N,), replica mean)."""
    val = samples[0]
    js = samples[1:]
    n = len(js)
    tot = js.sum()
    y = np.array([tot - (n - 1) * js[k] for k in range(n)])
    mean = y.sum() / n
    return val, y - mean, mean


def as_reference(samples, layout, part):
    arr = samples.real if part == 're' else samples.imag
    val, fl, mean = back_transform(np.asarray(arr, dtype=float))
    return dict(value=float(val), chains={layout['name']: (layout['idl'], fl, float(mean))}, cov={}, rew=False)


def product(operands):
    """sample-wise matrix product of 2-d operands; returns (array of shape (n, m, N+1), layout)."""
    arrs, layout = sample_arrays(operands)
    ns = arrs[0].shape[-1]
    n, m = arrs[0].shape[0], arrs[-1].shape[1]
    cplx = any(a.dtype.kind == 'c' for a in arrs)
    out = np.empty((n, m, ns), dtype=complex if cplx else float)
    for s in range(ns):
        acc = arrs[0][..., s]
        for a in arrs[1:]:
            b = a[..., s]
            new = np.zeros((acc.shape[0], b.shape[1]), dtype=out.dtype)
            for i in range(acc.shape[0]):
                for j in range(b.shape[1]):
                    new[i, j] = sum(acc[i, l] * b[l, j] for l in range(acc.shape[1]))
            acc = new
        out[..., s] = acc
    return out, layout


def contraction(subscripts, operands):
    """np.einsum evaluated sample by sample (explicit output subscripts)."""
    arrs, layout = sample_arrays(operands)
    ns = arrs[0].shape[-1]
    res = [np.asarray(np.einsum(subscripts, *[a[..., s] for a in arrs])) for s in range(ns)]
    return np.stack(res, axis=-1), layout


def implicit_output(subscripts):
    """numpy's rule for the output of an einsum without '->': the labels that occur exactly once, alphabetically."""
    labels = subscripts.replace(',', '')
    return ''.join(sorted(c for c in set(labels) if labels.count(c) == 1))
