"""Implicit-function reference for non-linear (total) least squares (property C08).

Own chi-square functions (documented definitions, incl. the x-residual term of total least squares),
gradients by the complex-step method (exact to rounding for analytic models), Hessians by
Richardson-extrapolated central differences of those gradients, mixed derivatives with respect to
the data by central differences (the gradient is linear in the data, so these are exact to rounding),
and the implicit-function sensitivities  dp/d(data) = -H^-1 d(grad chi2)/d(data).

Models are plain callables model(p, x) -> array of predictions, written with numpy on (complex)
floats.  MUST NOT import pyerrors.
"""
import numpy as np


def cgrad(fun, z, h=1e-40):
    """Gradient of a real-analytic scalar function by complex steps."""
    z = np.asarray(z, dtype=float)
    g = np.zeros(len(z))
    for k in range(len(z)):
        zz = z.astype(complex)
        zz[k] += 1j * h
        g[k] = np.imag(fun(zz)) / h
    return g


def richardson_jac(g, z, steps):
    """d g / d z by central differences with steps h and h/2, extrapolated; returns (J, rel. disagreement)."""
    z = np.asarray(z, dtype=float)
    g0 = np.asarray(g(z), dtype=float)
    J = np.zeros((len(g0), len(z)))
    worst = 0.0
    for k in range(len(z)):
        def cd(h):
            e = np.zeros(len(z))
            e[k] = h
            return (np.asarray(g(z + e)) - np.asarray(g(z - e))) / (2 * h)
        d1 = cd(steps[k])
        d2 = cd(steps[k] / 2)
        J[:, k] = (4 * d2 - d1) / 3
        den = np.max(np.abs(d2)) + 1e-300
        worst = max(worst, float(np.max(np.abs(d2 - d1)) / den))
    return J, worst


def linear_jac(g, z, steps):
    """d g / d z for g affine in z: one central difference per component (exact to rounding)."""
    z = np.asarray(z, dtype=float)
    cols = []
    for k in range(len(z)):
        e = np.zeros(len(z))
        e[k] = steps[k]
        cols.append((np.asarray(g(z + e)) - np.asarray(g(z - e))) / (2 * steps[k]))
    return np.array(cols).T


# ------------------------------------------------------------------------------------------
# documented chi-square functions
def chi2_ls(model, p, x, y, L, prior_idx=(), prior_val=(), prior_err=()):
    """|L (y - model(p, x))|^2 + sum_j ((p[m_j] - prior_j) / dprior_j)^2 ; L = diag(1/dy) when uncorrelated."""
    r = L @ (np.asarray(y) - model(p, x))
    chi = np.sum(r * r)
    for j, m in enumerate(prior_idx):
        t = (p[int(m)] - prior_val[j]) / prior_err[j]
        chi = chi + t * t
    return chi


def chi2_tls(model, beta, xi, x, dx, y, dy):
    """sum ((y - model(beta, xi)) / dy)^2 + sum ((x - xi) / dx)^2 (xi: fitted abscissae, same shape as x)."""
    ry = (np.asarray(y) - model(beta, xi)) / dy
    rx = (np.asarray(x) - xi) / dx
    return np.sum(ry * ry) + np.sum(rx * rx)


def _steps(z, rel=1e-3, floor=0.1):
    """Finite-difference steps: rel * max(|z|, floor); floor (scalar or one entry per component) is the magnitude below which a
    component counts as 'zero' - the caller passes the natural size of the parameters when they are not O(1)."""
    return rel * np.maximum(np.abs(np.asarray(z, dtype=float)), floor)


def sensitivity_error(out, H, H2, S):
    """Own error estimate of the reference sensitivities: dS = -H^-1 dH S to first order, with |dH| estimated entrywise by the
    difference of two extrapolated Hessians (base steps h and h/2) plus the rounding floor of the differences.  Entry (k, i) bounds the
    error of dp_k/d(input i); it is normwise in character (a row whose entries are small can carry the error of the large rows)."""
    dH = np.abs(0.5 * (H + H.T) - 0.5 * (H2 + H2.T)) + 1e-14 * np.abs(out['H'])
    try:
        Hinv = np.linalg.inv(out['H'])
    except np.linalg.LinAlgError:
        return np.full(S.shape, np.inf)
    return np.abs(Hinv) @ dH @ np.abs(S)


def _finish(out, g, H, nshow):
    Hs = 0.5 * (H + H.T)
    out['grad'] = g
    out['H'] = Hs
    out['asym'] = float(np.max(np.abs(H - H.T)) / (np.max(np.abs(H)) + 1e-300))
    out['cond'] = float(np.linalg.cond(Hs))
    dg = np.abs(np.diag(Hs))
    if np.all(dg > 0):
        sc = 1.0 / np.sqrt(dg)
        out['cond_scaled'] = float(np.linalg.cond(Hs * sc[:, None] * sc[None, :]))      # invariant under a change of units
    else:
        out['cond_scaled'] = float('inf')
    ev = np.linalg.eigvalsh(Hs)
    out['posdef'] = bool(ev[0] > 0)
    if out['posdef']:
        Hinv = np.linalg.inv(Hs)
        out['sigma'] = np.sqrt(2.0 * np.diag(Hinv))
        out['newton'] = Hinv @ g
    return out


def ls_analysis(model, p, x, y, L, prior_idx=(), prior_val=(), prior_err=(), dy=None, pfloor=0.1):
    """Gradient, Hessian and implicit-function sensitivities of an ordinary (possibly correlated, possibly
    prior-augmented) least-squares fit at the point p."""
    p = np.asarray(p, dtype=float)
    y = np.asarray(y, dtype=float)
    pv = np.asarray(prior_val, dtype=float)
    pe_ = np.asarray(prior_err, dtype=float)
    k = len(p)

    def grad(pp, yy=y, pr=pv):
        return cgrad(lambda q: chi2_ls(model, q, x, yy, L, prior_idx, pr, pe_), pp)
    g = grad(p)
    H, dis = richardson_jac(grad, p, _steps(p, floor=pfloor))
    H2, _ = richardson_jac(grad, p, 0.5 * _steps(p, floor=pfloor))
    ystep = np.asarray(dy, dtype=float) if dy is not None else 1e-3 * np.maximum(np.abs(y), 1e-3)
    My = linear_jac(lambda yy: grad(p, yy=yy), y, ystep)
    out = dict(richardson_disagreement=dis)
    _finish(out, g, H, k)
    out['My'] = My
    out['Sy'] = -np.linalg.solve(out['H'], My)
    if len(prior_idx):
        Mp = linear_jac(lambda pr: grad(p, pr=pr), pv, pe_)
        out['Sp'] = -np.linalg.solve(out['H'], Mp)
    else:
        out['Sp'] = np.zeros((k, 0))
    out['S_err'] = sensitivity_error(out, H, H2, np.hstack([out['Sy'], out['Sp']]))
    out['chi2'] = float(np.real(chi2_ls(model, p, x, y, L, prior_idx, pv, pe_)))
    return out


def tls_analysis(model, beta, xplus, x, dx, y, dy, pfloor=0.1):
    """Total least squares: unknowns z = (beta, xi); sensitivities of z with respect to x and y."""
    beta = np.asarray(beta, dtype=float)
    x = np.asarray(x, dtype=float)
    dx = np.asarray(dx, dtype=float)
    y = np.asarray(y, dtype=float)
    dy = np.asarray(dy, dtype=float)
    k = len(beta)
    shape = x.shape
    m = x.size
    z0 = np.concatenate([beta, np.asarray(xplus, dtype=float).ravel()])

    def grad(z, xx=x, yy=y):
        return cgrad(lambda q: chi2_tls(model, q[:k], q[k:].reshape(shape), xx, dx, yy, dy), z)
    g = grad(z0)
    steps = np.concatenate([_steps(beta, floor=pfloor), np.maximum(1e-3 * np.abs(x.ravel()), 1e-4)])
    H, dis = richardson_jac(grad, z0, steps)
    H2, _ = richardson_jac(grad, z0, 0.5 * steps)
    Mx = linear_jac(lambda xx: grad(z0, xx=xx.reshape(shape)), x.ravel(), dx.ravel())
    My = linear_jac(lambda yy: grad(z0, yy=yy), y, dy)
    out = dict(richardson_disagreement=dis)
    _finish(out, g, H, k)
    out['Sx'] = -np.linalg.solve(out['H'], Mx)
    out['Sy'] = -np.linalg.solve(out['H'], My)
    out['S_err'] = sensitivity_error(out, H, H2, np.hstack([out['Sx'], out['Sy']]))
    out['chi2'] = float(np.real(chi2_tls(model, beta, np.asarray(xplus, dtype=float).reshape(shape), x, dx, y, dy)))
    out['k'] = k
    out['m'] = m
    return out
