"""Reference model for the constant tables of property C20 (MUST NOT import pyerrors).

Everything is recomputed from the statement of the property with plain Python numbers:
  * permutation sign by inversion count (epsilon tensors), admissible index sets typed in;
  * 4x4 complex matrix algebra on nested lists of Python complex numbers (no numpy matmul), so the
    Clifford relations and the Grid tag table are judged by arithmetic that shares no code with
    the library's `@`;
  * the Grid tag grammar (Identity, Gamma5, Gamma<mu>, Gamma<mu>Gamma5, Sigma<mu><nu>) is parsed
    here; the 16 admissible tags are typed in below.
"""
import itertools

AXES = {'X': 0, 'Y': 1, 'Z': 2, 'T': 3}

GRID_TAGS = ['Identity', 'Gamma5', 'GammaX', 'GammaY', 'GammaZ', 'GammaT',
             'GammaXGamma5', 'GammaYGamma5', 'GammaZGamma5', 'GammaTGamma5',
             'SigmaXT', 'SigmaXY', 'SigmaXZ', 'SigmaYT', 'SigmaYZ', 'SigmaZT']

# tags a user might try that are NOT in the table (reversed sigma order, Grid's "Minus" family, case
# variants, products in the other order, whitespace, non-strings): all must be rejected
UNKNOWN_TAGS = ['', 'identity', 'gamma5', 'GAMMAX', 'gammaX', 'GammaXGammaY', 'Gamma5GammaX', 'SigmaTX', 'SigmaYX',
                'SigmaZX', 'SigmaTY', 'SigmaZY', 'SigmaTZ', 'SigmaXX', 'SigmaTT', 'MinusGammaX', 'MinusIdentity',
                'MinusSigmaXT', 'GammaX ', ' GammaX', 'Gamma', 'Sigma', 'GammaW', 'SigmaXW', 'Gamma5Gamma5',
                'GammaTGamma5Gamma5', None, 0, 5, 1.0, ('GammaX',), b'GammaX']


# ---- permutations ---------------------------------------------------------------------------
def perm_sign(t):
    """+1 / -1 for an even / odd arrangement of distinct entries (inversion count), 0 with a repetition."""
    t = list(t)
    if len(set(t)) != len(t):
        return 0
    inv = 0
    for a in range(len(t)):
        for b in range(a + 1, len(t)):
            if t[a] > t[b]:
                inv += 1
    return -1 if inv % 2 else 1


def eps_expected(t):
    """('value', sign) when every index lies in {1..r} or every index lies in {0..r-1} (r = rank = len(t)),
    ('raise', None) otherwise."""
    r = len(t)
    s = set(t)
    one_based = set(range(1, r + 1))
    zero_based = set(range(0, r))
    if s <= one_based or s <= zero_based:
        return 'value', perm_sign(t)
    return 'raise', None


def all_tuples(rank, lo=0, hi=4):
    return list(itertools.product(range(lo, hi + 1), repeat=rank))


# ---- 4x4 complex matrices as nested lists -----------------------------------------------------
def to_lists(a):
    """Anything indexable [i][j] with 4x4 entries -> nested lists of Python complex."""
    return [[complex(a[i][j]) for j in range(4)] for i in range(4)]


def mm(a, b):
    return [[sum(a[i][k] * b[k][j] for k in range(4)) for j in range(4)] for i in range(4)]


def add(a, b, fa=1, fb=1):
    return [[fa * a[i][j] + fb * b[i][j] for j in range(4)] for i in range(4)]


def scal(f, a):
    return [[f * a[i][j] for j in range(4)] for i in range(4)]


def dagger(a):
    return [[a[j][i].conjugate() for j in range(4)] for i in range(4)]


def eye(f=1):
    return [[complex(f if i == j else 0) for j in range(4)] for i in range(4)]


def same(a, b):
    """exact equality (entries are 0, +-1, +-i, +-1/2 multiples: every product / sum is exact in binary floating point)"""
    return all(a[i][j] == b[i][j] for i in range(4) for j in range(4))


def shape_ok(a):
    try:
        return len(a) == 4 and all(len(a[i]) == 4 for i in range(4))
    except Exception:
        return False


def grid_expected(tag, g, g5):
    """Matrix the tag denotes, built from the four gamma matrices g[0..3] (x, y, z, t) and g5 (nested lists);
    None for a tag outside the table."""
    if not isinstance(tag, str) or tag not in GRID_TAGS:
        return None
    if tag == 'Identity':
        return eye()
    if tag == 'Gamma5':
        return g5
    if tag.startswith('Sigma'):
        mu, nu = AXES[tag[5]], AXES[tag[6]]
        return scal(0.5, add(mm(g[mu], g[nu]), mm(g[nu], g[mu]), 1, -1))
    mu = AXES[tag[5]]
    if tag.endswith('Gamma5'):
        return mm(g[mu], g5)
    return g[mu]
