"""C09 - find_root and quad propagate errors exactly.

Oracles (closed forms, ref.rootint, validated against mpmath in setup):
  R1  find_root on families with explicit inverse: the returned observable must equal the dense
      linear propagation (ref.dense.propagate) of snapshots of d with the sensitivities
      -(df/dd_k)/(df/dx) typed analytically, the residual must vanish at the central values, and
      the result must equal the observable obtained by applying the explicit inverse with the
      (C01-judged) overloads.
  Q1  quad on integrands with explicit antiderivative, every subset of parameters and limits
      being observables: value from the antiderivative, gradient (int df/dp_k, -f(p,a), +f(p,b)).
  Q2  nothing is an observable: scipy's tuple, unchanged.
Monitors tapped on find_root and quad count the calls (deciding counters).
"""
import math

import numpy as np

from .. import taps, gen
from ..ctx import Skip, digest
from ..snap import snap, is_obs, obs_digest, any_digest
from ..compare import compare_obs
from ..ref import dense
from ..ref import rootint as ri

ID = 'C09'
LEVEL = 'exploration'
DECIDING = ['tap:find_root', 'tap:quad', 'roots_judged', 'integrals_judged', 'plain_number_integrals_judged', 'repeated_object_cases', 'histories_judged', 'function_histories_judged', 'degenerate_option_cases', 'scale_sweep_cases', 'coincidence_cases']
RULE = ('cases: find_root on 9 families (x^n-d, exp(ax)-d, a log x - d, tanh(ax)-d, monotone cubic; vector-valued d: d0 e^x - d1, d0 x^2 - d1, '
        'd0 x + d1 - d2, x^3 + d0 x - d1) with d given as Obs / list / array, entries on the same chains (identical / nested / overlapping '
        'lists, replica subsets), different ensembles or covariance inputs; quad on polynomial / exponential (also half line) / '
        'trigonometric integrands (also with scipy weight=cos|sin) x every subset of {parameters (none, some, all), lower limit, upper limit} being observables x '
        '{same, different ensembles, covariance inputs}, reversed limits, scipy options; the same observable (same object or equal copy) in two slots (parameter-parameter, parameter-limit, '
        'limit-limit; twice in a vector d); call histories with a twin input of equal names / lists / value; degenerate (falsy) option values epsabs=0 / epsrel=0 / wvar=0 / points=[] / full_output=0 together with integrals of size '
        '1e-12..1e-6 and hard integrands; scale sweeps (integrand x 10^k, data x 10^k); one integrand / residual function object used for 2-3 calls in a row '
        'with other parameter values, data and limits; non-trivial: root with non-constant sensitivity '
        'compared in its fluctuations; integral with >= 1 observable limit or >= 2 observable parameters; '
        'distinct = digest of (family, constants, operand data)')
ASSUMPTIONS = ['values: |x - x_exact| <= 1e-7 scale (fsolve) / 1e-9 int|f| (quadrature); sensitivities rtol 1e-6 (roots) / 1e-8 (integrals)',
               'replica means of the results are not part of the statement (the library stores a dummy function of them): counted, not judged',
               'closed forms validated against mpmath (30 digits) in setup; operands stay inside the domain of the inverse',
               'the explicit inverse is built with the overloads judged by C01']
BUDGET = {'quick': 45, 'thorough': 540}

PE = None
CTX = None


class CountMonitor(taps.Monitor):
    pass


# ------------------------------------------------------------------------------------------
# operands
def clipped(rng, n, mean, sigma):
    return np.clip(rng.normal(size=n), -2.5, 2.5) * sigma + mean


class Operands:
    """Observables with prescribed central region on a chosen layout class."""

    def __init__(self, rng, tier, layout):
        self.rng = rng
        self.tier = tier
        self.layout = layout              # 'same' | 'different' | 'covariance' | 'mixed'
        self.pool = list(gen.ENS_POOL)
        rng.shuffle(self.pool)
        self.base = None
        self.base_ens = self.pool[0]
        self.reps = gen.rand_reps(rng, 3, allow_bare=True)
        self.nmax = 30 if tier == 'quick' else int(rng.choice([30, 80, 200]))
        self.k = 0
        self.covdim = int(rng.integers(2, 4))
        self.cov_sig = gen.cov_matrix(rng, self.covdim)
        self.cov_used = 0

    def _mc(self, mean, sigma, ens, reps, base, relation):
        rng = self.rng
        tab = {}
        for r in reps:
            name = ens if r is None else '%s|%s' % (ens, r)
            if base is not None and name in base:
                cfgs = sorted(base[name])
                if relation == 'nested':
                    cfgs = sorted(rng.choice(cfgs, size=max(5, len(cfgs) * 2 // 3), replace=False).tolist())
                elif relation == 'overlapping':
                    k = max(1, len(cfgs) // 3)
                    step = cfgs[1] - cfgs[0]
                    cfgs = cfgs[k:] + [cfgs[-1] + step * (i + 1) for i in range(k)]
            else:
                n = int(rng.integers(6, self.nmax + 1))
                cfgs = [int(c) for c in gen.rand_idl(rng, n, str(rng.choice(gen.IDL_KINDS)), as_type='list')]
            x = clipped(rng, len(cfgs), mean, sigma)
            tab[name] = {int(c): float(v) for c, v in zip(cfgs, x)}
        forms = {n: str(rng.choice(['list', 'ndarray', 'native'])) for n in tab}
        return gen.table_to_obs(PE, tab, forms), tab

    def obs(self, mean, width):
        """An observable with central value near `mean`; per-configuration spread 0.04 * width."""
        rng = self.rng
        sigma = 0.04 * width
        lay = self.layout
        if lay == 'mixed':
            lay = str(rng.choice(['same', 'different', 'covariance']))
        self.k += 1
        if lay == 'covariance':
            # entries of one multi-dimensional covariance input (correlated), then independent ones
            if self.cov_used < self.covdim:
                if self.cov_used == 0:
                    self.cov_obs = PE.cov_Obs(np.zeros(self.covdim).tolist(), self.cov_sig * (0.02 * width) ** 2, 'cvS')
                o = self.cov_obs[self.cov_used] + mean
                self.cov_used += 1
                return o
            return PE.cov_Obs(mean, (0.02 * width) ** 2, 'cv%d' % self.k)
        if lay == 'different':
            ens = self.pool[(self.k - 1) % len(self.pool)]
            o, _ = self._mc(mean, sigma, ens, gen.rand_reps(rng, 2), None, None)
            return o
        # same chains
        if self.base is None:
            o, self.base = self._mc(mean, sigma, self.base_ens, self.reps, None, None)
            return o
        rel = str(rng.choice(['identical', 'identical', 'nested', 'overlapping']))
        reps = self.reps
        if len(reps) > 1 and rng.random() < 0.25:
            reps = sorted(rng.choice(reps, size=int(rng.integers(1, len(reps))), replace=False).tolist(), key=lambda r: (r is None, r))
        o, _ = self._mc(mean, sigma, self.base_ens, reps, self.base, rel)
        return o


LAYOUTS = ['same', 'different', 'covariance', 'mixed']


def as_ref(o):
    """snapshot of a library observable in the format of a dense reference result (no replica means)."""
    s = snap(o)
    return dict(value=s['value'], chains={c: (v[0], v[1], None) for c, v in s['chains'].items()},
                cov={n: v[1] for n, v in s['cov'].items()}, rew=s['rew'])


def split_safe(snaps):
    """Condition under which C01 promises independence of the split into intermediate operations: per
    ensemble, either all operands carry the same replica set or shared replicas have identical lists."""
    ens = sorted(set(c.split('|')[0] for s in snaps for c in s['chains']))
    for e in ens:
        sets = [frozenset(c for c in s['chains'] if c.split('|')[0] == e) for s in snaps]
        sets = [x for x in sets if x]
        if len(set(sets)) <= 1:
            continue
        for c in set().union(*sets):
            lists = [tuple(int(i) for i in s['chains'][c][0]) for s in snaps if c in s['chains']]
            if len(set(lists)) > 1:
                return False
    return True


def reference(ins, grads, f):
    snaps = [snap(x) for x in ins]
    ref = dense.propagate(snaps, [float(g) for g in grads], f)
    rmeans = {c: v[2] for c, v in ref['chains'].items()}
    ref['chains'] = {c: (v[0], v[1], None) for c, v in ref['chains'].items()}
    chains, union = dense.union_lists(snaps)
    wmax = max([1.0] + list(dense.weights(snaps, chains, union).values()))
    scale = dense.delta_scale(snaps, grads) * wmax
    return ref, scale, snaps, rmeans


def tidy_cancellations(got, ref, snaps, gabs, rtol):
    """Slots whose contributions cancel (the same observable in two slots, a = b) leave rounding residue of the size
    rtol * sum_k |g_k| max|input_k| on a chain / covariance input where the exact result is zero.  Such residue on BOTH sides is
    set to exactly zero before the field-by-field comparison (which scales by the result itself); the size of the slot terms,
    not an absolute number, decides what counts as residue.  Returns the snapshot of `got` to be compared."""
    g = snap(got)
    g = dict(g, chains=dict(g['chains']), cov=dict(g['cov']))
    for c in list(ref['chains']):
        term = sum(ga * (float(np.max(np.abs(s_['chains'][c][1]))) if c in s_['chains'] and len(s_['chains'][c][1]) else 0.0) for s_, ga in zip(snaps, gabs))
        if c in g['chains'] and term > 0:
            rd, gd = ref['chains'][c][1], g['chains'][c][1]
            if len(rd) == len(gd) and np.max(np.abs(rd), initial=0.0) <= rtol * term and np.max(np.abs(gd), initial=0.0) <= rtol * term:
                ref['chains'][c] = (ref['chains'][c][0], np.zeros(len(rd)), ref['chains'][c][2])
                g['chains'][c] = (g['chains'][c][0], np.zeros(len(gd)), g['chains'][c][2])
    for n in list(ref['cov']):
        term = sum(ga * float(np.max(np.abs(s_['cov'][n][1]))) for s_, ga in zip(snaps, gabs) if n in s_['cov'])
        if n in g['cov'] and term > 0:
            rg, gg = np.asarray(ref['cov'][n], dtype=float), g['cov'][n][1]
            if np.max(np.abs(rg), initial=0.0) <= rtol * term and np.max(np.abs(gg), initial=0.0) <= rtol * term:
                ref['cov'][n] = np.zeros(np.shape(rg))
                g['cov'][n] = (g['cov'][n][0], np.zeros(np.shape(gg)))
    return g


# ------------------------------------------------------------------------------------------
# find_root
def lib_residual(name, c):
    import autograd.numpy as anp
    if name == 'power':
        return lambda x, d: x ** c['n'] - d
    if name == 'exp':
        return lambda x, d: anp.exp(c['a'] * x) - d
    if name == 'log':
        return lambda x, d: c['a'] * anp.log(x) - d
    if name == 'tanh':
        return lambda x, d: anp.tanh(c['a'] * x) - d
    if name == 'cubic':
        return lambda x, d: x ** 3 + c['b'] * x - d
    if name == 'vec_ratio_exp':
        return lambda x, d: d[0] * anp.exp(x) - d[1]
    if name == 'vec_quadratic':
        return lambda x, d: d[0] * x ** 2 - d[1]
    if name == 'vec_linear':
        return lambda x, d: d[0] * x + d[1] - d[2]
    if name == 'vec_cubic':
        return lambda x, d: x ** 3 + d[0] * x - d[1]
    if name == 'vec_many':
        return lambda x, d: d[0] * x + sum(ri.MANY_WEIGHTS[k_] * d[k_] for k_ in range(1, ri.MANY_N))
    raise ValueError(name)


def explicit_inverse(name, c, d):
    """The inverse applied directly with the overloads of Obs."""
    def cardano(b, dd):
        s = np.sqrt(dd * dd / 4.0 + b ** 3 / 27.0)
        return (dd / 2.0 + s) ** (1.0 / 3.0) - (s - dd / 2.0) ** (1.0 / 3.0)
    if name == 'power':
        return d[0] ** (1.0 / c['n'])
    if name == 'exp':
        return np.log(d[0]) / c['a']
    if name == 'log':
        return np.exp(d[0] / c['a'])
    if name == 'tanh':
        return np.arctanh(d[0]) / c['a']
    if name == 'cubic':
        return cardano(c['b'], d[0])
    if name == 'vec_ratio_exp':
        return np.log(d[1] / d[0])
    if name == 'vec_quadratic':
        return np.sqrt(d[1] / d[0])
    if name == 'vec_linear':
        return (d[2] - d[1]) / d[0]
    if name == 'vec_cubic':
        return cardano(d[0], d[1])
    if name == 'vec_many':
        return -sum(ri.MANY_WEIGHTS[k_] * d[k_] for k_ in range(1, ri.MANY_N)) / d[0]
    raise ValueError(name)


def root_problem(rng, name):
    """constants and (mean, width) of every entry of d."""
    sgn = float(rng.choice([-1, 1]))
    if name == 'power':
        return {'n': int(rng.choice([2, 3, 4, 5]))}, [(float(rng.uniform(0.6, 4.0)), 1.0)]
    if name == 'exp':
        return {'a': sgn * float(rng.uniform(0.4, 2.0))}, [(float(rng.uniform(0.4, 4.0)), 0.8)]
    if name == 'log':
        return {'a': sgn * float(rng.uniform(0.5, 2.0))}, [(float(rng.uniform(-1.2, 1.2)), 1.0)]
    if name == 'tanh':
        return {'a': float(rng.uniform(0.5, 1.5))}, [(sgn * float(rng.uniform(0.15, 0.75)), 0.3)]
    if name == 'cubic':
        return {'b': float(rng.uniform(0.3, 2.0))}, [(sgn * float(rng.uniform(0.5, 3.0)), 1.0)]
    if name == 'vec_ratio_exp':
        return {}, [(float(rng.uniform(0.6, 2.0)), 0.8), (float(rng.uniform(0.6, 3.0)), 0.8)]
    if name == 'vec_quadratic':
        return {}, [(float(rng.uniform(0.6, 2.0)), 0.8), (float(rng.uniform(0.6, 3.0)), 0.8)]
    if name == 'vec_linear':
        return {}, [(sgn * float(rng.uniform(0.6, 2.0)), 0.8), (float(rng.uniform(-2, 2)), 1.0), (float(rng.uniform(-2, 2)), 1.0)]
    if name == 'vec_cubic':
        return {}, [(float(rng.uniform(0.4, 2.0)), 0.5), (sgn * float(rng.uniform(0.5, 3.0)), 1.0)]
    if name == 'vec_many':
        return {}, [(sgn * float(rng.uniform(0.6, 2.0)), 0.8)] + [(float(rng.uniform(-2, 2)), 1.0) for _ in range(ri.MANY_N - 1)]
    raise ValueError(name)


def shared(rng, o, allow_shift=True):
    """the same object (60%), an equal copy in a different object with another tag (25%), or a copy shifted by 1e-12 (15%)"""
    r = rng.random()
    if r < 0.6:
        return o
    c = 1.0 * o if (r < 0.85 or not allow_shift) else o + 1e-12
    c.tag = 'copy'
    return c


def case_root(ctx, rng, name, layout, repeat=None):
    pe = PE
    nd, res, inv, sens = ri.ROOTS[name]
    c, spec = root_problem(rng, name)
    if ROOT_SCALE[0] is not None:
        fac = {'power': [0], 'exp': [0], 'vec_quadratic': [0, 1], 'vec_ratio_exp': [0, 0], 'vec_linear': [0, 1, 1]}[name]
        spec = [(m_ * ROOT_SCALE[0][f_], w_ * ROOT_SCALE[0][f_]) for (m_, w_), f_ in zip(spec, fac)]
        ctx.cell('root_scale', name, *[int(round(math.log10(ROOT_SCALE[0][f_]))) for f_ in sorted(set(fac))])
    if 'root' in SHARED:
        c = dict(SHARED['root'][0])
    ops = Operands(rng, ctx.tier, layout)
    if repeat is not None:
        spec[repeat[1]] = spec[repeat[0]]
    d = [ops.obs(m, w) for m, w in spec]
    if ZERO_MEAN is not None:
        for k_ in ZERO_MEAN:
            d[k_] = d[k_] - d[k_].value
    if FIRST_TINY[0] is not None:
        d[0] = d[0] * (FIRST_TINY[0] / d[0].value)          # central value and fluctuations of the first entry scaled to 1e-6 .. 1e-13
        ctx.cell('find_root_first_entry', name, int(round(math.log10(abs(FIRST_TINY[0])))))
        ctx.cell('find_root_zero_mean', name)
    if repeat is not None:
        # the same observable occupies two slots of d: the total derivative is the sum of the slot derivatives
        d[repeat[1]] = shared(rng, d[repeat[0]])
        ctx.cell('find_root_repeat', name, '%d%d' % repeat, 'same_object' if d[repeat[1]] is d[repeat[0]] else 'equal_copy')
        ctx.count('repeated_object_cases')
    dv = [o.value for o in d]
    try:
        x_exact = inv(dv, c)
        s_exact = sens(dv, c, x_exact)
    except (ValueError, ZeroDivisionError):
        raise Skip()
    if not np.isfinite(x_exact) or not all(np.isfinite(s_exact)):
        raise Skip()
    guess = x_exact * (1.0 + float(rng.uniform(-0.25, 0.25))) if abs(x_exact) > 1e-3 else 0.1
    if rng.random() < 0.2:
        guess = np.float64(guess)
    func = lib_residual(name, c) if 'root' not in SHARED else SHARED['root'][1]
    if 'root' not in SHARED and rng.random() < 0.3:
        # spectators: entries of d the residual does not use (a whole parameter vector handed over, a function of some entries):
        # their sensitivity is exactly zero and the root is unchanged.  They live on the chains of d[0] (so no name depends on them).
        npad = int(rng.choice([1, 1, 2]))
        core, full, keep = list(d), list(d), list(range(len(d)))
        for _ in range(npad):
            pos = int(rng.choice([0, 0, len(full), int(rng.integers(0, len(full) + 1))]))
            full.insert(pos, float(rng.uniform(0.2, 0.9)) * core[0] + float(rng.uniform(-2, 2)))
            keep = [k_ + 1 if k_ >= pos else k_ for k_ in keep]
        base, nd_core = func, nd
        func = (lambda x, dd: base(x, [dd[i] for i in keep])) if nd_core > 1 else (lambda x, dd: base(x, dd[keep[0]]))
        inv_core, sens_core, res_core = inv, sens, res
        inv = lambda v, c_: inv_core([v[i] for i in keep], c_)
        res = lambda x, v, c_: res_core(x, [v[i] for i in keep], c_)
        s_full = [0.0] * len(full)
        for k_, i in enumerate(keep):
            s_full[i] = s_exact[k_]
        s_exact = s_full
        d_core, d = d, full
        dv = [o.value for o in d]
        nd = len(full)
        ctx.cell('find_root_spectators', name, 'first-entry-unused' if 0 not in keep else 'later-entry-unused', npad)
        ctx.count('spectator_cases')
    else:
        d_core = d
    if nd == 1:
        form = str(rng.choice(['Obs', 'list', 'array']))
        arg = d[0] if form == 'Obs' else ([d[0]] if form == 'list' else np.array([d[0]]))
    else:
        form = str(rng.choice(['list', 'array']))
        arg = list(d) if form == 'list' else np.array(d)
    ctx.cell('find_root', name, 'vector' if nd > 1 else 'scalar', layout, form)
    before = any_digest(arg)
    got = pe.roots.find_root(arg, func, guess=guess) if rng.random() < 0.8 else pe.roots.find_root(arg, func, guess)
    if any_digest(arg) != before:
        ctx.count('arguments_modified_by_call:find_root')
    ctx.count('roots_judged')
    mech = 'find_root:%s-d' % ('vector' if nd > 1 else 'scalar')
    what = '%s %r layout=%s form=%s' % (name, c, layout, form)
    if not is_obs(got):
        ctx.ev()
        ctx.violation(mech + ':result-type', {'what': what, 'type': type(got).__name__})
        return
    # the central value is the number the solver returns for the same function, guess and data (a deterministic call): any
    # rescaling of it in the construction of the observable shows here at the level of rounding, whatever the size of the data
    import scipy.optimize
    d_arr = np.vectorize(lambda o_: o_.value)(np.array(arg))
    solver = float(scipy.optimize.fsolve(func, guess, d_arr)[0])
    ctx.close(got.value, solver, mech + ':value-differs-from-the-solver-result', what, rtol=4 * np.finfo(float).eps, atol=1e-300)
    # residual at the central values
    scale_x = max(abs(x_exact), 1e-3)
    fx = (res(x_exact * (1 + 1e-6), dv, c) - res(x_exact * (1 - 1e-6), dv, c)) / (2e-6 * x_exact) if x_exact != 0 else 1.0
    ctx.close(res(got.value, dv, c), 0.0, mech + ':residual-not-zero-at-central-values', what, rtol=0, atol=1e-7 * abs(fx) * scale_x + 1e-13 * max([abs(v_) for v_ in dv] + [1e-300]))
    # dense propagation with the analytic sensitivities
    ref, scale, snaps, rmeans = reference(d, s_exact, lambda v: inv(list(v), c))
    # natural size of a sensitivity (root / datum) as floor for slots whose own sensitivity vanishes (e.g. -x/d0 at x = 0)
    # (the root is only known to 1e-7 scale_x, so a sensitivity proportional to it, like -x/d0, to 1e-7 scale_x/|d| = rtol x 0.1 scale_x/|d|)
    gabs = [max(abs(g_), 1e-1 * scale_x / max(abs(v_), 1e-300)) for g_, v_ in zip(s_exact, dv)]
    scale = max(scale, dense.delta_scale(snaps, gabs))
    gclean = tidy_cancellations(got, ref, snaps, gabs, 1e-6)
    t = ctx.trial()
    ok = compare_obs(t, gclean, ref, mech, scale=scale, rtol=1e-6, vtol=1e-7, what=what, value_scale=scale_x)
    if not ok and diagnose_root(ctx, got, d, s_exact, inv, c, mech, what):
        ctx.evaluations += t.evaluations          # the named cause replaces the field-by-field records
    else:
        ctx.absorb(t)
    # equal to the explicit inverse built with the overloads
    try:
        direct = explicit_inverse(name, c, d_core)
    except Exception:
        direct = None
    if direct is not None and (FIRST_TINY[0] is not None or ZERO_MEAN is not None) and name in ('cubic', 'vec_cubic'):
        ctx.count('explicit_inverse_not_compared_cancellation_in_cardano')      # (d/2 + s)^(1/3) - (s - d/2)^(1/3) cancels for tiny coefficients
    elif direct is not None and is_obs(direct) and not split_safe(snaps):
        ctx.count('explicit_inverse_not_compared_split_dependent_layout')
    elif direct is not None and is_obs(direct):
        dref = as_ref(direct)
        compare_obs(ctx, tidy_cancellations(got, dref, snaps, gabs, 1e-6), dref, mech + ':vs-explicit-inverse', scale=scale, rtol=1e-6, vtol=1e-7, what=what, value_scale=scale_x)
        ctx.count('explicit_inverse_compared')
        # telemetry: replica means
        gs = snap(got)
        ds = snap(direct)
        for cn in gs['chains']:
            if cn in ds['chains'] and abs(gs['chains'][cn][2] - ds['chains'][cn][2]) > 1e-6 * scale_x:
                ctx.count('root_replica_mean_differs_from_inverse_of_replica_mean')
                break
    moving = any(np.any(s['chains'][cn][1] != 0) for s in snaps for cn in s['chains']) or any(s['cov'] for s in snaps)
    if moving:
        ctx.nontrivial.add(digest('root', name, sorted(c.items()), dv, [sorted(s['chains']) for s in snaps]))
    if rng.random() < 0.3:
        decoy = [(-0.5 * x + 1.5 * x.value) if k_ == len(d) - 1 else x for k_, x in enumerate(d)]      # same names / lists / values, other data
        pe.roots.find_root(decoy[0] if (nd == 1 and form == 'Obs') else (list(decoy) if form != 'array' else np.array(decoy)), func, guess=guess)
        again = pe.roots.find_root(arg, func, guess=guess)
        ctx.count('histories_judged')
        ctx.require(is_obs(again) and obs_digest(again) == obs_digest(got), 'find_root:result-depends-on-call-history', {'what': what})
    ctx.sample({'call': 'find_root', 'family': name, 'constants': c, 'd': dv, 'layout': layout, 'form': form, 'guess': float(guess),
                'root': got.value, 'exact': x_exact, 'sensitivities': s_exact})


def diagnose_root(ctx, got, d, s_exact, inv, c, mech, what):
    """Name the cause when a simple hypothesis explains the observed fluctuations."""
    hyps = {'sensitivity-sign-flipped': [-s for s in s_exact]}
    if len(s_exact) > 1:
        hyps['sensitivities-in-reversed-order'] = list(s_exact)[::-1]
    for tag, g in hyps.items():
        t = ctx.trial()
        ref, scale, _, _ = reference(d, g, lambda v: inv(list(v), c))
        ref['value'] = got.value
        compare_obs(t, got, ref, mech, scale=scale, rtol=1e-6, vtol=1e-7, what=what)
        if not t.violations:
            ctx.violation(mech + ':' + tag, {'what': what})
            return True
    return False


# ------------------------------------------------------------------------------------------
# quad
def lib_integrand(name, c, npar):
    import autograd.numpy as anp
    if name == 'poly':
        def f(p, x):
            r = p[0]
            for k in range(1, npar):
                r = r + p[k] * x ** k
            return r
        return f
    if name == 'exp':
        if npar == 2:
            return lambda p, x: p[0] * anp.exp(-p[1] * x)
        return lambda p, x: p[0] * anp.exp(-p[1] * x) + p[2]
    if name == 'trig':
        return lambda p, x: p[0] * anp.sin(p[1] * x) + p[2] * anp.cos(c['w'] * x)
    raise ValueError(name)


SHARED = {}     # function objects shared by the calls of one history case: {'quad': (npar, constants, func), 'root': (constants, func)}


KNOBS = {'amp': 1.0, 'freq': None, 'wvar': None, 'hard': False, 'one_slot': False, 'narrow': None, 'slot_used': None}     # set by the option / scale kinds for the duration of one case


def amplitude_slots(name, npar):
    return set(range(npar)) if name == 'poly' else {0, 2}


def integral_problem(rng, name, half_line=False):
    npar, p, a, b, c = _integral_problem(rng, name, half_line)
    if KNOBS['freq'] is not None and name == 'trig':
        p[1] = KNOBS['freq']
    slots = sorted(k_ for k_ in amplitude_slots(name, npar) if k_ < npar)
    if KNOBS.get('one_slot') and slots:
        slots = [slots[int(rng.integers(0, len(slots)))]]          # tiny in ONE slot only, the others O(1)
        KNOBS['slot_used'] = slots[0]
    for k_ in slots:
        p[k_] *= KNOBS['amp']
    if KNOBS.get('narrow') is not None:
        a = a if abs(a) > 0.05 else 0.37
        b = a * (1.0 + KNOBS['narrow'])
    return npar, p, a, b, c


def _integral_problem(rng, name, half_line=False):
    sgn = float(rng.choice([-1, 1]))
    fixed = SHARED.get('quad')
    if name == 'poly':
        npar = int(rng.integers(1, 5)) if fixed is None else fixed[0]
        p = [float(rng.uniform(0.3, 2.0)) * float(rng.choice([-1, 1])) for _ in range(npar)]
        c = {}
    elif name == 'exp':
        npar = (2 if half_line else int(rng.choice([2, 3]))) if fixed is None else fixed[0]
        p = [sgn * float(rng.uniform(0.4, 2.0)), float(rng.uniform(0.4, 1.8))] + ([float(rng.uniform(-1, 1))] if npar == 3 else [])
        c = {}
    else:
        npar = 3
        p = [sgn * float(rng.uniform(0.4, 2.0)), float(rng.uniform(0.5, 2.0)), float(rng.uniform(-1.5, 1.5))]
        c = {'w': float(rng.uniform(0.5, 2.0))} if fixed is None else dict(fixed[1])
    a = float(rng.uniform(-1.0, 1.0))
    b = a + float(rng.uniform(0.5, 2.5))
    if half_line:
        b = math.inf
    elif rng.random() < 0.15:
        a, b = b, a                      # reversed orientation
    return npar, p, a, b, c


PSEL = ['none', 'some', 'all']


def case_quad(ctx, rng, name, psel, a_obs, b_obs, layout, half_line=False, weight=None, repeat=None, spectator=None, force_kw=None, coincide=None):
    import scipy.integrate
    pe = PE
    npar, p, a, b, c = integral_problem(rng, name, half_line)
    f, integral, dparam = ri.INTEGRANDS[name]
    if psel == 'none':
        mask = [False] * npar
    elif psel == 'all':
        mask = [True] * npar
    else:
        if npar == 1:
            raise Skip()
        k = int(rng.integers(1, npar))
        mask = [False] * npar
        for i in rng.choice(npar, size=k, replace=False):
            mask[int(i)] = True
    if half_line:
        b_obs = False
    src = dst = None
    if repeat is not None:
        # the same observable occupies two slots (parameter-parameter, parameter-limit, limit-limit)
        src = int(rng.integers(0, npar)) if name == 'poly' else 1
        if repeat == 'pp':
            if npar < 2:
                raise Skip()
            dst = int(rng.choice([k_ for k_ in range(npar) if k_ != src]))
            p[dst] = p[src]
            mask[src] = mask[dst] = True
        elif repeat == 'pa':
            mask[src] = True
            a_obs = True
            a = p[src]
            b = a + float(rng.uniform(0.5, 2.5))
        elif repeat == 'pb':
            mask[src] = True
            b_obs = True
            b = p[src]
            a = b - float(rng.uniform(0.5, 2.5))
        else:
            a_obs = b_obs = True
            b = a
    wvar = None
    if weight is not None:
        wvar = float(rng.uniform(0.6, 3.0)) if KNOBS['wvar'] is None else KNOBS['wvar']
        if a > b:
            a, b = b, a
    ops = Operands(rng, ctx.tier, layout)
    amps = amplitude_slots(name, npar) if not KNOBS.get('one_slot') else {KNOBS.get('slot_used')}
    pin = [ops.obs(v, max(abs(v), 0.3 * (KNOBS['amp'] if k_ in amps else 1.0))) if m else v for k_, (v, m) in enumerate(zip(p, mask))]
    ain = ops.obs(a, 1.0) if a_obs else a
    bin_ = ops.obs(b, 1.0) if b_obs else b
    if repeat == 'pp':
        pin[dst] = shared(rng, pin[src])
    elif repeat == 'pa':
        ain = shared(rng, pin[src])
    elif repeat == 'pb':
        bin_ = shared(rng, pin[src])
    elif repeat == 'ab':
        bin_ = shared(rng, ain, allow_shift=False)      # (an interval of width 1e-12 only tests the cancellation in the closed form)
    if repeat is not None:
        pair = {'pp': (pin[src], pin[dst] if dst is not None else None), 'pa': (pin[src], ain), 'pb': (pin[src], bin_), 'ab': (ain, bin_)}[repeat]
        ctx.cell('quad_repeat', name, repeat, 'same_object' if pair[0] is pair[1] else 'equal_copy')
        ctx.count('repeated_object_cases')
    if coincide is not None:
        # coincidences of CENTRAL VALUES on different data, and central values exactly 0.0 with non-zero fluctuations
        def with_mean(o, t):
            return o - o.value + t
        obs_p = [k_ for k_, x in enumerate(pin) if is_obs(x)]
        if coincide == 'ab' and is_obs(ain) and is_obs(bin_):
            bin_ = with_mean(bin_, float(ain.value))                       # a == b in value, different objects: the integral is 0, its error is not
        elif coincide == 'pp' and len(obs_p) >= 2:
            tgt = float(pin[1].value) if name != 'poly' else float(pin[obs_p[0]].value)
            for k_ in obs_p:
                pin[k_] = with_mean(pin[k_], tgt)
        elif coincide == 'pa' and obs_p and is_obs(ain):
            ain = with_mean(ain, float(pin[obs_p[-1]].value))
            if is_obs(bin_):
                bin_ = with_mean(bin_, float(ain.value) + 1.3)
            elif not math.isinf(bin_):
                bin_ = float(ain.value) + 1.3
        elif coincide == 'zero_amplitude' and obs_p and obs_p[0] == 0:
            pin[0] = with_mean(pin[0], 0.0)                                # amplitude exactly 0.0: integral 0, derivative with respect to it not
        elif coincide == 'zero_limit' and (is_obs(ain) or is_obs(bin_)):
            if is_obs(ain):
                ain = with_mean(ain, 0.0)
                if not is_obs(bin_) and not math.isinf(bin_):
                    bin_ = 1.1
                elif is_obs(bin_):
                    bin_ = with_mean(bin_, 1.1)
            else:
                bin_ = with_mean(bin_, 0.0)
                ain = -0.9 if not is_obs(ain) else ain
        else:
            raise Skip()
        ctx.cell('quad_coincidence', name, coincide)
        ctx.count('coincidence_cases')
    pv = [x.value if is_obs(x) else x for x in pin]
    av = ain.value if is_obs(ain) else ain
    bv = bin_.value if is_obs(bin_) else bin_
    func = lib_integrand(name, c, npar) if 'quad' not in SHARED else SHARED['quad'][2]
    kw = {}
    r = rng.random()
    if r < 0.15:
        kw = {'epsabs': 1e-12, 'epsrel': 1e-12}
    elif r < 0.3:
        kw = {'full_output': 1}
    elif r < 0.4:
        kw = {'limit': 80}
    elif r < 0.55 and weight is None and not half_line and repeat != 'ab':
        lo, hi = min(av, bv), max(av, bv)
        kw = {'points': [lo + 0.37 * (hi - lo), lo + 0.81 * (hi - lo)][:int(rng.integers(1, 3))]}
    elif r < 0.65:
        kw = {'epsabs': 1e-11, 'epsrel': 1e-11, 'limit': 60}
    if force_kw is not None:
        kw = dict(force_kw)
        if kw.get('points') == 'auto':
            kw['points'] = [min(av, bv) + 0.41 * abs(bv - av)]
    if weight is not None:
        kw = dict(kw, weight=weight, wvar=wvar)
        kw.pop('points', None)
    # spectator: a parameter the integrand does not use, in the first or the last slot (derivative exactly zero)
    func_lib, pin_lib, sp = func, list(pin), None
    if spectator is not None:
        sp = ops.obs(float(rng.uniform(-2, 2)), 1.0) if rng.random() < 0.7 else float(rng.uniform(-2, 2))
        if spectator == 'first':
            pin_lib = [sp] + list(pin)
            func_lib = lambda p_, x_, _f=func: _f(p_[1:], x_)
        else:
            pin_lib = list(pin) + [sp]
            func_lib = lambda p_, x_, _f=func: _f(p_[:-1], x_)
        ctx.cell('quad_spectator', name, spectator, 'Obs' if is_obs(sp) else 'number')
        ctx.count('spectator_cases')
    sp_obs = is_obs(sp)
    any_obs_p = any(is_obs(x) for x in pin_lib)
    parg = pin_lib if rng.random() < 0.7 else (np.array(pin_lib, dtype=object) if any_obs_p else np.array(pin_lib))
    nobs = sum(mask) + int(a_obs) + int(b_obs) + int(sp_obs)
    ctx.cell('quad', name + ('_half_line' if half_line else '') + ('_weight_' + weight if weight else ''), 'p_' + psel, 'a_obs' if a_obs else 'a_num', 'b_obs' if b_obs else 'b_num',
             layout if nobs else 'numbers')
    for k_ in sorted(kw):
        ctx.cell('quad_option', k_)
    before = any_digest([parg, ain, bin_])
    got = pe.integrate.quad(func_lib, parg, ain, bin_, **kw)
    if any_digest([parg, ain, bin_]) != before:
        ctx.count('arguments_modified_by_call:quad')
    what = '%s p=%r a=%r b=%r mask=%r a_obs=%r b_obs=%r layout=%s kw=%r' % (name, pv, av, bv, mask, a_obs, b_obs, layout, sorted(kw))
    direct = scipy.integrate.quad(lambda x: func(np.array(pv), x), av, bv, **kw)
    if nobs == 0:
        ctx.count('plain_number_integrals_judged')
        mech = 'quad:plain-numbers'
        if not ctx.require(isinstance(got, tuple) and len(got) == len(direct), mech + ':not-scipy-tuple',
                           {'what': what, 'type': type(got).__name__, 'len': len(got) if isinstance(got, tuple) else None}):
            return
        if not ctx.require(isinstance(got[0], float) and not is_obs(got[0]), mech + ':value-not-a-float', {'type': type(got[0]).__name__}):
            return
        ctx.equal(got[0], direct[0], mech + ':value-differs-from-scipy', what)
        ctx.equal(got[1], direct[1], mech + ':abserr-differs-from-scipy', what)
        if len(direct) > 2:
            ctx.equal(sorted(got[2]), sorted(direct[2]), mech + ':infodict-differs-from-scipy', what)
            ctx.equal(got[2].get('neval'), direct[2].get('neval'), mech + ':infodict-differs-from-scipy', what)
        exact0 = integral(pv, av, bv, c) if weight is None else ri.weighted_integral(name, pv, av, bv, c, weight, wvar)
        vrt, _, eab = quadrature_contract(kw, math.isinf(bv))
        if not math.isinf(bv) and av != bv:
            vrt += 20 * np.finfo(float).eps * max(abs(av), abs(bv)) / abs(bv - av)
        ctx.close(got[0], exact0, mech + ':value-differs-from-antiderivative', what, rtol=vrt, atol=eab, scale=abs_integral(f, pv, av, bv, c))
        ctx.nontrivial.add(digest('plain', name, pv, av, bv, sorted(kw)))
        return
    ctx.count('integrals_judged')
    mech = 'quad'
    if not ctx.require(isinstance(got, tuple) and len(got) == len(direct), mech + ':result-not-a-tuple-like-scipy',
                       {'what': what, 'type': type(got).__name__, 'len': len(got) if isinstance(got, tuple) else None}):
        return
    res = got[0]
    if not ctx.require(is_obs(res), mech + ':first-element-not-Obs', {'type': type(res).__name__}):
        return
    ctx.equal(got[1], direct[1], mech + ':abserr-differs-from-scipy', what)
    ins = [x for x in pin_lib if is_obs(x)] + ([ain] if a_obs else []) + ([bin_] if b_obs else [])
    if weight is None:
        grads = ri.gradient(name, pv, av, bv, c, mask, a_obs, b_obs)
    else:
        grads = ri.weighted_gradient(name, pv, av, bv, c, mask, a_obs, b_obs, weight, wvar)

    if sp_obs:
        grads = ([0.0] + list(grads)) if spectator == 'first' else (list(grads[:sum(mask)]) + [0.0] + list(grads[sum(mask):]))

    def val(v):
        vv = list(v)
        if sp_obs:
            vv.pop(0 if spectator == 'first' else sum(mask))
        pp = [vv.pop(0) if m else x for x, m in zip(pv, mask)]
        aa = vv.pop(0) if a_obs else av
        bb = vv.pop(0) if b_obs else bv
        return integral(pp, aa, bb, c) if weight is None else ri.weighted_integral(name, pp, aa, bb, c, weight, wvar)
    ref, scale, snaps, rmeans = reference(ins, grads, val)
    iscale = abs_integral(f, pv, av, bv, c)
    gabs = [abs(g_) for g_ in grads]
    t = ctx.trial()
    vrt, grt, eab = quadrature_contract(kw, math.isinf(bv))
    if not math.isinf(bv) and av != bv:
        # conditioning with respect to the limits: the width b - a (and every node a + t (b - a)) carries the rounding of a and b
        kappa_lim = 20 * np.finfo(float).eps * max(abs(av), abs(bv)) / abs(bv - av)
        vrt, grt = vrt + kappa_lim, grt + kappa_lim
    if eab:
        # absolute part of the requested accuracy: on the value and on every derivative integral
        iscale = iscale + eab / vrt
        scale = scale + eab * dense.delta_scale(snaps, [1.0] * len(snaps)) / grt
    ok = compare_obs(t, tidy_cancellations(res, ref, snaps, gabs, grt), ref, mech, scale=scale, rtol=grt, vtol=vrt, what=what, value_scale=iscale)
    named = False
    if not ok:
        hyp = {}
        if weight is not None and sp is None:
            # hypotheses that name the cause: parameter terms / limit terms computed without the weight function
            unw = ri.gradient(name, pv, av, bv, c, mask, a_obs, b_obs)
            npo = sum(mask)
            hyp['parameter-terms-ignore-the-weight-options'] = list(unw[:npo]) + list(grads[npo:])
            hyp['limit-terms-ignore-the-weight-function'] = list(grads[:npo]) + list(unw[npo:])
            hyp['parameter-and-limit-terms-ignore-the-weight-options'] = list(unw)
        if SHARED.get('first_pv') is not None and weight is None and sp is None and len(SHARED['first_pv']) == len(pv):
            stale = ri.gradient(name, SHARED['first_pv'], av, bv, c, mask, False, False)
            hyp['parameter-terms-use-the-parameter-values-of-an-earlier-call-with-the-same-function-object'] = list(stale) + list(grads[sum(mask):])
        if len(set(id(x) for x in ins)) < len(ins):
            last = {id(x): k_ for k_, x in enumerate(ins)}
            hyp['derivatives-of-an-observable-in-several-slots-overwritten-instead-of-summed'] = [g_ if last[id(x)] == k_ else 0.0 for k_, (x, g_) in enumerate(zip(ins, grads))]
        named = diagnose_quad(ctx, res, ins, grads, val, sum(mask) + int(sp_obs), a_obs, b_obs, mech, what, extra=hyp)
    if named:
        ctx.evaluations += t.evaluations      # the named cause replaces the field-by-field records of the fluctuations
        for v in t.violations:
            if v['mechanism'].endswith(':value'):
                ctx.violation(v['mechanism'], v['detail'])
    else:
        ctx.absorb(t)
    if int(a_obs) + int(b_obs) >= 1 or sum(mask) >= 2:
        ctx.nontrivial.add(digest('quad', name, pv, av, bv, mask, a_obs, b_obs, [sorted(s['chains']) + sorted(s['cov']) for s in snaps]))
    if rng.random() < 0.3 and ins:
        x0 = ins[-1]
        twin = -0.5 * x0 + 1.5 * x0.value                      # same names / lists / value, other data
        swap = lambda v: twin if v is x0 else v
        pe.integrate.quad(func_lib, [swap(v) for v in pin_lib], swap(ain), swap(bin_), **kw)
        again = pe.integrate.quad(func_lib, parg, ain, bin_, **kw)
        ctx.count('histories_judged')
        ctx.require(is_obs(again[0]) and obs_digest(again[0]) == obs_digest(res), 'quad:result-depends-on-call-history', {'what': what})
    if 'quad' in SHARED and SHARED.get('first_pv') is None:
        SHARED['first_pv'] = list(pv)
    ctx.sample({'call': 'quad', 'weight': weight, 'wvar': wvar, 'family': name, 'p': pv, 'a': av, 'b': bv, 'observable_parameters': mask, 'a_obs': a_obs, 'b_obs': b_obs,
                'layout': layout, 'options': kw, 'value': res.value, 'exact': ref['value'], 'gradient': grads})


def case_quad_other_weight(ctx, rng, which):
    """weights other than cos / sin with an observable limit: the derivative with respect to the limit needs the weight
    function; the only admissible outcome is a refusal (NotImplementedError)."""
    pe = PE
    npar, p, a, b, c = integral_problem(rng, 'poly')
    if a > b:
        a, b = b, a
    ops = Operands(rng, ctx.tier, 'same')
    ain = ops.obs(a, 1.0) if which in ('a', 'ab') else a
    bin_ = ops.obs(b, 1.0) if which in ('b', 'ab') else b
    weight, wvar = [('alg', (0.5, 0.3)), ('alg-loga', (0.2, 0.4)), ('cauchy', 0.5 * (a + b) + 0.1)][int(rng.integers(0, 3))]
    ctx.cell('quad', 'poly_weight_' + weight, 'limits_' + which)
    ctx.ev()
    try:
        got = pe.integrate.quad(lib_integrand('poly', c, npar), p, ain, bin_, weight=weight, wvar=wvar)
    except NotImplementedError:
        ctx.count('other_weight_with_observable_limit_refused')
        ctx.nontrivial.add(digest('other-weight', weight, p, a, b, which))
        return
    ctx.violation('quad:limit-terms-ignore-the-weight-function', {'weight': weight, 'wvar': wvar, 'limits': which,
                                                                   'note': 'returned a result although the limit term needs the weight function',
                                                                   'result': repr(got[0])[:80]})


def case_root_zero(ctx, rng, name):
    """data with central value exactly 0.0 and non-zero fluctuations (also in the first slot, which the library divides by)"""
    global ZERO_MEAN
    try:
        ZERO_MEAN = {'tanh': [0], 'vec_linear': [1, 2], 'cubic': [0], 'vec_cubic': [1]}[name]
        ctx.count('coincidence_cases')
        case_root(ctx, rng, name, str(rng.choice(LAYOUTS)))
    finally:
        ZERO_MEAN = None


ZERO_MEAN = None
FIRST_TINY = [None]


def case_root_first_entry(ctx, rng, name, how):
    """the FIRST entry of d (the one the library's value function divides by) of tiny absolute size or exactly 0.0 while the root and the
    other entries are O(1) / well defined"""
    global ZERO_MEAN
    try:
        if how == 'zero':
            ZERO_MEAN = [0]
        else:
            FIRST_TINY[0] = float(rng.choice([-1, 1]) if name in ('tanh', 'cubic') else 1) * float(10.0 ** rng.integers(-13, -5)) * float(rng.uniform(1, 9))
        ctx.count('first_entry_cases')
        case_root(ctx, rng, name, str(rng.choice(LAYOUTS)))
    finally:
        ZERO_MEAN = None
        FIRST_TINY[0] = None


def case_root_plain_numpy(ctx, rng, where):
    """documented rejection: residual functions have to use autograd.numpy.  A plain numpy function applied to d is reported with the
    documented message, one applied to x fails inside the differentiation; in neither case may a result come back."""
    pe = PE
    ops = Operands(rng, ctx.tier, str(rng.choice(LAYOUTS)))
    d = ops.obs(float(rng.uniform(0.6, 3.0)), 0.8)
    func = (lambda x, dd: x ** 2 - np.sqrt(dd)) if where == 'd' else (lambda x, dd: np.exp(x) - dd)
    ctx.cell('find_root_plain_numpy', where)
    ctx.count('plain_numpy_cases')
    try:
        got = pe.roots.find_root(d, func, guess=1.0)
    except Exception as e:
        # a refusal is admissible (older autograd / numpy combinations cannot trace plain numpy functions)
        ctx.count('plain_numpy_rejected:' + type(e).__name__)
        if where == 'd':
            ctx.require('autograd.numpy' in str(e), 'find_root:plain-numpy-on-d-not-reported-with-the-documented-message', {'error': repr(e)[:200]})
        return
    # with the installed autograd plain numpy ufuncs are traced: then the result has to be the right one
    ctx.count('plain_numpy_accepted')
    dv = float(d.value)
    x_exact, sens_ = (dv ** 0.25, dv ** 0.25 / (4 * dv)) if where == 'd' else (math.log(dv), 1.0 / dv)
    inv_ = (lambda v: v[0] ** 0.25) if where == 'd' else (lambda v: math.log(v[0]))
    ref, scale, snaps, _ = reference([d], [sens_], inv_)
    compare_obs(ctx, got, ref, 'find_root:plain-numpy-residual', scale=scale, rtol=1e-6, vtol=1e-7, what='numpy function on ' + where, value_scale=abs(x_exact))
    ctx.nontrivial.add(digest('plainnumpy', where, dv))


def case_function_history(ctx, rng, what, name):
    """ONE function object (integrand / residual defined once) is used for 2-3 calls in a row with different central parameter
    values, different data and different limits; every call is judged by its own closed form (a result that remembers anything of
    an earlier call with the same function object - cached derivative wrappers, closures over earlier values - is wrong)."""
    ncalls = int(rng.integers(2, 4))
    ctx.cell('function_history', what, name, ncalls)
    try:
        if what == 'quad':
            npar, _, _, _, c = integral_problem(rng, name)
            if name != 'poly':
                npar = 3 if name == 'trig' else int(rng.choice([2, 3]))
            SHARED['quad'] = (npar, c, lib_integrand(name, c, npar))
            for k_ in range(ncalls):
                psel = str(rng.choice(['some', 'all', 'all'])) if npar > 1 else 'all'
                case_quad(ctx, rng, name, psel, bool(rng.integers(0, 2)), bool(rng.integers(0, 2)), str(rng.choice(['same', 'different', 'covariance'])))
        else:
            c, _ = root_problem(rng, name)
            SHARED['root'] = (c, lib_residual(name, c))
            for k_ in range(ncalls):
                case_root(ctx, rng, name, str(rng.choice(LAYOUTS)))
        ctx.count('function_histories_judged')
    finally:
        SHARED.clear()


def quadrature_contract(kw, infinite):
    """(rtol_value, rtol_gradient, epsabs) that the numerical quadrature can be held to.
    Finite ranges of the analytic integrands used here: the 21-point Gauss-Kronrod rule converges to rounding, 1e-12 / 1e-11 of
    int|f|.  Infinite ranges (QAGI): the routine is only accurate to what the options request, max(epsabs, epsrel |I|)
    (default 1.49e-8 each), and its own error estimate is not a bound (observed: reported 1.2e-12, actual 2.4e-9 = 2.2e-8 |I| for
    p0 exp(-p1 x) on [a, inf)); the tolerance is 10 x the requested accuracy.  The same contract is used for the deliberately
    hard (high-frequency) integrands of the option rows on finite ranges."""
    if not infinite and not KNOBS['hard']:
        return 1e-12, 1e-11, 0.0        # pass 4: was 1e-9 / 1e-8; Gauss-Kronrod on these analytic integrands converges to rounding
    eabs = float(kw.get('epsabs', 1.49e-8))
    erel = float(kw.get('epsrel', 1.49e-8))
    return max(1e-9, 10 * erel), max(1e-8, 10 * erel), 10 * eabs


OPTION_ROWS = {
    # valid but degenerate (falsy) option values and tiny integrals: name -> (family, half_line, amplitude decades, frequency, forced options, weight)
    'epsabs0_halfline': ('exp', True, (-12, -6), None, [{'epsabs': 0}, {'epsabs': 0.0, 'epsrel': 1e-9}, {'epsabs': 0, 'limit': 200}], None),
    'epsabs0_trig': ('trig', False, (-12, -6), (5.0, 9.0), [{'epsabs': 0}, {'epsabs': 0, 'epsrel': 1e-10}], None),
    'epsrel0_halfline': ('exp', True, (0, 0), None, [{'epsrel': 0, 'epsabs': 1e-12}, {'epsrel': 0.0, 'epsabs': 1e-11, 'limit': 200}], None),
    'wvar0': ('poly', False, (0, 0), None, [{}], 'weight'),
    'empty_or_false': ('exp', False, (-3, 3), None, [{'points': []}, {'full_output': 0}, {'full_output': False, 'epsabs': 0}], None),
}


def case_quad_option(ctx, rng, row):
    fam, half, dec, freq, kws, weight = OPTION_ROWS[row]
    try:
        KNOBS['amp'] = float(10.0 ** rng.integers(dec[0], dec[1] + 1))
        KNOBS['freq'] = None if freq is None else float(rng.uniform(*freq))
        KNOBS['hard'] = freq is not None
        kwf = dict(kws[int(rng.integers(0, len(kws)))])
        w = None
        if weight:
            w = str(rng.choice(['cos', 'sin']))
            KNOBS['wvar'] = 0 if rng.random() < 0.5 else 0.0
        ctx.cell('quad_option_row', row, *sorted('%s=%r' % kv for kv in kwf.items()))
        ctx.count('degenerate_option_cases')
        psel = str(rng.choice(['none', 'some', 'all', 'all']))
        a_obs, b_obs = bool(rng.integers(0, 2)), bool(rng.integers(0, 2))
        case_quad(ctx, rng, fam, psel, a_obs, b_obs, str(rng.choice(['same', 'different', 'covariance'])), half_line=half, weight=w, force_kw=kwf)
    finally:
        KNOBS.update(amp=1.0, freq=None, wvar=None, hard=False, one_slot=False, narrow=None, slot_used=None)


def case_quad_scale(ctx, rng, fam):
    """the same kind of problem with the integrand multiplied by 10^k, k = -12..6 (all judgements are relative to the scale)"""
    try:
        KNOBS['amp'] = float(10.0 ** rng.integers(-12, 7))
        ctx.cell('quad_scale', fam, int(round(math.log10(KNOBS['amp']))))
        ctx.count('scale_sweep_cases')
        case_quad(ctx, rng, fam, str(rng.choice(PSEL)), bool(rng.integers(0, 2)), bool(rng.integers(0, 2)), str(rng.choice(['same', 'different', 'covariance'])))
    finally:
        KNOBS.update(amp=1.0, freq=None, wvar=None, hard=False, one_slot=False, narrow=None, slot_used=None)


def case_quad_near(ctx, rng, fam, which):
    """near, not at, special values: limits that differ by 1e-9 .. 1e-4 relative (different objects); an amplitude tiny in one slot only"""
    try:
        if which == 'narrow':
            KNOBS['narrow'] = float(rng.choice([-1, 1])) * float(10.0 ** rng.integers(-9, -3))
            a_obs, b_obs = True, True
        else:
            KNOBS['amp'] = float(10.0 ** rng.integers(-12, -5))
            KNOBS['one_slot'] = True
            a_obs, b_obs = bool(rng.integers(0, 2)), bool(rng.integers(0, 2))
        ctx.cell('quad_near', fam, which)
        ctx.count('near_special_cases')
        case_quad(ctx, rng, fam, 'all', a_obs, b_obs, str(rng.choice(['same', 'different', 'covariance'])))
    finally:
        KNOBS.update(amp=1.0, freq=None, wvar=None, hard=False, one_slot=False, narrow=None, slot_used=None)


ROOT_SCALE = [None]


def case_root_scale(ctx, rng, name):
    """data multiplied by 10^k (k = -8..8; independent factors where the family allows)"""
    try:
        ROOT_SCALE[0] = [float(10.0 ** rng.integers(-8, 9)) for _ in range(3)]
        ctx.count('scale_sweep_cases')
        case_root(ctx, rng, name, str(rng.choice(LAYOUTS)))
    finally:
        ROOT_SCALE[0] = None


def abs_integral(f, p, a, b, c):
    """int |f| (crude, 64 points) as the scale for the comparison of values."""
    lo, hi = (a, b) if a <= b else (b, a)
    if math.isinf(hi):
        hi = lo + 40.0 / p[1]
    xs = np.linspace(lo, hi, 65)
    return float(np.mean([abs(f(p, float(x), c)) for x in xs]) * (hi - lo)) + 1e-300


def diagnose_quad(ctx, res, ins, grads, val, npobs, a_obs, b_obs, mech, what, extra=None):
    hyps = dict(extra or {})
    k = npobs
    if a_obs:
        g = list(grads)
        g[k] = -g[k]
        hyps['lower-limit-term-sign'] = g
    if b_obs:
        g = list(grads)
        g[k + int(a_obs)] = -g[k + int(a_obs)]
        hyps['upper-limit-term-sign'] = g
    if a_obs and b_obs:
        g = list(grads)
        g[k], g[k + 1] = -g[k + 1], -g[k]
        hyps['limit-terms-use-the-other-limit'] = g
    if len(grads) > 1:
        hyps['gradient-in-different-order'] = list(grads)[::-1]
    for tag, g in hyps.items():
        t = ctx.trial()
        ref, scale, _, _ = reference(ins, g, val)
        ref['value'] = res.value
        compare_obs(t, res, ref, mech, scale=scale, rtol=1e-8, vtol=1e-9, what=what)
        if not t.violations:
            ctx.violation(mech + ':' + tag, {'what': what})
            return True
    return False


def instrument(ctx):
    """count how often every judgement (mechanism) is evaluated: counters 'judged:<mechanism>' in the evidence; trial contexts
    are instrumented as well (their counters arrive when the trial is absorbed)."""
    if getattr(ctx, '_vmon_instrumented', False):
        return ctx
    ctx._vmon_instrumented = True
    close, equal, require, trial = ctx.close, ctx.equal, ctx.require, ctx.trial

    def c_close(got, exp, mechanism, *a, **k):
        ctx.count('judged:' + mechanism)
        return close(got, exp, mechanism, *a, **k)

    def c_equal(got, exp, mechanism, *a, **k):
        ctx.count('judged:' + mechanism)
        return equal(got, exp, mechanism, *a, **k)

    def c_require(cond, mechanism, *a, **k):
        ctx.count('judged:' + mechanism)
        return require(cond, mechanism, *a, **k)

    def c_trial():
        return instrument(trial())
    ctx.close, ctx.equal, ctx.require, ctx.trial = c_close, c_equal, c_require, c_trial
    return ctx


# ------------------------------------------------------------------------------------------
def setup(ctx):
    global PE, CTX
    import pyerrors as pe
    PE = pe
    CTX = instrument(ctx)
    ri.self_check()
    taps.tap_function(pe.roots, 'find_root', CountMonitor())
    taps.tap_function(pe.integrate, 'quad', CountMonitor())


def teardown(ctx):
    taps.report(ctx)
    taps.remove_all()


def plan(tier):
    m = 1 if tier == 'quick' else 30
    p = []
    for name in ri.ROOTS:
        for lay in LAYOUTS:
            p.append(('root:%s:%s' % (name, lay), 15 * m))
    for name in ri.INTEGRANDS:
        for psel in PSEL:
            for a_obs in (0, 1):
                for b_obs in (0, 1):
                    if psel == 'none' and not a_obs and not b_obs:
                        p.append(('quad:%s:none:0:0:same' % name, 12 * m))
                        continue
                    for lay in ('same', 'different', 'covariance'):
                        p.append(('quad:%s:%s:%d:%d:%s' % (name, psel, a_obs, b_obs, lay), 6 * m))
    for psel in PSEL:
        for a_obs in (0, 1):
            p.append(('quadinf:%s:%d' % (psel, a_obs), 6 * m))
    for which in ('a', 'b', 'ab'):
        p.append(('quadother:%s' % which, 3 * m))
    for name in ri.INTEGRANDS:
        for pos in ('first', 'last'):
            p.append(('quadspec:%s:%s' % (name, pos), 9 * m))
    p.append(('quadmany', 10 * m))
    for fam in ri.INTEGRANDS:
        for co in ('ab', 'pp', 'pa', 'zero_amplitude', 'zero_limit'):
            p.append(('quadcoinc:%s:%s' % (fam, co), 5 * m))
    for name in ('tanh', 'vec_linear', 'cubic', 'vec_cubic'):
        p.append(('rootzero:%s' % name, 8 * m))
    for where in ('d', 'x'):
        p.append(('rootnumpy:%s' % where, 26 * m))
    for name in ('vec_cubic', 'power', 'tanh', 'cubic'):
        p.append(('rootfirst:%s:tiny' % name, 14 * m))
    p.append(('rootfirst:vec_cubic:zero', 14 * m))
    for row in OPTION_ROWS:
        p.append(('quadopt:%s' % row, 24 * m))
    for fam in ri.INTEGRANDS:
        p.append(('quadscale:%s' % fam, 20 * m))
        p.append(('quadnear:%s:narrow' % fam, 10 * m))
        p.append(('quadnear:%s:one_slot' % fam, 10 * m))
    # (exp(a x) - d with d scaled over decades moves the root far from any O(1) guess: solver convergence, not error propagation)
    for name in ('power', 'vec_quadratic', 'vec_ratio_exp', 'vec_linear'):
        p.append(('rootscale:%s' % name, 14 * m))
    for opt in ('full_output', 'limit', 'eps', 'points'):
        p.append(('quadplain:%s' % opt, 14 * m))
    for name in ri.INTEGRANDS:
        p.append(('funchist:quad:%s' % name, 12 * m))
    for name in ri.ROOTS:
        p.append(('funchist:root:%s' % name, 4 * m))
    for name in ri.INTEGRANDS:
        for rep in ('pp', 'pa', 'pb', 'ab'):
            p.append(('quadrep:%s:%s' % (name, rep), (5 if rep != 'ab' else 2) * m))
    for name, i, j in (('vec_linear', 0, 2), ('vec_linear', 1, 2), ('vec_cubic', 0, 1), ('vec_quadratic', 0, 1), ('vec_ratio_exp', 0, 1)):
        p.append(('rootrep:%s:%d:%d' % (name, i, j), 6 * m))
    for name in ('poly', 'exp'):
        for weight in ('cos', 'sin'):
            for psel in PSEL:
                for a_obs in (0, 1):
                    for b_obs in (0, 1):
                        p.append(('quadw:%s:%s:%s:%d:%d' % (name, weight, psel, a_obs, b_obs), 4 * m))
    return p


def run_case(ctx, kind, idx, rng):
    k = kind.split(':')
    if k[0] == 'root':
        case_root(ctx, rng, k[1], k[2])
    elif k[0] == 'quad':
        case_quad(ctx, rng, k[1], k[2], bool(int(k[3])), bool(int(k[4])), k[5])
    elif k[0] == 'quadspec':
        case_quad(ctx, rng, k[1], str(rng.choice(PSEL)), bool(rng.integers(0, 2)), bool(rng.integers(0, 2)), str(rng.choice(['same', 'different', 'covariance'])), spectator=k[2])
    elif k[0] == 'quadopt':
        case_quad_option(ctx, rng, k[1])
    elif k[0] == 'quadnear':
        case_quad_near(ctx, rng, k[1], k[2])
    elif k[0] == 'quadscale':
        case_quad_scale(ctx, rng, k[1])
    elif k[0] == 'rootscale':
        case_root_scale(ctx, rng, k[1])
    elif k[0] == 'quadcoinc':
        co = k[2]
        case_quad(ctx, rng, k[1], 'all', co in ('ab', 'pa', 'zero_limit') or bool(rng.integers(0, 2)), co in ('ab',) or bool(rng.integers(0, 2)),
                  str(rng.choice(['same', 'different', 'covariance'])), coincide=co)
    elif k[0] == 'rootzero':
        case_root_zero(ctx, rng, k[1])
    elif k[0] == 'rootfirst':
        case_root_first_entry(ctx, rng, k[1], k[2])
    elif k[0] == 'rootnumpy':
        case_root_plain_numpy(ctx, rng, k[1])
    elif k[0] == 'quadmany':
        # more than ten parameters (numbered by position)
        try:
            SHARED['quad'] = (12, {}, lib_integrand('poly', {}, 12))
            case_quad(ctx, rng, 'poly', str(rng.choice(['some', 'all'])), bool(rng.integers(0, 2)), bool(rng.integers(0, 2)), str(rng.choice(['same', 'different', 'covariance'])))
            ctx.count('many_parameter_cases')
        finally:
            SHARED.clear()
    elif k[0] == 'quadplain':
        fam = str(rng.choice(['poly', 'exp', 'trig']))
        kwf = {'full_output': {'full_output': 1}, 'limit': {'limit': 70, 'full_output': 1}, 'eps': {'epsabs': 1e-10, 'epsrel': 1e-10},
               'points': {'points': 'auto', 'full_output': 1}}[k[1]]
        case_quad(ctx, rng, fam, 'none', False, False, 'same', force_kw=kwf)
    elif k[0] == 'funchist':
        case_function_history(ctx, rng, k[1], k[2])
    elif k[0] == 'quadrep':
        case_quad(ctx, rng, k[1], str(rng.choice(PSEL)), bool(rng.integers(0, 2)), bool(rng.integers(0, 2)), str(rng.choice(['same', 'different', 'covariance'])), repeat=k[2])
    elif k[0] == 'rootrep':
        case_root(ctx, rng, k[1], str(rng.choice(LAYOUTS)), repeat=(int(k[2]), int(k[3])))
    elif k[0] == 'quadother':
        case_quad_other_weight(ctx, rng, k[1])
    elif k[0] == 'quadw':
        case_quad(ctx, rng, k[1], k[3], bool(int(k[4])), bool(int(k[5])), str(rng.choice(['same', 'different', 'covariance'])), weight=k[2])
    elif k[0] == 'quadinf':
        case_quad(ctx, rng, 'exp', k[1], bool(int(k[2])), False, str(rng.choice(['same', 'different', 'covariance'])), half_line=True)
    else:
        raise ValueError(kind)
