"""C12 - dobs / pobs XML export and import are mutually inverse.

Lists of 1-4 observables (1-2 ensembles x 1-3 replicas, configuration lists that may differ between
the observables of one file, covariance inputs of dimension 1-3, real-valued and integer-valued
data with exact zeros) are written with create_dobs_string / write_dobs / write_pobs and read back
with import_dobs_string / read_dobs / read_pobs (gz on/off, every separator_insertion mode).  The
re-imported observables are compared with the originals field by field through snapshots (never
through the library's ==); an error analysis of original and copy must give the same numbers.
Every emitted XML document (tapped writers) must parse with the standard library's parser.
"""
import gzip
import os
import re
import tempfile
import xml.etree.ElementTree as ET

import numpy as np

from .. import taps
from ..ctx import digest
from ..snap import snap, obs_digest
from ..ref import rt_io
from ..ref.rt_io import Profile, cmp_snap, cmp_analysis, analysable

ID = 'C12'
LEVEL = 'exploration'
DECIDING = ['tap:create_dobs_string', 'tap:create_pobs_string', 'roundtrips_compared', 'obs_compared', 'xml_documents_parsed']
RULE = ('cases: a list of 1-4 observables written to one dobs or pobs document and read back; dobs: each observable lives on a non-empty subset '
        'of 1-2 ensembles x 1-3 replicas and, per chain, on the full master configuration list (range / strided / gapped / irregular) or a prefix / '
        'stride / random subset of it, with 0-2 covariance inputs of dimension 1-3 on a subset of the observables; pobs: primary observables on one '
        'ensemble, identical lists (plus a class with differing lists, where refusing is admissible and silent misalignment is not); real-valued '
        '(white / AR / distinct) and integer-valued data with exact zeros; string, file gz on/off; separator_insertion True / None / False / int / str; '
        'relation disjoint (no common configuration); histories: twin lists (same number, chain names, first / last configuration, lengths, covariance names; '
        'different interior and data) written and read in both orders as strings, under one file name in two directories, overwriting one name, '
        'modify-the-list-and-write-again; alias cases: the same Obs at several positions; inputs as int32 / int64 / list / range lists, strided arrays, '
        'covariance as scalar / 1-d / 2-d with entries 1e-240..1e240 and gradients 1e-70..1e70, magnitudes 1e-150..1e150; file names with either extension '
        'under either gz flag; configuration numbers beyond 2**31; spectator ensembles and zero gradient entries; second write of the same list gives the same document; '
        'counters j:<mechanism> report how often each judgement ran; every round trip is followed by argument-untouched and no-shared-memory judgements; '
        'non-trivial: the document was read back and at least one observable with a fluctuating Monte-Carlo chain was compared; '
        'distinct = digest of (digests of the observables, format, transport, gz, separator mode)')
ASSUMPTIONS = ['central values are written with 17 significant digits: compared with rtol 1e-15; covariance matrices and gradients are written with 15 '
               'digits (%1.14e): compared with rtol 1e-13; fluctuations and replica means 1e-13 of max|delta| + |r_mean - value| + |value| (dobs stores '
               'delta + r_mean - value and the reader adds the value) resp. max|delta| + |r_mean| (pobs stores the sample)',
               'expected chain names follow the documented separator rule (| removed on write; re-inserted after the ensemble name (True), at a position (int), '
               'in front of every occurrence of a string (str), or not at all (None / False)); bare chains without replica part are not generated',
               'a covariance input whose gradient is identically zero is equivalent to an absent one',
               'tags, the reweighted flag and the enstag / symbol options are not part of the format contract and are not judged',
               'pobs stores samples and the reader recomputes the central value: only primary observables are written to pobs',
               'read_pobs with names that would span several ensembles (separator mode None with several replicas) raises by construction of Obs: counted, not judged',
               'analysis comparison (rtol 1e-8, identical windows) only when nothing was lost and fluctuations are not at rounding level of the stored numbers']
BUDGET = {'quick': 45, 'thorough': 540}

PE = None
DIO = None
MON = None

# value: %1.16e text is read back bit-identically; covariance / gradient: %1.14e text, half a unit of the 15th digit per entry;
# fluctuations: raw + value, a mean over N numbers, a subtraction: (log2 N + 3) eps of the largest sample
P_DOBS = Profile('dobs', value_rtol=0.0, cov_rtol=5.5e-15, cov_elementwise=True, delta_rtol=4e-15, scale='dobs', drop_zero_grad=True, check_tag=False, check_rew=False)
P_POBS = Profile('pobs', delta_rtol=4e-15, scale='pobs', check_tag=False, check_rew=False, value_recomputed=True)

T_ZERO = 'dobs:measured-sample-exactly-zero-dropped-on-import'
T_MARKER = 'dobs:sample-equal-to-central-value-written-as-not-measured-marker'
T_SEP_FALSE = 'dobs:separator-insertion-False-inserts-separator-at-position-0'
T_GZ_DOBS = 'dobs:read_dobs-gz-false-raises-xml-declaration-in-text-mode'
T_GZ_POBS = 'pobs:read_pobs-gz-false-raises-xml-declaration-in-text-mode'
T_STR = 'dobs:import_dobs_string-str-input-raises-xml-declaration'
T_POBS_LISTS = 'pobs:different-configuration-lists-silently-misaligned'
XML_DECL_MSG = 'Unicode strings with encoding declaration are not supported'
NUM_INT = re.compile(r'^[+-]?[0-9]+$')
NUM_FLOAT = re.compile(r'^[+-]?[0-9]\.[0-9]+e[+-][0-9]{2,3}$')


class XmlMonitor(taps.Monitor):
    """Every document emitted by the writers must be well-formed XML for an independent parser."""

    def __init__(self, ctx, root):
        self.ctx = ctx
        self.root = root
        self.docs = []

    def after(self, token, args, kwargs, result, exc):
        if exc is not None or not isinstance(result, str):
            return
        self.docs.append(result)
        self.ctx.count('xml_documents_parsed')
        self.ctx.ev()
        self.ctx.count('j:xml:document-not-well-formed')
        try:
            r = ET.fromstring(result.encode('utf-8'))
        except ET.ParseError as e:
            self.ctx.violation('xml:document-not-well-formed', {'error': str(e)[:200], 'head': result[:200]})
            return
        if r.tag != self.root:
            self.ctx.violation('xml:unexpected-root-element', {'got': r.tag, 'exp': self.root})
        # the documented precision of the text: 16 digits after the point for values and samples (read back bit-identically),
        # 14 for covariance matrices and gradients; '0' is the marker / an exact zero, integers are configuration numbers
        self.ctx.count('j:xml:number-written-with-fewer-digits-than-documented')
        self.ctx.ev()
        for arr in r.iter('array'):
            kids = list(arr)
            ident = (arr.findtext('id') or '').strip()
            need = 14 if ident in ('cov', 'grad') else 16
            text = (kids[-1].tail or '') if kids else ''
            bad = [t for t in text.split() if not NUM_INT.match(t) and not (NUM_FLOAT.match(t) and len(t.split('.')[1].split('e')[0]) == need)]
            if bad:
                self.ctx.violation('xml:number-written-with-fewer-digits-than-documented', {'array': ident, 'digits required': need, 'tokens': bad[:4]})
                break


def setup(ctx):
    global PE, DIO, MON
    rt_io.count_judgements(ctx)
    import pyerrors as pe
    import pyerrors.input.dobs as dio
    PE, DIO = pe, dio
    MON = {'dobs': XmlMonitor(ctx, 'OBSERVABLES'), 'pobs': XmlMonitor(ctx, 'observables')}
    taps.tap_function(dio, 'create_dobs_string', MON['dobs'])
    taps.tap_function(dio, 'create_pobs_string', MON['pobs'])


def teardown(ctx):
    rt_io.flush_stats(ctx)
    taps.report(ctx)
    taps.remove_all()


def plan(tier):
    m = 1 if tier == 'quick' else 36
    return [('dobs', 700 * m), ('dobs_int', 350 * m), ('pobs', 300 * m), ('pobs_int', 120 * m), ('pobs_lists', 60 * m), ('history', 160 * m), ('alias', 100 * m), ('options', 160 * m), ('refuse', 90 * m)]


# ------------------------------------------------------------------------------------------
# workload
# ------------------------------------------------------------------------------------------
def subset(rng, cfgs, how):
    if how == 'full' or len(cfgs) < 8:
        return list(cfgs)
    if how == 'prefix':
        return list(cfgs[:max(5, int(len(cfgs) * rng.uniform(0.4, 0.9)))])
    if how == 'suffix':
        return list(cfgs[-max(5, int(len(cfgs) * rng.uniform(0.4, 0.9))):])
    if how == 'stride':
        sub = list(cfgs[int(rng.integers(0, 2))::2])
        return sub if len(sub) >= 5 else list(cfgs)
    k = max(5, int(len(cfgs) * rng.uniform(0.4, 0.9)))
    return sorted(int(c) for c in rng.choice(cfgs, size=k, replace=False))


# replica names: r2 / r10 sort trap; 'A|B1' shares its stripped form's prefix with the ensemble 'AB'
C12_REPS = rt_io.REP_POOL + ['B1']


def rand_master(rng, nmax, nmin=8):
    nens = int(rng.integers(1, 3))
    return rt_io.rand_layout(rng, 'ensembles' if nens == 2 else str(rng.choice(['one', 'replicas'])), nmin, max(nmax, nmin + 4), allow_bare=False, maxens=2,
                             rep_pool=C12_REPS)


def make_dobs_list(ctx, rng, nobs, relation, data, nmax, master=None, cvs=None, cov_extreme=None):
    """Observables for one dobs document.  relation: identical | different (subsets) | disjoint (no common configuration)."""
    if master is None:
        master = rand_master(rng, nmax, 5 * nobs + 1 if relation == 'disjoint' else 8)
    ens = sorted(master)
    if cov_extreme is None:
        cov_extreme = bool(rng.random() < 0.2)
    if cvs is None:
        cvs = rt_io.rand_covobs(PE, rng, extreme=cov_extreme) if rng.random() < 0.45 else []
    interleave = bool(rng.integers(0, 2))
    kinds = ['white', 'ar', 'distinct'] if data == 'real' else ['counts', 'posint']
    obs = []
    for k in range(nobs):
        # identical: every observable on the complete master layout
        use_e = ens if (relation in ('identical', 'disjoint') or rng.random() < 0.5) else sorted(str(e) for e in rng.choice(ens, size=int(rng.integers(1, len(ens) + 1)), replace=False))
        prims = []
        for e in use_e:
            chains = sorted(master[e])
            if relation == 'different' and len(chains) > 1 and rng.random() < 0.4:
                chains = sorted(str(c) for c in rng.choice(chains, size=int(rng.integers(1, len(chains) + 1)), replace=False))
            sub = {}
            for c in chains:
                if relation == 'disjoint':
                    cf = master[e][c]
                    m = len(cf) // nobs
                    piece = cf[k::nobs] if interleave else cf[k * m:(k + 1) * m if k < nobs - 1 else len(cf)]
                    sub[c] = list(piece) if len(piece) >= 5 else list(cf)
                    continue
                how = 'full' if relation == 'identical' else str(rng.choice(['full', 'prefix', 'suffix', 'stride', 'random']))
                sub[c] = subset(rng, master[e][c], how)
            prims.append(rt_io.primary(PE, rng, sub, str(rng.choice(kinds)), special=True if data == 'real' else 'frozen-only'))
        if data == 'int':
            # integer-valued samples: primary observables (sums over ensembles keep integer samples up to the constant shift)
            o = prims[0]
            for p in prims[1:]:
                o = o + p
        else:
            how = str(rng.choice(['primary', 'linear', 'product', 'nonlinear']))
            if how == 'primary' and len(prims) == 1:
                o = prims[0]
            elif how in ('primary', 'linear'):
                coef = [float(rng.uniform(0.5, 2.0)) for p in prims]
                if len(prims) > 1 and rng.random() < 0.2:
                    # spectator ensemble: enters with coefficient exactly 0 (first or last slot)
                    coef[int(rng.choice([0, len(prims) - 1]))] = 0.0
                    ctx.count('spectator_ensembles')
                o = sum(c * p for c, p in zip(coef, prims))
            elif how == 'product':
                o = prims[0] * rt_io.primary(PE, rng, {c: list(prims[0].idl[c]) for c in prims[0].names}, 'white')
                for p in prims[1:]:
                    o = o * (p + 20.0)
            else:
                o = np.sin(prims[0]) + sum(np.exp(0.05 * p) for p in prims)
        for name, comps, sc in cvs:
            if rng.random() < 0.7:
                if cov_extreme:
                    # tiny / huge gradients next to tiny / huge matrix entries
                    o = o + sum(float(10.0 ** rng.uniform(-70, 70)) * float(rng.choice([-1, 1])) * c for c in comps)
                    continue
                cc = [float(rng.uniform(0.3, 2.0)) * float(rng.choice([-1, 1])) for c in comps]
                if len(cc) > 1 and rng.random() < 0.25:
                    cc[int(rng.choice([0, len(cc) - 1]))] = 0.0      # spectator component: gradient entry exactly zero
                    ctx.count('spectator_gradient_entries')
                lin = sum(k * c for k, c in zip(cc, comps))
                o = o + lin if (data == 'int' or rng.random() < 0.5) else o * comps[0] + lin
        if data == 'real' and rng.random() < 0.08 and all(float(np.max(np.abs(d))) > 1e-6 * abs(o.value) for d in o.deltas.values() if len(d)):
            o = o - o.value              # degenerate value: central value exactly 0.0, fluctuations not
            ctx.count('centered_observables')
        if data == 'real':
            # overall magnitude (applied last, so that fluctuations and central value scale together)
            u = rng.random()
            if u < 0.3:
                o = o * float(10.0 ** rng.uniform(-6, 6))
            elif u < 0.4:
                o = o * float(10.0 ** rng.uniform(-150, 150))
        obs.append(o)
    return obs


def make_pobs_list(ctx, rng, nobs, data, nmax, different=False, lay=None):
    if lay is None:
        lay = rt_io.rand_layout(rng, str(rng.choice(['one', 'replicas'])), 8, nmax, allow_bare=False, rep_pool=C12_REPS)
    e = sorted(lay)[0]
    kinds = ['white', 'ar', 'distinct'] if data == 'real' else ['counts', 'posint']
    obs = []
    for k in range(nobs):
        sub = lay[e]
        if different and k > 0 and rng.random() < 0.35:
            # same first and last configuration and the same number of configurations, different interior
            # (everything a cheap signature of the list would look at agrees; added after seeded change seed3-C12)
            sub = {}
            for c in lay[e]:
                cf = sorted(lay[e][c])
                free = sorted(set(range(cf[0] + 1, cf[-1])) - set(cf))
                new = list(cf)
                if free and len(cf) > 3:
                    for _ in range(int(rng.integers(1, 4))):
                        new[int(rng.integers(1, len(cf) - 1))] = int(rng.choice(free))
                    new = sorted(set(new))
                    while len(new) < len(cf):
                        cand = [x for x in range(cf[0] + 1, cf[-1]) if x not in new]
                        if not cand:
                            break
                        new = sorted(new + [int(rng.choice(cand))])
                else:
                    # no room inside a contiguous list: spread it out, keeping the number of configurations
                    new = [cf[0]] + sorted(int(x) for x in rng.choice(np.arange(cf[0] + 1, cf[0] + 3 * len(cf)), size=len(cf) - 2, replace=False)) + [cf[0] + 3 * len(cf)]
                sub[c] = new
        elif different and k > 0:
            sub = {c: subset(rng, lay[e][c], str(rng.choice(['prefix', 'suffix', 'stride', 'random']))) for c in lay[e]}
        o = rt_io.primary(PE, rng, sub, str(rng.choice(kinds)), special='frozen-only')
        obs.append(o)
    if different and all(all(list(o.idl[c]) == list(obs[0].idl[c]) for c in o.names) for o in obs):
        c = sorted(lay[e])[0]
        obs[-1] = rt_io.primary(PE, rng, dict(lay[e], **{c: lay[e][c][1:]}), kinds[0], special=False)
    if different and rng.random() < 0.5:
        obs = obs[::-1]
    return obs


def expected_name(name, ens, mode):
    """Documented treatment of the replica separator."""
    s = name.replace('|', '')
    if mode is True:
        return s[:len(ens)] + '|' + s[len(ens):] if s.startswith(ens) else s
    if mode is None or mode is False:
        return s
    if isinstance(mode, int):
        return s[:mode] + '|' + s[mode:]
    if isinstance(mode, str):
        return s.replace(mode, '|' + mode)
    raise ValueError(mode)


def pick_mode(rng, fmt, names):
    ens = sorted(set(n.split('|')[0] for n in names))
    if fmt == 'dobs':
        modes = [True, True, None, False, 'int', 'str', True, 'int']
    else:
        modes = [None, 'int', 'str', 'int']
    m = modes[int(rng.integers(0, len(modes)))]
    if m == 'int':
        return len(ens[int(rng.integers(0, len(ens)))]) if rng.random() < 0.8 else int(rng.integers(0, 4))      # 0 is a valid position
    if m == 'str':
        return str(rng.choice(['r', 'r', 'r1']))
    return m


def mode_label(mode):
    if mode is True or mode is False or mode is None:
        return repr(mode)
    return 'int' if isinstance(mode, int) else 'str'


# ------------------------------------------------------------------------------------------
# judgement
# ------------------------------------------------------------------------------------------
def lost_by_format(e):
    """Per chain: configurations the dobs table cannot distinguish from 'not measured', computed from the
    statement of the format (the table holds delta + r_mean - value, 0 means not measured, the reader adds the value)."""
    out = {}
    v = float(e['value'])
    for n, (idl, d, r) in e['chains'].items():
        raw = np.asarray(d, dtype=float) + (r - v)
        marker = [int(c) for c, x in zip(idl, raw) if x == 0]
        zero = [int(c) for c, x in zip(idl, raw) if x != 0 and x + v == 0]
        out[n] = (marker, zero)
    return out


def judge_dobs_obs(ctx, g, e, nm, where, detail):
    """Compare one re-imported observable; classify configurations lost through the 0 marker."""
    lost = lost_by_format(e)
    skip = []
    clean = True
    for n in sorted(e['chains']):
        marker, zero = lost[n]
        if marker:
            ctx.count('j:' + T_MARKER)          # a chain with a sample the 0 marker cannot represent was written
        if zero:
            ctx.count('j:' + T_ZERO)            # a chain with a measured sample that is exactly 0 was written
        if not marker and not zero:
            continue
        eidl = [int(c) for c in e['chains'][n][0]]
        gidl = [int(c) for c in g['chains'][nm[n]][0]] if nm[n] in g['chains'] else []
        if gidl == eidl:
            continue                                      # nothing was lost: judged normally
        tags = None
        for drop, t in ((set(marker), [T_MARKER]), (set(zero), [T_ZERO]), (set(marker) | set(zero), [T_MARKER, T_ZERO])):
            if drop and gidl == [c for c in eidl if c not in drop]:
                tags = t
                break
        if tags is None:
            continue                                      # some other failure: the generic comparison reports it
        clean = False
        ctx.ev()
        for t in tags:
            ctx.violation(t, {'where': where, 'chain': n, 'written': len(eidl), 'read_back': len(gidl),
                              'lost_marker': marker[:10] if t == T_MARKER else None, 'lost_zero_sample': zero[:10] if t == T_ZERO else None,
                              'value': e['value'], 'extra': detail})
        skip.append(n)
        # the configurations that did come back must carry the right samples
        if gidl:
            _, gd, gr = g['chains'][nm[n]]
            _, ed, er = e['chains'][n]
            es = {int(c): er + x for c, x in zip(eidl, ed)}
            ctx.close(gr + np.asarray(gd), [es[c] for c in gidl], 'dobs:samples-of-retained-configurations', where + ' chain ' + n,
                      rtol=4e-15, scale=rt_io.chain_scale(e, n, 'dobs'), detail=detail)
    ok = cmp_snap(ctx, g, e, P_DOBS, where, name_map=nm, skip_chains=tuple(skip), detail=detail)
    return ok and clean


def name_map_for(obsl, mode):
    nm = {}
    for o in obsl:
        for n in o.names:
            if n not in o.covobs:
                nm[n] = expected_name(n, n.split('|')[0], mode)
    return nm


def read_file_bytes(path, gz):
    with (gzip.open(path, 'rb') if gz else open(path, 'rb')) as f:
        return f.read()


def run_dobs(ctx, rng, kind, idx, tmp):
    data = 'int' if kind == 'dobs_int' else 'real'
    nobs = 1 + idx % 4
    relation = ['identical', 'different', 'different', 'disjoint'][(idx // 4) % 4]
    transport = ['string', 'file.gz', 'file', 'file.gz', 'string', 'file', 'string-str'][(idx // 16) % 7]
    nmax = 24 if ctx.tier == 'quick' else int(rng.choice([24, 60, 150]))
    obsl = make_dobs_list(ctx, rng, nobs, relation, data, nmax)
    names = sorted(set(n for o in obsl for n in o.names if n not in o.covobs))
    mode = pick_mode(rng, 'dobs', names)
    gz = transport == 'file.gz'
    ctx.cell('dobs', nobs, relation, data, transport, mode_label(mode))
    opts = dict(format='dobs', transport=transport, mode=repr(mode), nobs=nobs, relation=relation, data=data)
    detail = dict(opts)
    full = bool(rng.random() < 0.2)
    kw = {'full_output': full}
    if mode is not True or rng.random() < 0.3:
        kw['separator_insertion'] = mode
    before = frozen_list(obsl)
    MON['dobs'].docs.clear()
    if transport.startswith('string'):
        s = DIO.create_dobs_string(obsl, 'obsname')
        if transport == 'string-str':
            ctx.count('j:' + T_STR)
            # the documented argument type is str
            try:
                r = DIO.import_dobs_string(s, **kw)
            except ValueError as e:
                if XML_DECL_MSG not in str(e):
                    raise
                ctx.ev()
                ctx.violation(T_STR, {'error': str(e)[:160]})
                ctx.count('fallback_reads')
                r = DIO.import_dobs_string(s.encode('utf-8'), **kw)
        else:
            r = DIO.import_dobs_string(s.encode('utf-8'), **kw)
    else:
        stem = os.path.join(tmp, 'd%d' % int(rng.integers(0, 10 ** 6)))
        # the explicit gz flag decides about compression, also when the name carries the other extension
        given = stem + str(rng.choice(['', '.xml', '.xml.gz', '.xml']))
        opts['name'] = given[len(stem):]
        DIO.write_dobs(obsl, given, 'obsname', gz=gz)
        path = given if given.endswith('.gz') else stem + '.xml' + ('.gz' if gz else '')
        if not ctx.require(os.path.exists(path), 'dobs:file-not-at-documented-name', {'given': given, 'gz': gz, 'dir': os.listdir(tmp)}):
            return
        data_b = read_file_bytes(path, gz)
        ctx.require(len(MON['dobs'].docs) == 1 and data_b == MON['dobs'].docs[-1].encode('utf-8'), 'dobs:file-content-differs-from-emitted-string',
                    {'ndocs': len(MON['dobs'].docs)})
        if not gz:
            ctx.count('j:' + T_GZ_DOBS)
        try:
            r = DIO.read_dobs(given if (rng.random() < 0.5 or given.endswith('.gz')) else stem, gz=gz, **kw)
        except ValueError as e:
            if gz or XML_DECL_MSG not in str(e):
                raise
            ctx.ev()
            ctx.violation(T_GZ_DOBS, {'error': str(e)[:160]})
            ctx.count('fallback_reads')
            r = DIO.import_dobs_string(data_b, **kw)     # judge what was written nevertheless
    if full:
        ctx.require(isinstance(r, dict) and 'obsdata' in r, 'dobs:full-output-form', {'type': type(r).__name__})
        r = r['obsdata']
    judge_list(ctx, rng, r, obsl, mode, 'dobs', opts, detail, before=before)
    second_write(ctx, rng, 'dobs', obsl)


def second_write(ctx, rng, fmt, obsl):
    """The same argument objects handed to the writer a second time give the same document (header apart)."""
    if rng.random() > 0.25 or not MON[fmt].docs:
        return
    first = MON[fmt].docs[-1]
    second = DIO.create_dobs_string(obsl, 'obsname') if fmt == 'dobs' else DIO.create_pobs_string(obsl, 'obsname')
    mark = '<%s>' % fmt
    ctx.require(first.split(mark, 1)[-1] == second.split(mark, 1)[-1], fmt + ':second-write-of-the-same-objects-differs',
                {'len_first': len(first), 'len_second': len(second)})


def frozen_list(obsl):
    """What must still be true of the list handed to the writer afterwards."""
    return {'ids': [id(o) for o in obsl], 'digests': [obs_digest(o) for o in obsl], 'arrays': [[id(a) for a in rt_io.obs_arrays(o)] for o in obsl],
            'tags': [repr(o.tag) for o in obsl]}


def judge_list(ctx, rng, r, obsl, mode, fmt, opts, detail, before=None):
    ctx.count('roundtrips_compared')
    if not ctx.require(isinstance(r, list) and len(r) == len(obsl), fmt + ':number-of-observables', {'got': len(r) if isinstance(r, list) else type(r).__name__, 'exp': len(obsl)}):
        return
    if before is not None:
        # writer and reader leave the list and its members untouched; the results are independent objects
        ctx.count('argument_untouched_checks')
        ctx.require(frozen_list(obsl) == before, 'argument-modified-by-writer:list-of-observables', {'format': fmt})
    sh = rt_io.sharing(list(r), list(obsl))
    ctx.require(not sh, fmt + ':result-shares-memory-with-written-object', {'pairs (read, written)': sh[:5]})
    sh = rt_io.sharing(list(r))
    ctx.require(not sh, fmt + ':results-share-memory-with-each-other', {'pairs': sh[:5]})
    nm = name_map_for(obsl, mode)
    all_ok = True
    nontrivial = False
    for i, (ro, oo) in enumerate(zip(r, obsl)):
        ctx.count('obs_compared')
        g, e = snap(ro), snap(oo)
        where = '%s[%d]' % (fmt, i)
        if fmt == 'dobs' and mode is False:
            ctx.count('j:' + T_SEP_FALSE)
        if fmt == 'dobs' and mode is False and sorted(g['chains']) == sorted('|' + n.replace('|', '') for n in e['chains']) and e['chains']:
            # documented: False inserts nothing
            ctx.ev()
            ctx.violation(T_SEP_FALSE, {'got': sorted(g['chains']), 'exp': sorted(nm[n] for n in e['chains'])})
            g = dict(g, chains={k[1:]: v for k, v in g['chains'].items()}, idl_form={k[1:]: v for k, v in g['idl_form'].items()})
        if fmt == 'dobs':
            ok = judge_dobs_obs(ctx, g, e, nm, where, detail)
        else:
            ok = cmp_snap(ctx, g, e, P_POBS, where, name_map=nm, detail=detail)
        all_ok &= ok
        if any(np.any(d != 0) for (_, d, _) in e['chains'].values()):
            nontrivial = True
        if ok and all(nm[n] == n for n in e['chains']) and sorted(ro.names) == sorted(oo.names):
            if analysable(e, mode=fmt):
                kw = [{}, {'S': 1.0}, {'S': 3.0}, {'S': 0}, {'fft': False}][int(rng.integers(0, 5))]
                ctx.count('analyses_compared')
                cmp_analysis(ctx, oo, ro, fmt, where, kw)
            else:
                ctx.count('analysis_skipped')
    if nontrivial:
        ctx.nontrivial.add(digest([obs_digest(o) for o in obsl], repr(sorted(opts.items()))))
    ctx.sample({'options': opts, 'chains': [sorted(n for n in o.names) for o in obsl],
                'lengths': [{n: o.shape[n] for n in o.names if n not in o.covobs} for o in obsl], 'values': [o.value for o in obsl]})


def run_pobs(ctx, rng, kind, idx, tmp):
    data = 'int' if kind == 'pobs_int' else 'real'
    different = kind == 'pobs_lists'
    nobs = 1 + idx % 4
    if different and nobs == 1:
        nobs = 2
    gz = bool((idx // 4) % 2)
    nmax = 24 if ctx.tier == 'quick' else int(rng.choice([24, 60, 150]))
    obsl = make_pobs_list(ctx, rng, nobs, data, nmax, different)
    names = sorted(obsl[0].names)
    mode = pick_mode(rng, 'pobs', names)
    ctx.cell('pobs', nobs, 'different' if different else 'identical', data, 'file.gz' if gz else 'file', mode_label(mode))
    opts = dict(format='pobs', gz=gz, mode=repr(mode), nobs=nobs, data=data, different=different)
    stem = os.path.join(tmp, 'p%d' % int(rng.integers(0, 10 ** 6)))
    given = stem + str(rng.choice(['', '.xml', '.xml.gz', '.xml']))
    opts['name'] = given[len(stem):]
    before = frozen_list(obsl)
    MON['pobs'].docs.clear()
    try:
        DIO.write_pobs(obsl, given, 'obsname', gz=gz)
    except Exception:
        if different:
            ctx.count('j:' + T_POBS_LISTS)
            ctx.count('pobs_different_lists_refused')       # refusing what the format cannot hold is admissible
            ctx.ev()
            return
        raise
    path = given if given.endswith('.gz') else stem + '.xml' + ('.gz' if gz else '')
    if not ctx.require(os.path.exists(path), 'pobs:file-not-at-documented-name', {'given': given, 'gz': gz, 'dir': os.listdir(tmp)}):
        return
    data_b = read_file_bytes(path, gz)
    ctx.require(len(MON['pobs'].docs) == 1 and data_b == MON['pobs'].docs[-1].encode('utf-8'), 'pobs:file-content-differs-from-emitted-string',
                {'ndocs': len(MON['pobs'].docs)})
    nm = name_map_for(obsl, mode)
    multi = len(set(v.split('|')[0] for v in nm.values())) > 1
    full = bool(rng.random() < 0.2)
    kw = {'full_output': full}
    if mode is not None or rng.random() < 0.3:
        kw['separator_insertion'] = mode
    if not gz:
        ctx.count('j:' + T_GZ_POBS)
    if different:
        ctx.count('j:' + T_POBS_LISTS)
    try:
        r = DIO.read_pobs(given if (rng.random() < 0.5 or given.endswith('.gz')) else stem, gz=gz, **kw)
    except ValueError as e:
        if not gz and XML_DECL_MSG in str(e):
            ctx.ev()
            ctx.violation(T_GZ_POBS, {'error': str(e)[:160]})
            return
        if multi and 'multiple ensembles' in str(e):
            ctx.count('pobs_names_spanning_ensembles_rejected')
            return
        raise
    if full:
        ctx.require(isinstance(r, dict) and 'obsdata' in r, 'pobs:full-output-form', {'type': type(r).__name__})
        r = r['obsdata']
    if different:
        # the file has one configuration column per replica: the only faithful outcomes are refusal or an exact round trip
        bad = []
        for i, (ro, oo) in enumerate(zip(r, obsl)):
            for n in oo.names:
                if nm[n] in ro.idl and list(ro.idl[nm[n]]) != list(oo.idl[n]):
                    bad.append((i, n, len(oo.idl[n]), len(ro.idl[nm[n]])))
        ctx.count('roundtrips_compared')
        ctx.count('obs_compared', len(obsl))
        ctx.ev()
        if bad and len(r) == len(obsl):
            ctx.violation(T_POBS_LISTS, {'observable, chain, configurations written, configurations read back': bad[:6],
                                         'note': 'write_pobs took the configuration numbers of the first observable for all of them'})
            ctx.nontrivial.add(digest([obs_digest(o) for o in obsl], repr(sorted(opts.items()))))
            return
    judge_list(ctx, rng, r, obsl, mode, 'pobs', opts, dict(opts), before=before)
    second_write(ctx, rng, 'pobs', obsl)


def restoring_mode(fmt, obsl):
    """A separator mode under which the original names come back (so that analyses can be compared too)."""
    if fmt == 'dobs':
        return True
    return len(obsl[0].names[0].split('|')[0])


def write_read(fmt, obsl, target, gz, mode):
    """target None: string transport (dobs only)."""
    if fmt == 'dobs':
        if target is None:
            return DIO.import_dobs_string(DIO.create_dobs_string(obsl, 'obsname'), separator_insertion=mode)
        DIO.write_dobs(obsl, target, 'obsname', gz=gz)
        return DIO.read_dobs(target, gz=gz, separator_insertion=mode)
    DIO.write_pobs(obsl, target, 'obsname', gz=gz)
    return DIO.read_pobs(target, gz=gz, separator_insertion=mode)


def twin_lists(ctx, rng, fmt, nobs, data, nmax):
    """Two lists of observables that agree in number, chain names, first configuration, chain lengths (and last configuration
    whenever there is room), covariance names - and differ in the interior configuration numbers and in the data."""
    if fmt == 'dobs':
        master = rand_master(rng, nmax)
        cov_extreme = bool(rng.random() < 0.2)
        cvs = rt_io.rand_covobs(PE, rng, extreme=cov_extreme) if rng.random() < 0.45 else []
        A = make_dobs_list(ctx, rng, nobs, 'identical', data, nmax, master=master, cvs=cvs, cov_extreme=cov_extreme)
        B = make_dobs_list(ctx, rng, nobs, 'identical', data, nmax, master=rt_io.twin_layout(rng, master), cvs=cvs, cov_extreme=cov_extreme)
    else:
        lay = rt_io.rand_layout(rng, str(rng.choice(['one', 'replicas'])), 8, nmax, allow_bare=False, rep_pool=C12_REPS)
        A = make_pobs_list(ctx, rng, nobs, data, nmax, lay=lay)
        B = make_pobs_list(ctx, rng, nobs, data, nmax, lay=rt_io.twin_layout(rng, lay))
    return A, B


def run_history(ctx, rng, idx, tmp):
    fmt = ['dobs', 'dobs', 'pobs'][idx % 3]
    scenario = ['strings', 'same-name-two-directories', 'overwrite-same-name', 'modify-and-write-again'][(idx // 3) % 4]
    if fmt == 'pobs' and scenario == 'strings':
        scenario = 'same-name-two-directories'
    nobs = 1 + (idx // 12) % 3
    data = 'int' if idx % 5 == 4 else 'real'
    A, B = twin_lists(ctx, rng, fmt, nobs, data, 24 if ctx.tier == 'quick' else 60)
    mode = restoring_mode(fmt, A)
    gz = bool(rng.integers(0, 2))
    ctx.cell('history', fmt, scenario, nobs, data)
    ctx.count('histories')
    opts = dict(format=fmt, history=scenario, nobs=nobs, data=data, gz=gz)
    pair = [A, B]
    order = [int(i) for i in rng.permutation(2)]

    def judge(r, obsl, step, before=None):
        o2 = dict(opts, step=step)
        judge_list(ctx, rng, r, obsl, mode, fmt, o2, o2, before=before)
    if scenario == 'strings':
        docs = [DIO.create_dobs_string(x, 'obsname') for x in pair]
        earlier = {}
        for k in order + order[::-1]:
            r = DIO.import_dobs_string(docs[k], separator_insertion=mode)
            judge(r, pair[k], 'string %d' % k)
            if k in earlier:
                sh = rt_io.sharing(list(r), list(earlier[k]))
                ctx.require(not sh, 'dobs:two-reads-of-one-document-share-memory', {'pairs': sh[:5]})
                judge(earlier[k], pair[k], 'earlier result %d after later reads' % k)
            earlier[k] = r
    elif scenario == 'same-name-two-directories':
        dirs = [os.path.join(tmp, 'a'), os.path.join(tmp, 'b')]
        for k in order:
            os.mkdir(dirs[k])
            before = frozen_list(pair[k])
            r = write_read(fmt, pair[k], os.path.join(dirs[k], 'same'), gz, mode)
            judge(r, pair[k], 'write+read %s/same' % 'ab'[k], before)
        for k in order[::-1] + order:
            r = (DIO.read_dobs if fmt == 'dobs' else DIO.read_pobs)(os.path.join(dirs[k], 'same'), gz=gz, separator_insertion=mode)
            judge(r, pair[k], 'read %s/same' % 'ab'[k])
    elif scenario == 'overwrite-same-name':
        name = os.path.join(tmp, 'again')
        for step, k in enumerate(order + order[::-1]):
            r = write_read(fmt, pair[k], name, gz, mode)
            judge(r, pair[k], 'overwrite step %d' % step)
    else:
        name = os.path.join(tmp, 'mod')
        x = list(A)
        r = write_read(fmt, x, name, gz, mode)
        judge(r, x, 'first dump')
        # modify the list that was written (replace a member by one from the twin family's data kind on the same layout,
        # reverse the order), write it again under the same name
        repl = make_dobs_list(ctx, rng, 1, 'identical', data, 24, master={e: {c: list(o.idl[c]) for c in o.names if c not in o.covobs and c.split('|')[0] == e}
                                                                               for o in [x[0]] for e in o.mc_names}, cvs=[])[0] if fmt == 'dobs' else \
            make_pobs_list(ctx, rng, 1, data, 24, lay={x[0].mc_names[0]: {c: list(x[0].idl[c]) for c in x[0].names}})[0]
        x[int(rng.integers(0, len(x)))] = repl
        x.reverse()
        r = write_read(fmt, x, name, gz, mode)
        judge(r, x, 'modified list dumped again')
        if fmt == 'dobs':
            r = write_read(fmt, x, None, gz, mode)
            judge(r, x, 'modified list via string')


def run_alias(ctx, rng, idx, tmp):
    """The same Obs object at several positions of the list: every position must come back, with equal values."""
    fmt = ['dobs', 'dobs', 'pobs'][idx % 3]
    data = 'int' if idx % 4 == 3 else 'real'
    nmax = 24
    if fmt == 'dobs':
        base = make_dobs_list(ctx, rng, 2, ['identical', 'different'][(idx // 3) % 2], data, nmax)
    else:
        base = make_pobs_list(ctx, rng, 2, data, nmax)
    a, b = base
    # members the library's own == cannot tell apart (numbers shifted by 1e-12 of the scale), and equal central values on other data
    sc = abs(a.value) + max([float(np.max(np.abs(d))) for d in a.deltas.values() if len(d)] or [0.0])
    if fmt == 'dobs':
        t_val = a + 1e-12 * sc
        scb = max([float(np.max(np.abs(d))) for d in b.deltas.values() if len(d)] or [0.0])
        # equal central value on other data - only when the two live on comparable scales (a value that dwarfs the
        # fluctuations by sixteen digits leaves nothing of them in any floating-point format)
        t_mean = (b - b.value + a.value) if (sorted(b.names) == sorted(a.names) and sc > 0 and 1e-3 < scb / sc < 1e3) else 1.0 * a
    else:
        t_val = PE.Obs([a.deltas[n] + a.r_values[n] + 1e-12 * sc for n in a.names], list(a.names), idl=[list(a.idl[n]) for n in a.names])
        t_mean = PE.Obs([b.deltas[n] + b.r_values[n] - b.value + a.value for n in a.names], list(a.names), idl=[list(a.idl[n]) for n in a.names])
    pattern = [[a, b, a], [a, a], [a, a, b, b], [b, a, b, a], [a, t_val, a], [t_val, a, t_mean], [t_mean, t_val, b, a]][(idx // 6) % 7]
    mode = restoring_mode(fmt, pattern)
    gz = bool(rng.integers(0, 2))
    ctx.cell('alias', fmt, len(pattern), data)
    ctx.count('alias_cases')
    opts = dict(format=fmt, alias=[('a' if o is a else 'b' if o is b else 'twin') for o in pattern], data=data, gz=gz)
    before = frozen_list(pattern)
    target = None if (fmt == 'dobs' and rng.random() < 0.4) else os.path.join(tmp, 'alias')
    r = write_read(fmt, pattern, target, gz, mode)
    judge_list(ctx, rng, r, pattern, mode, fmt, opts, opts, before=before)


# ------------------------------------------------------------------------------------------
# the documented keyword options travel with the file and come back through full_output=True
# ------------------------------------------------------------------------------------------
WORDS = ['pion', 'kappa 0.1350', 'run-7', 'plaquette', 'x', 'beta=3.40', 'Q_top', 'a1']
T_SYMBOL_TAGS = 'dobs:tags-set-from-characters-of-the-symbol-string'


def text_option(rng, allow_empty=True):
    u = rng.random()
    if u < 0.15 and allow_empty:
        return ''
    if u < 0.35:
        return ' '.join(str(w) for w in rng.choice(WORDS, size=30))          # longer than 100 characters: written on lines of its own
    return ' '.join(str(w) for w in rng.choice(WORDS, size=int(rng.integers(1, 4)), replace=False))


def run_options(ctx, rng, idx, tmp):
    fmt = ['dobs', 'pobs'][idx % 2]
    nobs = 1 + (idx // 2) % 3
    nmax = 20
    if fmt == 'dobs':
        master = rt_io.rand_layout(rng, str(rng.choice(['one', 'replicas', 'ensembles'])), 8, nmax, allow_bare=False, maxens=2)
        obsl = make_dobs_list(ctx, rng, nobs, ['identical', 'different'][(idx // 6) % 2], 'real', nmax, master=master)
    else:
        obsl = make_pobs_list(ctx, rng, nobs, 'real', nmax, lay=rt_io.rand_layout(rng, str(rng.choice(['one', 'replicas'])), 8, nmax, allow_bare=False))
    name = text_option(rng, allow_empty=False)
    spec = text_option(rng)
    origin = text_option(rng)
    sym_kind = ['none', 'empty', 'words', 'letters'][(idx // 12) % 4]
    symbol = {'none': None, 'empty': [], 'words': ['obs%d' % i for i in range(nobs)], 'letters': [chr(ord('p') + i) for i in range(nobs)]}[sym_kind]
    kw = dict(spec=spec, origin=origin)
    if symbol is not None:
        kw['symbol'] = symbol
    ens = sorted(set(n.split('|')[0] for o in obsl for n in o.names if n not in o.covobs))
    gz = bool(rng.integers(0, 2))
    exp_desc = {'spec': spec, 'origin': origin, 'name': name}
    if fmt == 'dobs':
        who = [None, 'a person', 'x'][int(rng.integers(0, 3))]
        if who is not None:
            kw['who'] = who
        enstags = None
        if rng.random() < 0.5:
            enstags = {e: 'tag_' + e for e in ens}
            kw['enstags'] = dict(enstags)
        mode = 'r'          # replica parts start with r and no ensemble name contains one: names are restored whatever the enstag
    else:
        who = None
        enstag = [None, '', 'E_' + ens[0]][int(rng.integers(0, 3))]
        if enstag is not None:
            kw['enstag'] = enstag
        exp_desc['enstag'] = enstag if enstag else ens[0]
        mode = len(ens[0])
    for o in obsl:
        o.tag = str(rng.choice(['own tag', 'None', 'x'])) if rng.random() < 0.5 else None
    ctx.cell('options', fmt, nobs, sym_kind, 'gz' if gz else 'plain')
    ctx.count('option_cases')
    opts = dict(format=fmt, options=sorted(kw), symbol=sym_kind, gz=gz)
    before = frozen_list(obsl)
    kw_before = repr(sorted(kw.items()))
    target = os.path.join(tmp, 'opt')
    if fmt == 'dobs':
        if rng.random() < 0.4:
            r = DIO.import_dobs_string(DIO.create_dobs_string(obsl, name, **kw), full_output=True, separator_insertion=mode)
        else:
            DIO.write_dobs(obsl, target, name, gz=gz, **kw)
            r = DIO.read_dobs(target, full_output=True, gz=gz, separator_insertion=mode)
    else:
        DIO.write_pobs(obsl, target, name, gz=gz, **kw)
        r = DIO.read_pobs(target, full_output=True, gz=gz, separator_insertion=mode)
    ctx.require(repr(sorted(kw.items())) == kw_before, 'argument-modified-by-writer:keyword-options', {'before': kw_before[:200], 'after': repr(sorted(kw.items()))[:200]})
    if not ctx.require(isinstance(r, dict) and 'obsdata' in r and isinstance(r.get('description'), dict), fmt + ':full-output-form', {'type': type(r).__name__}):
        return
    # C12 speaks about the observables; what full_output returns about the options is telemetry (counted, not judged)
    def tele(name, ok):
        ctx.count('options:%s-%s' % (name, 'returned' if ok else 'not-returned-by-full-output'))
    tele('program-version', str(r.get('program', '')).startswith('pyerrors') and r.get('version') == '1.0')
    if fmt == 'dobs':
        import getpass
        tele('who', r.get('who') == (who if who is not None else getpass.getuser()))
        tele('enstags', r.get('enstags') == {e: (enstags[e] if enstags else e) for e in ens})
    got_desc = dict(r['description'])
    got_symbol = got_desc.pop('symbol', None)
    tele('description', got_desc == exp_desc)
    if symbol:
        exp_symbol = ' '.join(symbol) if fmt == 'dobs' else ' '.join(['cfg'] + symbol)
        tele('symbol', got_symbol == exp_symbol)
        # what IS judged: the imported observables must not pick up garbage - "tags are not written or recovered
        # automatically", so a tag is absent or the observable's own symbol, never a character of the joined symbol string
        rt_io.judged(ctx, T_SYMBOL_TAGS)
        tags = [o.tag for o in r['obsdata']]
        if any(t is not None and t != s_ for t, s_ in zip(tags, symbol)):
            ctx.violation(T_SYMBOL_TAGS if fmt == 'dobs' else 'pobs:tags-after-import', {'tags': tags, 'symbol': symbol})
    judge_list(ctx, rng, r['obsdata'], obsl, mode, fmt, opts, opts, before=before)


# ------------------------------------------------------------------------------------------
# requests the documentation says are refused
# ------------------------------------------------------------------------------------------
def run_refuse(ctx, rng, idx, tmp):
    row = ['pobs-several-ensembles', 'pobs-other-ensemble', 'pobs-more-replicas', 'pobs-fewer-replicas', 'pobs-enstag-not-str', 'pobs-symbol-not-list',
           'pobs-symbol-wrong-length', 'dobs-symbol-not-list', 'dobs-symbol-wrong-length', 'dobs-separator-not-str-or-int', 'pobs-separator-not-str-or-int',
           'dobs-inconsistent-covariance'][idx % 12]
    lay = rt_io.rand_layout(rng, 'replicas', 8, 16, allow_bare=False, ens_pool=['A', 'AB'])
    e = sorted(lay)[0]
    chains = lay[e]
    a = rt_io.primary(PE, rng, chains, 'white', special=False)
    other_e = 'AB' if e == 'A' else 'A'                                  # prefix-sharing ensemble names
    on_other = rt_io.primary(PE, rng, {c.replace(e + '|', other_e + '|'): v for c, v in chains.items()}, 'white', special=False)
    one_rep = {c: chains[c] for c in sorted(chains)[:1]}
    ctx.cell('refuse', row)
    about_observables = row in ('pobs-several-ensembles', 'pobs-other-ensemble', 'pobs-more-replicas', 'pobs-fewer-replicas', 'dobs-inconsistent-covariance')
    if about_observables:
        rt_io.judged(ctx, 'xml:invalid-request-accepted:' + row)
    name = os.path.join(tmp, 'refuse')
    try:
        if row == 'pobs-several-ensembles':
            DIO.write_pobs([a + on_other], name, 'n')
        elif row == 'pobs-other-ensemble':
            DIO.write_pobs([a, on_other][::int(rng.choice([1, -1]))], name, 'n')
        elif row == 'pobs-more-replicas':
            DIO.write_pobs([rt_io.primary(PE, rng, one_rep, 'white', special=False), a], name, 'n')
        elif row == 'pobs-fewer-replicas':
            DIO.write_pobs([a, rt_io.primary(PE, rng, one_rep, 'white', special=False)], name, 'n')
        elif row == 'pobs-enstag-not-str':
            DIO.write_pobs([a], name, 'n', enstag=[5, 2.5, ['E']][int(rng.integers(0, 3))])
        elif row == 'pobs-symbol-not-list':
            DIO.write_pobs([a], name, 'n', symbol='s')
        elif row == 'pobs-symbol-wrong-length':
            DIO.write_pobs([a, 1.0 * a], name, 'n', symbol=['s'] if rng.random() < 0.5 else ['s', 't', 'u'])
        elif row == 'dobs-symbol-not-list':
            DIO.write_dobs([a], name, 'n', symbol='s')
        elif row == 'dobs-symbol-wrong-length':
            DIO.write_dobs([a, on_other], name, 'n', symbol=['s'] if rng.random() < 0.5 else ['s', 't', 'u'])
        elif row == 'dobs-separator-not-str-or-int':
            DIO.write_dobs([a], name, 'n')
            DIO.read_dobs(name, separator_insertion=[1.5, [1], (2,)][int(rng.integers(0, 3))])
        elif row == 'pobs-separator-not-str-or-int':
            DIO.write_pobs([a], name, 'n')
            DIO.read_pobs(name, separator_insertion=[1.5, [1], (2,)][int(rng.integers(0, 3))])
        else:
            c1 = PE.cov_Obs([1.0, 2.0], [[0.1, 0.01], [0.01, 0.2]], 'cv')
            c2 = PE.cov_Obs([1.0, 2.0], [[0.1, 0.02], [0.02, 0.2]], 'cv')       # the same name for another matrix
            DIO.write_dobs([a + c1[0], on_other + c2[1]], name, 'n')
    except Exception:
        ctx.count('invalid_requests_refused' if about_observables else 'options:invalid-option-value-refused')
        return
    if about_observables:
        # a list the format cannot hold was written: the observables in the file are not the ones handed in
        ctx.violation('xml:invalid-request-accepted:' + row, {'row': row})
    else:
        ctx.count('options:invalid-option-value-accepted')


def run_case(ctx, kind, idx, rng):
    with tempfile.TemporaryDirectory(prefix='vmon_C12_', dir='/var/tmp') as tmp:
        if kind == 'options':
            run_options(ctx, rng, idx, tmp)
        elif kind == 'refuse':
            run_refuse(ctx, rng, idx, tmp)
        elif kind == 'history':
            run_history(ctx, rng, idx, tmp)
        elif kind == 'alias':
            run_alias(ctx, rng, idx, tmp)
        elif kind.startswith('dobs'):
            run_dobs(ctx, rng, kind, idx, tmp)
        else:
            run_pobs(ctx, rng, kind, idx, tmp)
