"""C06 - covariance / correlation matrices are consistent with the individual errors; helpers agree.

Monitors
  M1  reference-model monitor tapped on `covariance`: every call made anywhere in the workload
      (directly, through error_band, ...) is recomputed by ref.cov from snapshots of the
      observables (dictionaries keyed by configuration number) and the analysed errors, and the
      algebraic facts (symmetry, diagonal, unit diagonal, range, trace under smoothing) are checked
      on the returned matrix itself.
  M2  per-case oracles that need knowledge of how the list was generated: zero for disjoint
      support, permutation equivariance, Pearson identity from the generated tables, positive
      semi-definiteness, J Sigma J^T with the Jacobian typed analytically.
  M3  helper oracles: invert_corr_cov_cholesky, sort_corr, smoothing admissibility, error_band.
"""
import math

import numpy as np

from .. import taps, gen
from ..ctx import Skip, digest
from ..snap import snap, is_obs, any_digest
from ..ref import cov as rcov

ID = 'C06'
LEVEL = 'exploration'
DECIDING = ['tap:covariance', 'cov_calls_judged', 'scale_sweeps_judged', 'histories_judged', 'function_histories_judged', 'coincidence_cases', 'rank_deficient_cases', 'empty_replica_cases', 'option_value_cases', 'pearson_pairs', 'permutations_judged', 'external_JSJ_judged',
            'chol_judged', 'sort_corr_judged', 'smooth_judged', 'error_band_judged']
RULE = ('cases: lists of 2/3/5/8 analysed observables with support {one chain, replicas (subsets), two ensembles, covariance inputs only, '
        'mixed} x list relation {identical, nested, overlapping} (primaries and derived quantities, lengths 12-60 quick / up to 300 '
        'thorough, random S / tau_exp / N_sigma per observable), output cov / corr / every admissible smoothing E, random permutations, '
        'an observable with disjoint support mixed in; scale sweep (each observable multiplied by +-10^k, k in -8..8, judged by the same '
        'reference with tolerances relative to err_i err_j, plus cov(c_i a, c_j b) = c_i c_j cov(a, b)); coincidences (equal means incl. exactly 0, equal errors, correlation exactly +-1 between different objects, '
        'duplicates), more observables than samples, a replica without common configurations, numpy-typed option values; call histories with twin lists '
        'sharing length / first / last member; helper rows for invert_corr_cov_cholesky, sort_corr, smoothing admissibility and '
        'error_band (parameter errors from 1e-10 to 1e2, homogeneity for linear models); non-trivial: an off-diagonal entry with |corr| in (0.05, 0.95) was compared with the reference (helpers: a matrix '
        'with such an entry went through the helper); distinct = digest of the observables\' data, errors and options')
ASSUMPTIONS = ['scaling relations (cov(c_i a, c_j b) = c_i c_j cov(a, b), homogeneity of error_band) are judged for one chain / replicas / several ensembles / '
               'purely external inputs; for observables mixing Monte Carlo chains and covariance inputs they are counted only (not stated by the property)',
               'covariance = window-0 correlation on the common configurations rescaled by the analysed errors (documented definition)',
               'admissible smoothing parameter: 2 < E < dim - 1 (the end points named in the documentation are counted, not judged)',
               'positive semi-definiteness is only judged for a single chain with identical lists and for purely external inputs',
               'reference vs library: correlation atol 1e-10, covariance rtol 1e-9 of err_i err_j; helpers scaled by the condition number',
               'observables have non-zero error on every chain (constant data is outside the quantifier: the correlation is 0/0)']
BUDGET = {'quick': 45, 'thorough': 540}

PE = None
CTX = None

SIZES = [2, 3, 5, 8]
SUPPORTS = ['one_chain', 'replicas', 'two_ens', 'cov_only', 'mixed']
RELATIONS = ['identical', 'nested', 'overlapping']


# ------------------------------------------------------------------------------------------
# M1: reference monitor on covariance
class CovMonitor(taps.Monitor):
    def before(self, args, kwargs):
        try:
            obs = kwargs['obs'] if 'obs' in kwargs else args[0]
            lst = list(obs)
            if not lst or not all(is_obs(o) for o in lst):
                return None
            if not all(hasattr(o, 'e_dvalue') for o in lst):
                return ('unanalysed', None, None)
            self.digest_before = any_digest(lst)
            return ('ok', [snap(o) for o in lst], [float(o.dvalue) for o in lst])
        except Exception:
            return None

    def after(self, token, args, kwargs, result, exc):
        ctx = CTX
        if token is None:
            ctx.count('cov_calls_not_judged')
            return
        state, snaps, errs = token
        if state == 'ok' and exc is None:
            obs_after = list(kwargs['obs'] if 'obs' in kwargs else args[0])
            if any_digest(obs_after) != self.digest_before:
                ctx.count('arguments_modified_by_call:covariance')
        if state == 'unanalysed':
            ctx.ev()
            if exc is None:
                ctx.violation('covariance:unanalysed-operand-accepted', {'result': repr(result)[:200]})
            else:
                ctx.count('cov_unanalysed_rejected')
            return
        names = ('obs', 'visualize', 'correlation', 'smooth')
        kw = dict(zip(names, args))
        kw.update(kwargs)
        correlation = kw.get('correlation', False)
        if isinstance(correlation, np.bool_):
            correlation = bool(correlation)                  # numpy's True / False are the documented flag values
        sm = kw.get('smooth', None)
        if isinstance(sm, np.integer):
            sm = int(sm)                                     # a numpy integer is an integer smoothing parameter
        n = len(snaps)
        smoothing = isinstance(sm, int)
        if exc is not None:
            if smoothing and isinstance(exc, ValueError) and sm not in rcov.admissible_E(n)[0]:
                ctx.count('cov_inadmissible_E_rejected')
                return
            # anything else is left to the caller / the worker's exception classifier
            ctx.count('cov_calls_raised')
            return
        if any((not np.isfinite(e)) or e <= 0 for e in errs):
            ctx.count('cov_calls_not_judged')
            return
        key = self.digest_before + repr(errs)
        if getattr(self, 'memo_key', None) != key:
            self.memo_key, self.memo = key, rcov.matrices(snaps, errs)
        m, corr, cov = self.memo
        if not np.all(np.isfinite(corr)):
            ctx.count('cov_calls_not_judged')
            return
        got = np.asarray(result, dtype=float)
        ctx.count('cov_calls_judged')
        what = 'n=%d correlation=%r smooth=%r' % (n, correlation, sm)
        if got.shape != (n, n):
            ctx.ev()
            ctx.violation('covariance:result-shape', {'got': got.shape, 'n': n})
            return
        outer = np.outer(errs, errs)
        unit = np.ones((n, n)) if correlation is True else outer
        if smoothing:
            if sm not in rcov.admissible_E(n)[0]:
                if sm in rcov.admissible_E(n)[1]:
                    ctx.count('smooth_endpoint_E_accepted')
                else:
                    ctx.ev()
                    ctx.violation('smooth:inadmissible-E-accepted', {'E': sm, 'n': n})
                return
            exp_corr, lam_min, vals = rcov.smooth(corr, sm)
            ctx.count('smooth_judged')
            gcorr = got / unit
            # trace preserved (the correlation matrix has trace n)
            ctx.close(float(np.trace(gcorr)), float(n), 'smooth:trace-not-preserved', what, rtol=1e-11)
            ctx.close(gcorr, exp_corr, 'smooth:differs-from-spectral-definition', what, rtol=0, atol=1e-11 * max(1.0, 1.0 / max(lam_min, 1e-3)))
            ctx.close(gcorr, gcorr.T, 'smooth:asymmetric', what, rtol=0, atol=1e-12)
            if lam_min > 0:
                # every eigenvalue is at least lam_min / mean > 0 (the estimate itself need not be PSD for replica subsets)
                ev = np.linalg.eigvalsh((gcorr + gcorr.T) / 2)
                ctx.require(ev[0] >= -1e-11 * ev[-1], 'smooth:not-positive-semi-definite', {'eig': ev})
            return
        exp = corr if correlation is True else cov
        # reference
        ctx.ev()
        ctx.count('judged:covariance:differs-from-reference:' + ('corr' if correlation is True else 'cov'))
        dev = np.abs(got - exp) / unit
        tol = 1e-12            # sums and products only: a few hundred ulp of err_i err_j (pass 4: was 1e-10 / 1e-9)
        if not np.all(dev <= tol):
            i, j = np.unravel_index(int(np.argmax(np.where(np.isnan(dev), np.inf, dev))), dev.shape)
            mech = 'covariance:diagonal-differs-from-reference' if i == j else 'covariance:off-diagonal-differs-from-reference'
            ctx.violation(mech, {'what': what, 'at': (int(i), int(j)), 'got': got[i, j], 'exp': exp[i, j],
                                 'err_i': errs[i], 'err_j': errs[j], 'chains_i': sorted(snaps[i]['chains']), 'chains_j': sorted(snaps[j]['chains']),
                                 'cov_i': sorted(snaps[i]['cov']), 'cov_j': sorted(snaps[j]['cov'])})
        # algebraic facts on the returned matrix itself
        ctx.close(got / unit, (got / unit).T, 'covariance:asymmetric', what, rtol=0, atol=1e-13)
        if correlation is True:
            ctx.close(np.diag(got), np.ones(n), 'correlation:diagonal-not-one', what, rtol=0, atol=1e-12)
            ctx.require(bool(np.all(np.abs(got) <= 1 + 1e-12)), 'correlation:entry-outside-[-1,1]', {'max': float(np.max(np.abs(got)))})
        else:
            ctx.close(np.diag(got) / np.diag(outer), np.ones(n), 'covariance:diagonal-not-squared-error', what, rtol=0, atol=1e-11,
                      detail={'diag': np.diag(got), 'errs2': np.diag(outer)})
            ctx.require(bool(np.all(np.abs(got) <= outer * (1 + 1e-11))), 'covariance:entry-exceeds-product-of-errors',
                        {'max_ratio': float(np.max(np.abs(got) / outer))})
        off = np.abs(corr[~np.eye(n, dtype=bool)])
        if np.any((off > 0.05) & (off < 0.95)):
            ctx.nontrivial.add(digest('cov', [s['value'] for s in snaps], errs, bool(correlation is True), m))


# ------------------------------------------------------------------------------------------
# generation of lists of observables
def relate(rng, cfgs, relation, g):
    """A configuration list related to the base list cfgs (sorted ints on a grid of spacing g).  Every list
    keeps two neighbours at distance g, so that all replicas of an ensemble have the common spacing the
    error analysis requires."""
    if relation == 'identical':
        return list(cfgs)
    if relation == 'nested':
        k = max(10, int(len(cfgs) * rng.uniform(0.6, 0.95)))
        if k >= len(cfgs):
            k = len(cfgs) - 1
        sub = set(rng.choice(cfgs, size=k, replace=False).tolist())
        pairs = [a for a, b in zip(cfgs, cfgs[1:]) if b - a == g]
        a = pairs[int(rng.integers(0, len(pairs)))]
        sub |= {a, a + g}
        if len(sub) == len(cfgs):
            rest = sorted(sub - {a, a + g})
            sub.discard(rest[int(rng.integers(0, len(rest)))])
        return sorted(int(c) for c in sub)
    # overlapping: drop a leading part, append new configurations behind
    k = max(1, int(len(cfgs) * rng.uniform(0.1, 0.35)))
    return list(cfgs[k:]) + [cfgs[-1] + g * (i + 1) for i in range(k)]


class Layout:
    """Base chains and a common signal per chain (so that observables are correlated)."""

    def __init__(self, rng, tier, ensembles):
        self.rng = rng
        self.base = {}     # chain -> sorted cfg list
        self.signal = {}   # chain -> {cfg: value} (defined lazily on demand)
        self.slow = {}
        nmax = 60 if tier == 'quick' else int(rng.choice([60, 120, 300]))
        self.grid = {}
        for e, reps in ensembles:
            g = int(rng.choice([1, 1, 2, 3]))      # one spacing per ensemble
            for r in reps:
                name = e if r is None else '%s|%s' % (e, r)
                n = int(rng.integers(12, nmax + 1))
                kind = str(rng.choice(['contig', 'gapped', 'irregular'] if g == 1 else ['strided', 'gapped']))
                idl = [int(c) for c in gen.rand_idl(rng, n, kind, step=g, as_type='list')]
                if min(b - a for a, b in zip(idl, idl[1:])) != g:
                    raise Skip()
                self.base[name] = idl
                self.grid[name] = g
                self.signal[name] = {}
                self.slow[name] = float(rng.uniform(0.0, 0.9))

    def sig(self, chain, cfgs):
        s = self.signal[chain]
        a = self.slow[chain]
        prev = 0.0
        for c in sorted(cfgs):
            if c not in s:
                s[c] = a * prev + float(self.rng.normal())
            prev = s[c]
        return [s[c] for c in cfgs]

    def table(self, chains, relation):
        rng = self.rng
        mean = float(rng.choice([0.0, 1.0, -2.5, 10.0]))
        scale = float(rng.choice([1.0, 1.0, 1.0, 1e-6, 1e5]))
        a = float(rng.uniform(0.3, 1.5)) * float(rng.choice([-1, 1]))
        b = float(rng.uniform(0.3, 1.5))
        if rng.random() < 0.12:
            a = 0.0                      # uncorrelated with the others (up to noise)
        tab = {}
        for c in chains:
            rel = relation if relation == 'identical' else str(rng.choice(['identical', relation, relation]))
            cfgs = relate(rng, self.base[c], rel, self.grid[c])
            s = self.sig(c, cfgs)
            tab[c] = {cfg: scale * (mean + a * sv + b * float(rng.normal())) for cfg, sv in zip(cfgs, s)}
        return tab


def table_deltas(tab, chain):
    d = tab[chain]
    mean = math.fsum(d.values()) / len(d)
    return {c: v - mean for c, v in d.items()}


def make_cov_inputs(rng, nnames):
    """covariance inputs of dimension 1-3: full matrices, and DIAGONAL ones given either as a diagonal matrix or as the
    1-d list of variances (uncorrelated external inputs)."""
    pe = PE
    out = {}
    for name in ['cvA', 'cvB', 'cvA1'][:nnames]:
        dim = int(rng.integers(1, 4))
        means = rng.uniform(0.5, 2.0, size=dim)
        form = 'full'
        if dim == 1:
            sig = gen.cov_matrix(rng, 1) * 0.01
            arg = float(sig[0, 0]) if rng.random() < 0.7 else [float(sig[0, 0])]
        else:
            form = str(rng.choice(['full', 'diagonal_matrix', 'variances']))
            if form == 'full':
                sig = gen.cov_matrix(rng, dim) * 0.01
                arg = sig
            else:
                var = rng.uniform(0.2, 3.0, size=dim) * 0.01          # clearly different variances
                sig = np.diag(var)
                arg = sig if form == 'diagonal_matrix' else (var.tolist() if rng.random() < 0.5 else var)
        CTX.cell('covinput', 'dim%d' % dim, form)
        o = pe.cov_Obs(means.tolist() if dim > 1 else float(means[0]), arg, name)
        out[name] = ([o] if dim == 1 else list(o), means, sig)
    return out


def external_function(rng, covin):
    """A random smooth function of the covariance inputs with its Jacobian typed analytically.
    returns (Obs, {name: gradient vector})."""
    names = sorted(covin)
    use = [n for n in names if rng.random() < 0.7] or [names[int(rng.integers(0, len(names)))]]
    res = None
    jac = {}
    for n in use:
        obs, means, sig = covin[n]
        dim = len(obs)
        kind = str(rng.choice(['linear', 'linear', 'product', 'exp', 'ratio', 'single']))
        w = rng.uniform(0.3, 2.0, size=dim) * rng.choice([-1, 1], size=dim)
        if kind == 'linear':
            term = sum(float(w[k]) * obs[k] for k in range(dim))
            g = w.copy()
        elif kind == 'single':                      # one component only (no mixing)
            k0 = int(rng.integers(0, dim))
            term = float(w[k0]) * obs[k0]
            g = np.zeros(dim)
            g[k0] = w[k0]
        elif kind == 'product':
            term = float(w[0]) * obs[0]
            for k in range(1, dim):
                term = term * obs[k]
            prod_all = float(np.prod(means))
            g = np.array([float(w[0]) * prod_all / means[k] for k in range(dim)])
        elif kind == 'exp':
            lin = sum(float(w[k]) * obs[k] for k in range(dim))
            term = np.exp(0.3 * lin)
            val = math.exp(0.3 * float(np.dot(w, means)))
            g = 0.3 * w * val
        else:
            term = float(w[0]) / obs[0]
            g = np.zeros(dim)
            g[0] = -float(w[0]) / means[0] ** 2
            for k in range(1, dim):
                term = term + float(w[k]) * obs[k] ** 2
                g[k] = 2 * float(w[k]) * means[k]
        res = term if res is None else res + term
        jac[n] = g
    return res, jac


def analyse(rng, o):
    kw = {}
    r = rng.random()
    if r < 0.75:
        kw['S'] = float(rng.choice([0, 1, 1.5, 2, 3]))
    if rng.random() < 0.2:
        kw['tau_exp'] = float(rng.choice([2.0, 5.0]))
        kw['N_sigma'] = float(rng.choice([1, 2]))
    if rng.random() < 0.3:
        kw['fft'] = False
    o.gamma_method(**kw)
    return kw


def build_list(ctx, rng, size, support, relation):
    """returns dict(obs=[...], tables=[table or None], jac=[{cov name: grad} or None], info)."""
    pe = PE
    tier = ctx.tier
    pool = list(gen.ENS_POOL)
    rng.shuffle(pool)
    if support == 'one_chain':
        ensembles = [(pool[0], [None] if rng.random() < 0.2 else [str(rng.choice(gen.REP_POOL))])]
    elif support == 'replicas':
        ensembles = [(pool[0], sorted(rng.choice(gen.REP_POOL, size=int(rng.integers(2, 4)), replace=False).tolist()))]
    elif support == 'two_ens':
        ensembles = [(pool[0], gen.rand_reps(rng, 2)), (pool[1], gen.rand_reps(rng, 2))]
    elif support == 'mixed':
        ensembles = [(pool[0], gen.rand_reps(rng, 2))]
        if rng.random() < 0.5:
            ensembles.append((pool[1], gen.rand_reps(rng, 2)))
    else:
        ensembles = []
    lay = Layout(rng, tier, ensembles) if ensembles else None
    covin = make_cov_inputs(rng, int(rng.integers(1, 4))) if support in ('cov_only', 'mixed') else None
    obs, tables, jacs = [], [], []
    for i in range(size):
        tab = None
        jac = None
        if support == 'cov_only':
            o, jac = external_function(rng, covin)
        else:
            chains_all = sorted(lay.base)
            if support == 'replicas':
                k = int(rng.integers(1, len(chains_all) + 1)) if rng.random() < 0.6 else len(chains_all)
                chains = sorted(rng.choice(chains_all, size=k, replace=False).tolist())
            elif support in ('two_ens', 'mixed') and len(ensembles) > 1 and rng.random() < 0.4:
                e = ensembles[int(rng.integers(0, 2))][0]
                chains = [c for c in chains_all if c.split('|')[0] == e]
            else:
                chains = chains_all
            tab = lay.table(chains, relation)
            o = None
            for e in sorted(set(c.split('|')[0] for c in chains)):
                sub = {c: tab[c] for c in chains if c.split('|')[0] == e}
                forms = {c: str(rng.choice(['list', 'ndarray', 'native'])) for c in sub}
                oo = gen.table_to_obs(pe, sub, forms)
                o = oo if o is None else o + oo
            if len(set(c.split('|')[0] for c in chains)) > 1:
                tab = None   # a sum over ensembles: Pearson-from-table oracle does not apply
            if support == 'mixed' and rng.random() < 0.6:
                ext, _ = external_function(rng, covin)
                o = o + float(rng.uniform(0.2, 2.0)) * ext * float(abs(o.value) + 1.0) * 0.1
                tab = None
            # derived quantities (unions of lists, non-linear functions)
            if obs and rng.random() < 0.2 and support != 'cov_only':
                k = int(rng.integers(0, len(obs)))
                how = str(rng.choice(['product', 'sum', 'sin']))
                if how == 'product':
                    o = o * obs[k]
                elif how == 'sum':
                    o = 0.5 * o - 1.5 * obs[k]
                else:
                    o = np.sin(o) + obs[k]
                tab = None
        if support != 'cov_only' and rng.random() < 0.12:
            # spectator: another ensemble (or covariance input) that enters with factor exactly zero - its names appear, nothing else may change
            used_e = set(e for e, _ in ensembles)
            e_sp = str(rng.choice([e for e in gen.ENS_POOL if e not in used_e]))
            t_sp = gen.rand_table(rng, e_sp, ['r1'], 12, 20, idl_kinds=['contig'], data_kinds=['white'])
            z = gen.table_to_obs(pe, t_sp)
            if rng.random() < 0.3:
                z = z + pe.cov_Obs(0.0, 0.01, 'cvSp')
            o = (0.0 * z + o) if rng.random() < 0.5 else (o + 0.0 * z)
            CTX.count('spectator_cases')
        obs.append(o)
        tables.append(tab)
        jacs.append(jac)
    # an observable without common support (different ensemble / different covariance input), prefix traps included
    disjoint = None
    if size >= 3 and rng.random() < 0.35:
        used = set(e for e, _ in ensembles)
        cand = [e for e in gen.ENS_POOL if e not in used]
        e = str(rng.choice(cand))
        t = gen.rand_table(rng, e, gen.rand_reps(rng, 2), 12, 30, idl_kinds=['contig', 'irregular'], data_kinds=['white', 'ar'])
        o = gen.table_to_obs(pe, t)
        if rng.random() < 0.4:
            o = o + pe.cov_Obs(0.0, 0.01, 'cvZ')
        disjoint = int(rng.integers(0, size))
        obs[disjoint] = o
        tables[disjoint] = None
        jacs[disjoint] = None
    params = [analyse(rng, o) for o in obs]
    if any((not np.isfinite(o.dvalue)) or o.dvalue <= 0 for o in obs):
        raise Skip()
    return dict(obs=obs, tables=tables, jacs=jacs, disjoint=disjoint, covin=covin, params=params,
                single_chain=(support == 'one_chain'), ensembles=ensembles)


# ------------------------------------------------------------------------------------------
def case_cov(ctx, rng, size, support, relation):
    pe = PE
    L = build_list(ctx, rng, size, support, relation)
    obs = L['obs']
    n = len(obs)
    as_array = bool(rng.integers(0, 2))
    arg = np.array(obs, dtype=object) if as_array else obs
    C = pe.covariance(arg)
    R = pe.covariance(obs, correlation=True)
    ctx.cell('cov', size, support, relation, 'cov')
    ctx.cell('cov', size, support, relation, 'corr')
    errs = np.array([o.dvalue for o in obs])
    # consistency of the two outputs with each other
    ctx.close(C / np.outer(errs, errs), R, 'covariance:cov-and-corr-outputs-inconsistent', 'cov = D corr D', rtol=0, atol=1e-12)

    # zero for disjoint support
    if L['disjoint'] is not None:
        d = L['disjoint']
        for j in range(n):
            if j != d:
                ctx.count('disjoint_pairs')
                ctx.require(C[d, j] == 0.0 and C[j, d] == 0.0 and R[d, j] == 0.0 and R[j, d] == 0.0,
                            'covariance:non-zero-for-disjoint-support',
                            {'names_d': obs[d].names, 'names_j': obs[j].names, 'cov': C[d, j], 'corr': R[d, j]})

    # permutation equivariance
    perm = [int(p) for p in rng.permutation(n)]
    if perm == list(range(n)):
        perm = perm[1:] + perm[:1]
    Cp = pe.covariance([obs[p] for p in perm]) if n <= 20 else rcov.permute(C, perm)
    Rp = pe.covariance([obs[p] for p in perm], correlation=True)
    ctx.count('permutations_judged')
    ctx.close(Cp / np.outer(errs[perm], errs[perm]), rcov.permute(C, perm) / np.outer(errs[perm], errs[perm]),
              'covariance:not-permutation-equivariant', 'cov perm %r' % (perm,), rtol=0, atol=1e-13)
    ctx.close(Rp, rcov.permute(R, perm), 'correlation:not-permutation-equivariant', 'corr perm %r' % (perm,), rtol=0, atol=1e-13)

    # Pearson identity from the generated tables (single chain, primaries)
    if L['single_chain']:
        tdel = [None if t_ is None else table_deltas(t_, next(iter(t_))) for t_ in L['tables']]
        for i in range(n):
            for j in range(i + 1, n):
                if L['tables'][i] is None or L['tables'][j] is None:
                    continue
                (ci,), (cj,) = list(L['tables'][i]), list(L['tables'][j])
                if ci != cj:
                    continue
                p = rcov.pearson_common(tdel[i], tdel[j])
                if p is None:
                    continue
                ctx.count('pearson_pairs')
                ctx.close(R[i, j], p, 'correlation:differs-from-Pearson-on-common-configurations', 'pair %d %d' % (i, j), rtol=0, atol=1e-12,
                          detail={'n_i': len(L['tables'][i][ci]), 'n_j': len(L['tables'][j][cj])})
                ctx.close(C[i, j], p * errs[i] * errs[j], 'covariance:differs-from-Pearson-times-errors', 'pair %d %d' % (i, j),
                          rtol=1e-12, scale=errs[i] * errs[j])
                if 0.05 < abs(p) < 0.95:
                    ctx.nontrivial.add(digest('pearson', p, errs[i], errs[j]))
        # PSD when every list coincides (and no derived quantity widened a list)
        same = all(t is not None for t in L['tables']) and len(set(tuple(sorted(next(iter(t.values())))) for t in L['tables'])) == 1 \
            and len(set(next(iter(t)) for t in L['tables'])) == 1
        if same:
            ctx.count('psd_judged')
            ev = np.linalg.eigvalsh((R + R.T) / 2)
            ctx.require(ev[0] >= -1e-12 * ev[-1], 'correlation:not-positive-semi-definite-on-identical-lists', {'eig': ev})
            evc = np.linalg.eigvalsh((C + C.T) / 2)
            ctx.require(evc[0] >= -1e-12 * evc[-1], 'covariance:not-positive-semi-definite-on-identical-lists', {'eig': evc})

    # purely external inputs: J Sigma J^T with the Jacobian typed in the generator
    if support == 'cov_only':
        covin = L['covin']
        idx = [i for i in range(n) if L['jacs'][i] is not None]
        exp = np.zeros((n, n))
        for i in idx:
            for j in idx:
                acc = 0.0
                for name in set(L['jacs'][i]) & set(L['jacs'][j]):
                    acc += float(L['jacs'][i][name] @ covin[name][2] @ L['jacs'][j][name])
                exp[i, j] = acc
        sub = np.ix_(idx, idx)
        sc = np.sqrt(np.outer(np.diag(exp)[idx], np.diag(exp)[idx]))
        ctx.count('external_JSJ_judged')
        ctx.close(C[sub] / sc, exp[sub] / sc, 'covariance:external-inputs-not-J-Sigma-JT', 'cov_only n=%d' % n, rtol=0, atol=1e-12)
        ctx.close(errs[idx] ** 2, np.diag(exp)[idx], 'covariance:external-error-not-J-Sigma-JT', 'dvalue^2', rtol=1e-12)
        ev = np.linalg.eigvalsh((C[sub] + C[sub].T) / 2 / sc)
        ctx.require(ev[0] >= -1e-11 * max(ev[-1], 1e-300), 'covariance:external-not-positive-semi-definite', {'eig': ev})
        off = np.abs((exp[sub] / sc)[~np.eye(len(idx), dtype=bool)])
        if np.any((off > 0.05) & (off < 0.95)):
            ctx.nontrivial.add(digest('JSJ', exp))

    # every admissible smoothing parameter (and the inadmissible neighbours)
    adm, endp = rcov.admissible_E(n)
    if n >= 5:
        ctx.cell('cov', size, support, relation, 'smooth')
    if len(adm) > 6:
        adm = sorted(set([adm[0], adm[-1]] + [int(e_) for e_ in rng.choice(adm, size=2 if n > 20 else 4, replace=False)]))
    for E in adm:
        as_corr = bool(rng.integers(0, 2))
        pe.covariance(obs, correlation=as_corr, smooth=E)       # judged by the monitor
        ctx.cell('smooth', n, E)
    for E in (sorted(set([-1, 0, 1, n, n + 1]) | set(endp)) if n <= 20 else [1, n]):
        try:
            pe.covariance(obs, correlation=True, smooth=E)      # acceptance is judged by the monitor
            ctx.count('smooth_inadmissible_or_endpoint_E_returned')
        except ValueError:
            ctx.count('smooth_E_rejected')
    ctx.sample({'size': n, 'support': support, 'relation': relation, 'names': [list(o.names) for o in obs],
                'params': L['params'], 'errors': errs, 'corr_row0': R[0]})


def has_mc_and_external(obs):
    """some member has Monte Carlo chains AND covariance inputs with a non-zero gradient"""
    for o in obs:
        sn_ = snap(o)
        if sn_['chains'] and any(np.any(v[1] != 0) and np.any(v[0] != 0) for v in sn_['cov'].values()):
            return True
    return False


def scaling_relations(ctx, judge, obs, what):
    """judge(c) records violations of a scaling relation into the context c.  The property does not state unit covariance for
    observables that mix Monte Carlo chains and covariance inputs (the documented construction adds the dimensionful
    g^T Sigma g to dimensionless per-ensemble correlations): for such lists the relation is evaluated but only counted."""
    if not has_mc_and_external(obs):
        judge(ctx)
        return
    t = ctx.trial()
    judge(t)
    ctx.count('scaling_relation_not_judged_for_mixed_support')
    if t.violations:
        ctx.count('scaling_relation_observed_to_fail_for_mixed_support')


def case_scale(ctx, rng, support, relation):
    """Scale sweep: the same configuration of observables multiplied by c_i in +-10^(-8..8) (values and fluctuations) is judged by
    the same reference (monitor, tolerances relative to err_i err_j) and must satisfy cov(c_i a, c_j b) = c_i c_j cov(a, b) with the
    correlation unchanged up to sign(c_i c_j)."""
    pe = PE
    size = int(rng.choice([2, 3, 5]))
    L = build_list(ctx, rng, size, support, relation)
    obs = L['obs']
    n = len(obs)
    mode = str(rng.choice(['common', 'individual']))
    if mode == 'common':
        cs = np.full(n, float(rng.choice([-1, 1])) * float(10.0 ** rng.integers(-8, 9)))
    else:
        cs = rng.choice([-1.0, 1.0], size=n) * 10.0 ** rng.integers(-8, 9, size=n)
    ctx.cell('scale', support, relation, mode)
    for c in cs:
        ctx.cell('scale_decade', int(round(math.log10(abs(c)))))
    C = pe.covariance(obs)
    R = pe.covariance(obs, correlation=True)
    errs = np.array([o.dvalue for o in obs])
    obs2 = [float(c) * o for c, o in zip(cs, obs)]
    for o2, kw in zip(obs2, L['params']):
        o2.gamma_method(**kw)
    errs2 = np.array([o.dvalue for o in obs2])
    C2 = pe.covariance(obs2)                               # each call is judged by the monitor
    R2 = pe.covariance(obs2, correlation=True)
    sg = np.outer(np.sign(cs), np.sign(cs))
    ctx.count('scale_sweeps_judged')
    what = 'support %s relation %s factors %r' % (support, relation, cs.tolist())
    same_windows = bool(np.all(np.abs(errs2 / (np.abs(cs) * errs) - 1) < 1e-9))
    if not same_windows:
        ctx.count('scale_window_decision_changed')
    smoothed = None
    if n >= 5:
        E = int(rng.choice(rcov.admissible_E(n)[0]))
        smoothed = (E, pe.covariance(obs, correlation=True, smooth=E), pe.covariance(obs2, correlation=True, smooth=E))

    def judge(c):
        c.close(R2, R * sg, 'correlation:changes-under-rescaling-of-the-observables', what, rtol=0, atol=1e-12)
        if same_windows:
            c.close(C2 / (np.outer(cs, cs) * np.outer(errs, errs)), C / np.outer(errs, errs), 'covariance:not-homogeneous-of-degree-two-under-rescaling',
                    what, rtol=0, atol=1e-9)   # (the analysed errors of the scaled copy agree to 1e-9 by the test above)
        if smoothed is not None:
            c.close(smoothed[2] * sg, smoothed[1], 'smooth:changes-under-rescaling-of-the-observables', what + ' E=%d' % smoothed[0], rtol=0, atol=1e-8)
    scaling_relations(ctx, judge, obs, what)
    off = np.abs(R[~np.eye(n, dtype=bool)])
    if np.any((off > 0.05) & (off < 0.95)):
        ctx.nontrivial.add(digest('scale', cs, R))
    ctx.sample({'scale_sweep': cs, 'support': support, 'relation': relation, 'errors': errs, 'errors_scaled': errs2})


def case_history(ctx, rng):
    """Two different lists that share length, first and last observable (and chain names / lengths of every member): the results must
    not depend on what was computed before (identity- or summary-keyed caching)."""
    pe = PE
    support = str(rng.choice(['one_chain', 'two_ens', 'mixed', 'cov_only']))
    L = build_list(ctx, rng, int(rng.choice([3, 5])), support, str(rng.choice(RELATIONS)))
    obs = L['obs']
    n = len(obs)
    twin = list(obs)
    k = int(rng.integers(1, n - 1))
    how = str(rng.choice(['swap_interior', 'rescaled_member', 'copy_of_member']))
    if how == 'swap_interior' and n >= 4:
        j = k % (n - 2) + 1
        j = j if j != k else (k % (n - 2)) + 1
        twin[k], twin[j] = twin[j], twin[k]
    elif how == 'copy_of_member':
        twin[k] = 1.0 * obs[k]                                # equal data, different object
        twin[k].gamma_method(**L['params'][k])
    else:
        twin[k] = -0.5 * obs[k]                               # same names, lists and lengths, different data
        twin[k].gamma_method(**L['params'][k])
    ctx.cell('history', support, how)
    kw = dict(correlation=bool(rng.integers(0, 2)))
    first = pe.covariance(obs, **kw)
    other = pe.covariance(twin, **kw)                         # every call is judged by the monitor
    again = pe.covariance(obs, **kw)
    ctx.count('histories_judged')
    ctx.require(np.array_equal(first, again), 'covariance:result-depends-on-call-history', {'support': support, 'how': how})
    if how == 'copy_of_member':
        ctx.close(other, first, 'covariance:equal-data-in-a-different-object-gives-a-different-result', how, rtol=1e-13)
    ctx.nontrivial.add(digest('history', first, other))


def case_coincidence(ctx, rng, variant, support):
    """Coincidences at the level of central values / errors and members that == cannot tell apart: equal means (also exactly
    0.0), equal errors, correlation exactly +-1 between different objects, the same object twice next to an equal copy."""
    pe = PE
    n = int(rng.choice([3, 5]))
    L = build_list(ctx, rng, n, support, str(rng.choice(RELATIONS)))
    obs, params = list(L['obs']), list(L['params'])
    expect_unit = {}
    if variant in ('equal_means', 'zero_means'):
        t = 0.0 if variant == 'zero_means' else float(rng.uniform(-2, 2))
        obs = [o - o.value + t for o in obs]
    elif variant == 'equal_errors':
        e0 = float(obs[0].dvalue)
        obs = [o * (e0 / o.dvalue) for o in obs]
    elif variant == 'perfect_correlation':
        i, j, k = [int(v) for v in rng.permutation(n)[:3]]
        obs[j] = float(rng.uniform(0.5, 3.0)) * obs[i] + float(rng.uniform(-2, 2))      # different object, correlation +1
        obs[k] = -float(rng.uniform(0.5, 3.0)) * obs[i]                                  # correlation -1
        params[j] = params[k] = params[i]
        expect_unit = {(i, j): 1.0, (i, k): -1.0, (j, k): -1.0}
    else:  # duplicates
        i, j, k = [int(v) for v in rng.permutation(n)[:3]]
        obs[j] = obs[i]                                     # the very same object twice
        obs[k] = 1.0 * obs[i]                               # equal data in another object, with another tag
        obs[k].tag = 'copy'
        params[j] = params[k] = params[i]
        expect_unit = {(i, j): 1.0, (i, k): 1.0, (j, k): 1.0}
    for o, kw in zip(obs, params):
        o.gamma_method(**kw)
    if any((not np.isfinite(o.dvalue)) or o.dvalue <= 0 for o in obs):
        raise Skip()
    ctx.cell('coincidence', variant, support)
    ctx.count('coincidence_cases')
    C = pe.covariance(obs)                                   # judged by the monitor
    R = pe.covariance(obs, correlation=True)
    errs = np.array([o.dvalue for o in obs])
    if variant in ('equal_means', 'zero_means'):
        ctx.require(len(set(float(o.value) for o in obs)) == 1, 'harness:means-not-equal', {})
    if variant == 'equal_errors':
        ctx.close(np.diag(C) / errs[0] ** 2, np.ones(n), 'covariance:diagonal-not-squared-error', 'equal errors', rtol=0, atol=1e-11)
    if expect_unit and has_mc_and_external(obs):
        # affine images change the relative weight of Monte Carlo and external parts (documented construction, observation only)
        ctx.count('affine_relation_not_judged_for_mixed_support')
        expect_unit = {}
    for (a_, b_), sgn in expect_unit.items():
        ctx.close(R[a_, b_], sgn, 'correlation:affine-images-of-one-observable-not-perfectly-correlated', '%s pair %d %d' % (variant, a_, b_), rtol=0, atol=1e-12)
        ctx.close(C[a_, b_], sgn * errs[a_] * errs[b_], 'covariance:affine-images-of-one-observable-not-err-times-err', '%s pair %d %d' % (variant, a_, b_),
                  rtol=1e-12, scale=errs[a_] * errs[b_])
    if expect_unit:
        # a singular correlation matrix: the Cholesky helper has to refuse it (condition number beyond 0.1 / eps)
        condn = float(np.linalg.cond(R))
        if condn > 10 * 0.1 / np.finfo(float).eps:
            ctx.ev()
            ctx.count('judged:chol:singular-correlation-matrix-accepted')
            try:
                pe.obs.invert_corr_cov_cholesky(R, np.diag(1 / errs))
                ctx.violation('chol:singular-correlation-matrix-accepted', {'cond': condn, 'variant': variant})
            except (ValueError, np.linalg.LinAlgError):
                ctx.count('chol_singular_rejected')
    ctx.nontrivial.add(digest('coincidence', variant, R))


def case_rank_deficient(ctx, rng):
    """more observables than configurations on one chain: documented RuntimeWarning, and the matrix has rank <= N - 1"""
    import warnings as _w
    pe = PE
    nconf = int(rng.integers(5, 8))
    n = int(rng.integers(nconf, 9)) if nconf < 8 else 8
    n = max(n, nconf)
    name = 'A|r1'
    cfgs = list(range(3, 3 + nconf))
    sig = rng.normal(size=nconf)
    obs = []
    for i in range(n):
        x = float(rng.uniform(0.3, 1.5)) * sig * float(rng.choice([-1, 1])) + rng.normal(size=nconf) + float(rng.uniform(-2, 2))
        o = pe.Obs([x], [name], idl=[cfgs])
        o.gamma_method(S=0)
        obs.append(o)
    ctx.cell('rank_deficient', nconf, n)
    with _w.catch_warnings(record=True) as rec:
        _w.simplefilter('always')
        R = pe.covariance(obs, correlation=True)              # judged by the monitor
    ctx.count('rank_deficient_cases')
    ctx.require(any('rank deficient' in str(w_.message) for w_ in rec), 'covariance:no-warning-for-more-observables-than-samples', {'n': n, 'N': nconf})
    ev = np.linalg.eigvalsh((R + R.T) / 2)
    ctx.require(int(np.sum(ev < 1e-11 * ev[-1])) >= n - (nconf - 1), 'correlation:rank-exceeds-number-of-samples-minus-one', {'eig': ev, 'n': n, 'N': nconf})
    ctx.nontrivial.add(digest('rankdef', R))


def case_empty_replica(ctx, rng):
    """two replica of one ensemble; on one of them two members have no configuration in common: only the other replica contributes"""
    pe = PE
    e = str(rng.choice(gen.ENS_POOL))
    n1, n2 = int(rng.integers(12, 30)), int(rng.integers(12, 30))
    c1 = list(range(1, 1 + n1))
    c2a = list(range(5, 5 + n2))
    c2b = [c + n2 + int(rng.integers(0, 4)) for c in c2a]       # disjoint from c2a, same length
    s1, s2 = rng.normal(size=n1), rng.normal(size=2 * n2 + 10)
    ta = {e + '|r1': {c: 1.0 + s1[k] + 0.3 * rng.normal() for k, c in enumerate(c1)}, e + '|r2': {c: 1.0 + s2[k] + 0.3 * rng.normal() for k, c in enumerate(c2a)}}
    tb = {e + '|r1': {c: -2.0 - 0.7 * s1[k] + 0.3 * rng.normal() for k, c in enumerate(c1)}, e + '|r2': {c: -2.0 + s2[k] + 0.3 * rng.normal() for k, c in enumerate(c2b)}}
    a, b = gen.table_to_obs(pe, ta), gen.table_to_obs(pe, tb)
    third = 0.5 * a + 1.0
    for o in (a, b, third):
        o.gamma_method(S=float(rng.choice([0, 1, 2])))
    lst = [a, b, third] if rng.random() < 0.5 else [b, third, a]
    ctx.cell('empty_replica_intersection')
    ctx.count('empty_replica_cases')
    R = pe.covariance(lst, correlation=True)                   # judged by the monitor (reference skips the empty replica)
    ia, ib = lst.index(a), lst.index(b)
    da, db = table_deltas(ta, e + '|r1'), table_deltas(tb, e + '|r1')
    # (the stored fluctuations of a replica are taken about that replica's own mean)
    ctx.close(R[ia, ib], rcov.pearson_common(da, db), 'correlation:replica-without-common-configurations-contributes', 'only r1 overlaps', rtol=0, atol=1e-12)
    ctx.nontrivial.add(digest('emptyrep', R))


def case_option_values(ctx, rng):
    """option values the library's == cannot tell from the documented ones: numpy True for the correlation flag, a numpy integer
    as smoothing parameter; visualize=True must not change the result; a single-member list."""
    pe = PE
    L = build_list(ctx, rng, int(rng.choice([5, 8])), str(rng.choice(['one_chain', 'two_ens', 'replicas'])), str(rng.choice(RELATIONS)))
    obs = L['obs']
    n = len(obs)
    C = pe.covariance(obs)
    R = pe.covariance(obs, correlation=True)
    ctx.count('option_value_cases')
    flag = np.bool_(True) if rng.random() < 0.7 else (np.array([1, 2]) == 1)[0]
    ctx.close(pe.covariance(obs, correlation=flag), R, 'covariance:numpy-True-not-recognised-as-correlation-flag', 'correlation=np.True_', rtol=0, atol=1e-13)
    ctx.close(pe.covariance(obs, correlation=np.bool_(False)), C, 'covariance:numpy-False-changes-the-result', 'correlation=np.False_', rtol=1e-13)
    E = int(rng.choice(rcov.admissible_E(n)[0]))
    Es = [np.int64(E), np.int32(E), np.arange(10)[E]][int(rng.integers(0, 3))]
    ctx.close(pe.covariance(obs, correlation=True, smooth=Es), pe.covariance(obs, correlation=True, smooth=E),
              'covariance:numpy-integer-smoothing-parameter-silently-ignored', 'smooth=%s(%d)' % (type(Es).__name__, E), rtol=0, atol=1e-12)
    if rng.random() < 0.3:
        import matplotlib.pyplot as plt
        V = pe.covariance(obs, visualize=True)
        plt.close('all')
        ctx.require(np.array_equal(V, C), 'covariance:visualize-changes-the-result', {})
        ctx.count('visualize_cases')
    one = pe.covariance([obs[0]])                              # single member (monitor: reference 1 x 1)
    ctx.close(one, [[obs[0].dvalue ** 2]], 'covariance:single-member-list-not-the-squared-error', 'n=1', rtol=1e-12)
    ctx.nontrivial.add(digest('options', R, E))


def case_unanalysed(ctx, rng):
    pe = PE
    L = build_list(ctx, rng, 3, 'one_chain', 'nested')
    obs = L['obs']
    fresh = obs[1] * 1.0                                  # a new object without analysis results
    ctx.cell('helper', 'unanalysed')
    try:
        pe.covariance([obs[0], fresh, obs[2]])           # monitor flags acceptance
    except Exception as e:
        if 'gamma method' not in str(e) and 'gamma_method' not in str(e):
            raise
        ctx.count('unanalysed_rejected_with_message')


def spd_with_condition(rng, n, cond):
    q, _ = np.linalg.qr(rng.normal(size=(n, n)))
    ev = np.exp(rng.uniform(0, math.log(cond), size=n))
    ev[0], ev[-1] = 1.0, cond
    a = q @ np.diag(ev) @ q.T
    d = 1 / np.sqrt(np.diag(a))
    c = a * np.outer(d, d)
    return (c + c.T) / 2


def case_chol(ctx, rng):
    pe = PE
    src = str(rng.choice(['observables', 'observables', 'synthetic']))
    ctx.cell('helper', 'chol', src)
    if src == 'observables':
        n = int(rng.integers(2, 7))
        L = build_list(ctx, rng, n, str(rng.choice(['one_chain', 'mixed', 'cov_only', 'two_ens'])), 'identical')
        obs = L['obs']
        errs = np.array([o.dvalue for o in obs])
        _, corr, _ = rcov.matrices([snap(o) for o in obs], errs)     # reference correlation: the helper is judged on its own
    else:
        n = int(rng.integers(1, 9))
        corr = spd_with_condition(rng, n, float(10 ** rng.uniform(0, 8))) if n > 1 else np.ones((1, 1))
        errs = 10 ** rng.uniform(-4, 4, size=n)
    if not np.all(np.isfinite(corr)):
        raise Skip()
    exp_inv, cond = rcov.inverse_covariance(corr, errs) if np.linalg.cond(corr) < 1e15 else (None, float(np.linalg.cond(corr)))
    if cond > 1e10 or exp_inv is None:
        # ill conditioned: the helper may refuse (ValueError) - nothing to judge about the inverse
        try:
            pe.obs.invert_corr_cov_cholesky(corr, np.diag(1 / errs))
            ctx.count('chol_ill_conditioned_returned')
        except (ValueError, np.linalg.LinAlgError):
            ctx.count('chol_ill_conditioned_rejected')
        raise Skip()
    corr_arg, inv_arg = corr.copy(), np.diag(1 / errs)
    before = any_digest([corr_arg, inv_arg])
    got = pe.obs.invert_corr_cov_cholesky(corr_arg, inv_arg)
    if any_digest([corr_arg, inv_arg]) != before:
        ctx.count('arguments_modified_by_call:invert_corr_cov_cholesky')
    ctx.require(np.array_equal(np.asarray(pe.obs.invert_corr_cov_cholesky(corr_arg, inv_arg)), np.asarray(got)),
                'chol:second-call-with-the-same-argument-objects-differs', {'n': n})
    got = np.asarray(got, dtype=float)
    ctx.count('chol_judged')
    what = 'n=%d cond=%.2e source=%s' % (n, cond, src)
    ctx.require(got.shape == (n, n), 'chol:result-shape', {'shape': got.shape})
    ctx.require(bool(np.all(np.triu(got, 1) == 0)), 'chol:result-not-lower-triangular', {'upper': np.triu(got, 1)})
    prod = got.T @ got
    unit = np.outer(1 / errs, 1 / errs)
    scale = float(np.max(np.abs(exp_inv / unit)))
    ctx.close(prod / unit, exp_inv / unit, 'chol:cholinvT-cholinv-differs-from-inverse-covariance', what, rtol=1e-12 * max(cond, 10.0), scale=scale)
    # defining identity, independent of numpy's inverse: (L^-1 D^-1) (D corr D) (L^-1 D^-1)^T = 1
    cov = corr * np.outer(errs, errs)
    ctx.close(got @ cov @ got.T, np.eye(n), 'chol:does-not-whiten-the-covariance', what, rtol=0, atol=1e-12 * max(cond, 10.0))
    off = np.abs(corr[~np.eye(n, dtype=bool)]) if n > 1 else np.array([])
    if np.any((off > 0.05) & (off < 0.95)):
        ctx.nontrivial.add(digest('chol', corr, errs))


def case_chol_limit(ctx, rng):
    """condition numbers just below / above the documented thresholds of the Cholesky helper: refusal beyond 0.1 / eps (4.5e14), warning
    beyond 1e13; the helper's own measure np.linalg.cond(corr) decides, a factor 2 around each threshold is left unjudged"""
    import warnings as _w
    pe = PE
    n = int(rng.integers(2, 7))
    target = float(10 ** rng.uniform(12.0, 16.5))
    corr = spd_with_condition(rng, n, target)
    errs = 10 ** rng.uniform(-2, 2, size=n)
    condn = float(np.linalg.cond(corr))
    limit = 0.1 / np.finfo(float).eps
    ctx.cell('helper', 'chol_limit', int(np.floor(np.log10(condn))) if np.isfinite(condn) else 'inf')
    ctx.count('chol_limit_cases')
    raised, warned = None, False
    with _w.catch_warnings(record=True) as rec:
        _w.simplefilter('always')
        try:
            pe.obs.invert_corr_cov_cholesky(corr.copy(), np.diag(1 / errs))
        except ValueError as e:
            raised = 'ValueError' if 'condition number' in str(e) else 'other:' + str(e)[:40]
        except np.linalg.LinAlgError:
            raised = 'LinAlgError'
    warned = any('ill-conditioned' in str(w_.message) for w_ in rec)
    if condn > 2 * limit:
        ctx.require(raised == 'ValueError', 'chol:condition-number-beyond-the-documented-limit-accepted', {'cond': condn, 'raised': raised})
    elif condn < 0.5 * limit:
        ctx.require(raised != 'ValueError', 'chol:condition-number-below-the-documented-limit-refused', {'cond': condn, 'raised': raised})
        if raised is None and condn > 2e13:
            ctx.require(warned, 'chol:no-warning-for-an-ill-conditioned-matrix', {'cond': condn})
        if raised is None and condn < 0.5e13:
            ctx.require(not warned, 'chol:warning-for-a-well-conditioned-matrix', {'cond': condn})
    else:
        ctx.count('chol_limit_borderline_not_judged')
    ctx.nontrivial.add(digest('chollimit', corr))


KEY_POOL = ['a', 'b', 'B', 'a1', 'a10', 'a2', 'Z', 'ab', 'c_x', '10', '9', 'z|r1', '']


def case_sort_corr(ctx, rng):
    pe = PE
    nk = int(rng.integers(1, 6))
    kl = [str(k) for k in rng.choice(KEY_POOL, size=nk, replace=False)]
    src = str(rng.choice(['numbers', 'observables']))
    many = rng.random() < 0.2
    if many:
        # more than ten keys (numbered: 'k10' sorts before 'k2') and more than a hundred rows
        nk = int(rng.integers(11, 15))
        kl = ['k%d' % i for i in rng.permutation(nk + 3)[:nk]]
        src = 'numbers'
        ctx.count('many_key_cases')
    ctx.cell('helper', 'sort_corr', src, 'already_sorted' if kl == sorted(kl) else 'unsorted')
    if src == 'numbers':
        lengths = {k: int(rng.integers(0 if nk > 1 else 1, 5)) if not many else int(rng.integers(5, 13)) for k in kl}
        if sum(lengths.values()) == 0:
            lengths[kl[0]] = 2
        tot = sum(lengths.values())
        a = rng.normal(size=(tot, tot))
        corr = a + a.T + np.diag(np.arange(tot) * 10.0)          # all rows distinguishable
        yd = {k: [float(v) for v in rng.normal(size=lengths[k])] for k in kl}
        # the dictionary may list its keys in any order and contain the keys only
        items = list(yd.items())
        rng.shuffle(items)
        yd = dict(items)
        corr_arg, kl_arg = corr.copy(), list(kl)
        before = any_digest([corr_arg, kl_arg, yd])
        got = pe.obs.sort_corr(corr_arg, kl_arg, yd)
        if any_digest([corr_arg, kl_arg, yd]) != before:
            ctx.count('arguments_modified_by_call:sort_corr')
        ctx.require(np.array_equal(np.asarray(pe.obs.sort_corr(corr_arg, kl_arg, yd)), np.asarray(got)),
                    'sort_corr:second-call-with-the-same-argument-objects-differs', {'kl': kl})
        perm = rcov.sort_permutation(kl, lengths)
        ctx.count('sort_corr_judged')
        ctx.require(np.array_equal(np.asarray(got), rcov.permute(corr, perm)), 'sort_corr:not-the-key-sorted-permutation',
                    {'kl': kl, 'lengths': lengths, 'perm': perm})
        if perm != list(range(tot)):
            ctx.nontrivial.add(digest('sort', kl, lengths, corr))
    else:
        lengths = {k: int(rng.integers(1, 4)) for k in kl}
        tot = sum(lengths.values())
        if tot < 2:
            lengths[kl[0]] += 1
            tot += 1
        L = build_list(ctx, rng, tot, str(rng.choice(['one_chain', 'two_ens', 'mixed'])), str(rng.choice(RELATIONS)))
        obs = L['obs']
        yd, pos = {}, 0
        for k in kl:
            yd[k] = obs[pos:pos + lengths[k]]
            pos += lengths[k]
        corr = pe.covariance(obs, correlation=True)
        corr_arg, kl_arg = corr.copy(), list(kl)
        before = any_digest([corr_arg, kl_arg, yd])
        got = pe.obs.sort_corr(corr_arg, kl_arg, yd)
        if any_digest([corr_arg, kl_arg, yd]) != before:
            ctx.count('arguments_modified_by_call:sort_corr')
        ctx.require(np.array_equal(np.asarray(pe.obs.sort_corr(corr_arg, kl_arg, yd)), np.asarray(got)),
                    'sort_corr:second-call-with-the-same-argument-objects-differs', {'kl': kl})
        perm = rcov.sort_permutation(kl, lengths)
        ctx.count('sort_corr_judged')
        ctx.require(np.array_equal(np.asarray(got), rcov.permute(corr, perm)), 'sort_corr:not-the-key-sorted-permutation',
                    {'kl': kl, 'lengths': lengths, 'perm': perm})
        # = the correlation of the data arranged alphabetically by key
        direct = pe.covariance([o for k in sorted(kl) for o in yd[k]], correlation=True)
        ctx.close(np.asarray(got), direct, 'sort_corr:differs-from-correlation-of-sorted-data', 'kl=%r' % (kl,), rtol=0, atol=1e-13)
        off = np.abs(corr[~np.eye(tot, dtype=bool)])
        if perm != list(range(tot)) and np.any((off > 0.05) & (off < 0.95)):
            ctx.nontrivial.add(digest('sort', kl, lengths, corr))


def _models():
    import autograd.numpy as anp

    def build(xp):
        return {
            'linear': (2, lambda p, x: p[0] + p[1] * x),
            'quadratic': (3, lambda p, x: p[0] + p[1] * x + p[2] * x ** 2),
            'exponential': (2, lambda p, x: p[0] * xp.exp(-p[1] * x)),
            'two_exp': (4, lambda p, x: p[0] * xp.exp(-p[1] * x) + p[2] * xp.exp(-p[3] * x)),
            'sine': (3, lambda p, x: p[0] * xp.sin(p[1] * x) + p[2]),
            'rational': (3, lambda p, x: (p[0] + p[1] * x) / (1.0 + p[2] ** 2 * x ** 2)),
        }
    return build(anp), build(np)


def case_error_band(ctx, rng):
    pe = PE
    lib_models, ref_models = _models()
    name = str(rng.choice(sorted(lib_models)))
    k, f_lib = lib_models[name]
    _, f_ref = ref_models[name]
    support = str(rng.choice(['one_chain', 'cov_only', 'mixed', 'two_ens', 'replicas']))
    ctx.cell('helper', 'error_band', name, support)
    # parameters: observables with values of order one and correlated errors
    L = build_list(ctx, rng, k, support, 'identical' if support in ('one_chain', 'replicas') else str(rng.choice(RELATIONS)))
    # size of the parameter errors: swept over many decades (all judgements are relative to it)
    esize = 0.05 if rng.random() < 0.35 else float(10.0 ** rng.integers(-10, 2)) * float(rng.uniform(1, 9))
    ctx.cell('helper', 'error_band_error_decade', int(math.floor(math.log10(esize))))
    beta = []
    svals = []
    for o in L['obs']:
        target = float(rng.uniform(0.4, 1.6))
        b = o * (esize / o.dvalue) if o.dvalue > 0 else o
        b = b - b.value + target
        sval = float(rng.choice([0, 1, 2]))
        b.gamma_method(S=sval)
        svals.append(sval)
        beta.append(b)
    xs = np.sort(rng.uniform(0.0, 3.0, size=int(rng.integers(1, 6))))
    snaps = [snap(b) for b in beta]
    errs = [b.dvalue for b in beta]
    _, corr, cov = rcov.matrices(snaps, errs)
    ev = np.linalg.eigvalsh((cov + cov.T) / 2)
    exp, grads = rcov.band(f_ref, [b.value for b in beta], cov, xs)
    # the band is only defined where g^T C g is safely positive (the estimate need not be PSD for replica subsets)
    quad_scale = np.array([float(np.sum(np.abs(np.outer(g, g) * cov))) for g in grads])
    if not np.all(np.isfinite(exp)) or np.any(exp ** 2 < 1e-8 * quad_scale):
        raise Skip()
    arg_x = xs if rng.random() < 0.5 else list(xs)
    spectator = None
    if rng.random() < 0.3:
        # a parameter the model does not use, in the first or the last slot (correlated with the others): gradient exactly zero
        spectator = str(rng.choice(['first', 'last']))
        extra = 0.7 * beta[0] + 0.4 + (0.3 * beta[-1] if len(beta) > 1 else 0.0)
        extra.gamma_method(S=svals[0])
        f_core, r_core = f_lib, f_ref
        if spectator == 'first':
            beta = [extra] + beta
            f_lib = lambda p_, x_: f_core(p_[1:], x_)
            f_ref = lambda p_, x_: r_core(p_[1:], x_)
        else:
            beta = beta + [extra]
            f_lib = lambda p_, x_: f_core(p_[:-1], x_)
            f_ref = lambda p_, x_: r_core(p_[:-1], x_)
        svals = ([svals[0]] + svals) if spectator == 'first' else (svals + [svals[0]])
        ctx.count('spectator_cases')
        ctx.cell('helper', 'error_band_spectator', spectator)
    before = any_digest([arg_x, beta])
    got = pe.fits.error_band(arg_x, f_lib, beta)
    if any_digest([arg_x, beta]) != before:
        ctx.count('arguments_modified_by_call:error_band')
    ctx.count('error_band_judged')
    band_rtol = float(1e-13 * np.max(quad_scale / exp ** 2))       # condition of sqrt(g^T C g): sum of |terms| over the result (<= 1e-5 by the test above)
    ctx.count('judged:error_band:condition_decade:%d' % int(np.floor(np.log10(np.max(quad_scale / exp ** 2)))))
    ctx.close(np.asarray(got, dtype=float), exp, 'error_band:differs-from-sqrt-gT-C-g', 'model %s support %s error size %.1e' % (name, support, esize), rtol=band_rtol)
    # the SAME model function object with other parameter values and other points (nothing of the first call may be remembered)
    if rng.random() < 0.5:
        beta_b = [b + float(rng.uniform(0.2, 0.6)) for b in beta]
        for b2, sval in zip(beta_b, svals):
            b2.gamma_method(S=sval)
        xs_b = np.sort(rng.uniform(0.0, 3.0, size=int(rng.integers(1, 6))))
        _, _, cov_b = rcov.matrices([snap(b) for b in beta_b], [b.dvalue for b in beta_b])
        exp_b, grads_b = rcov.band(f_ref, [b.value for b in beta_b], cov_b, xs_b)
        qs_b = np.array([float(np.sum(np.abs(np.outer(g, g) * cov_b))) for g in grads_b])
        if np.all(np.isfinite(exp_b)) and not np.any(exp_b ** 2 < 1e-8 * qs_b):
            got_b = pe.fits.error_band(xs_b, f_lib, beta_b)
            ctx.count('function_histories_judged')
            ctx.close(np.asarray(got_b, dtype=float), exp_b, 'error_band:differs-from-sqrt-gT-C-g', 'second call with the same model function object, model %s' % name, rtol=float(1e-13 * np.max(qs_b / exp_b ** 2)))
            again = pe.fits.error_band(arg_x, f_lib, beta)
            ctx.require(np.array_equal(np.asarray(again, dtype=float), np.asarray(got, dtype=float)), 'error_band:result-depends-on-call-history', {'model': name})
    # models that are linear in the parameters: the band is homogeneous of degree one in the parameters
    if name in ('linear', 'quadratic'):
        c = float(rng.choice([-1, 1])) * float(10.0 ** rng.integers(-8, 9))
        beta2 = [c * b for b in beta]
        for b2, sval in zip(beta2, svals):
            b2.gamma_method(S=sval)
        if all(abs(b2.dvalue / (abs(c) * b.dvalue) - 1) < 1e-9 for b, b2 in zip(beta, beta2)):
            got2 = pe.fits.error_band(arg_x, f_lib, beta2)
            ctx.count('error_band_scaling_judged')
            scaling_relations(ctx, lambda cc: cc.close(np.asarray(got2, dtype=float) / abs(c), np.asarray(got, dtype=float),
                                                        'error_band:not-homogeneous-in-the-parameters-of-a-linear-model',
                                                        'model %s c=%g error size %.1e' % (name, c, esize), rtol=1e-9),
                              beta, 'error_band model %s c=%g' % (name, c))
        else:
            ctx.count('scale_window_decision_changed')
    off = np.abs(corr[~np.eye(k, dtype=bool)])
    if np.any((off > 0.05) & (off < 0.95)):
        ctx.nontrivial.add(digest('band', name, xs, cov))
    ctx.sample({'helper': 'error_band', 'error_size': esize, 'model': name, 'x': xs, 'beta': [b.value for b in beta], 'band': exp})


def instrument(ctx):
    """count how often every judgement (mechanism) is evaluated: counters 'judged:<mechanism>' in the evidence; trial contexts
    are instrumented as well (their counters arrive when the trial is absorbed)."""
    if getattr(ctx, '_vmon_instrumented', False):
        return ctx
    ctx._vmon_instrumented = True
    close, equal, require, trial = ctx.close, ctx.equal, ctx.require, ctx.trial

    def c_close(got, exp, mechanism, *a, **k):
        ctx.count('judged:' + mechanism)
        return close(got, exp, mechanism, *a, **k)

    def c_equal(got, exp, mechanism, *a, **k):
        ctx.count('judged:' + mechanism)
        return equal(got, exp, mechanism, *a, **k)

    def c_require(cond, mechanism, *a, **k):
        ctx.count('judged:' + mechanism)
        return require(cond, mechanism, *a, **k)

    def c_trial():
        return instrument(trial())
    ctx.close, ctx.equal, ctx.require, ctx.trial = c_close, c_equal, c_require, c_trial
    return ctx


# ------------------------------------------------------------------------------------------
def setup(ctx):
    global PE, CTX
    import pyerrors as pe
    PE = pe
    CTX = instrument(ctx)
    taps.tap_function(pe.obs, 'covariance', CovMonitor())


def teardown(ctx):
    taps.report(ctx)
    taps.remove_all()


def plan(tier):
    m = 2 if tier == 'quick' else 40
    p = []
    for size in SIZES:
        for sup in SUPPORTS:
            rels = RELATIONS if sup != 'cov_only' else ['identical']
            for rel in rels:
                reps = {2: 8, 3: 7, 5: 5, 8: 3}[size] * (3 if sup == 'cov_only' else (3 if sup == 'one_chain' and rel == 'identical' else (2 if sup == 'one_chain' else 1)))
                p.append(('cov:%d:%s:%s' % (size, sup, rel), reps * m))
    for sup in SUPPORTS:
        for rel in (RELATIONS if sup != 'cov_only' else ['identical']):
            p.append(('scale:%s:%s' % (sup, rel), 8 * m))
    # more than 10 / more than 100 members (positions with two and three digits)
    for sup, rel in (('one_chain', 'nested'), ('two_ens', 'identical'), ('mixed', 'overlapping'), ('replicas', 'identical'), ('cov_only', 'identical')):
        p.append(('cov:12:%s:%s' % (sup, rel), max(1, m // 2)))
    p.append(('cov:110:one_chain:nested', max(1, m // 4)))
    if tier != 'quick':
        p.append(('cov:104:two_ens:overlapping', 2))
    p.append(('history', 90 * m))
    for variant in ('equal_means', 'zero_means', 'equal_errors', 'perfect_correlation', 'duplicates'):
        for sup in ('one_chain', 'two_ens', 'mixed', 'replicas'):
            p.append(('coinc:%s:%s' % (variant, sup), 7 * m))
    p.append(('chollimit', 60 * m))
    p.append(('rankdef', 30 * m))
    p.append(('emptyrep', 30 * m))
    p.append(('optvals', 30 * m))
    p.append(('unanalysed', 5 * m))
    p.append(('chol', 100 * m))
    p.append(('sort_corr', 100 * m))
    p.append(('error_band', 100 * m))
    return p


def run_case(ctx, kind, idx, rng):
    k = kind.split(':')
    if k[0] == 'cov':
        case_cov(ctx, rng, int(k[1]), k[2], k[3])
    elif k[0] == 'scale':
        case_scale(ctx, rng, k[1], k[2])
    elif k[0] == 'history':
        case_history(ctx, rng)
    elif k[0] == 'coinc':
        case_coincidence(ctx, rng, k[1], k[2])
    elif k[0] == 'chollimit':
        case_chol_limit(ctx, rng)
    elif k[0] == 'rankdef':
        case_rank_deficient(ctx, rng)
    elif k[0] == 'emptyrep':
        case_empty_replica(ctx, rng)
    elif k[0] == 'optvals':
        case_option_values(ctx, rng)
    elif k[0] == 'unanalysed':
        case_unanalysed(ctx, rng)
    elif k[0] == 'chol':
        case_chol(ctx, rng)
    elif k[0] == 'sort_corr':
        case_sort_corr(ctx, rng)
    elif k[0] == 'error_band':
        case_error_band(ctx, rng)
    else:
        raise ValueError(kind)
