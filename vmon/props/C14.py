"""C14 - correlator arithmetic acts timeslice-wise, index maps are the stated permutations / averages,
and no method mutates its operands or arguments.

Monitors
  (a) mutation monitor: a tap on every public Corr method and operator (reflected operators, __repr__ /
      print, projected, the constructor ...) digests self and every argument before and after the call,
      in every workload; any change is flagged as  mutation:<method>:<self|argK|kw:name>.
  (b) timeslice oracle: ref.corr applies the same operation entry by entry with the scalar overloads
      (judged by C01) and predicts values, fluctuations and the pattern of undefined timeslices
      (undefined exactly where an operand is undefined or the scalar result is NaN); T and N preserved.
  (c) index maps compared with the explicit index formulas of ref.corr.
Every call is made twice with the same argument objects; the two results must be bit-identical.
"""
import copy
import hashlib
import inspect
import struct
import math
import operator
import os
import tempfile
import traceback

import numpy as np

from .. import taps, gen
from ..ctx import digest
from ..snap import snap, is_obs, is_cobs, is_corr
from ..ref import corr as refc

ID = 'C14'
LEVEL = 'exploration'
DECIDING = ['projected_normalize_near_unit_norm', 'rejections_judged', 'correlators_with_zero_valued_entries', 'mutation_calls_checked', 'timeslices_judged', 'entries_compared', 'index_map_calls', 'repeat_calls_compared', 'hardening_scenarios', 'held_results_checked',
            'tap:Corr.__add__', 'tap:Corr.__rtruediv__', 'tap:Corr.projected', 'tap:Corr.__repr__', 'tap:Corr.roll']
RULE = ('cases: correlators with T=2..16 (matrix content: mostly T<=8, 15% up to 16), N=1..3, real (Obs) or complex (CObs) content on 1-2 replicas with strided / gapped '
        'configuration lists, undefined timeslices of kind none / padding (constructor argument) / one interior / random set; '
        '(binop) every required cell of {+,-,*,/,**} x partner type {Corr, complex Corr, Obs, CObs, int, float, numpy float, complex} x '
        'operand order x content kind, each cell visited with each kind of undefined set, plus the cells the property leaves open '
        '(clean rejections are counted, results are judged); (func) 15 elementary functions + abs + neg, numpy style and method style, '
        'arguments inside and outside the domain; (index) roll, reverse, thin, symmetric, anti_symmetric, T_symmetry, item, projected '
        '(default / ndarray / list vectors, normalize on/off), trace, matrix_symmetric, Hankel (periodic on/off) with all shift / spacing / '
        'offset / parity arguments; (matmul); (history) sequences of 6-10 operations over a pool; (misc, gevp) remaining public methods for '
        'the mutation monitor; (hard) hardening scenarios: the same correlator / Obs / vector object in several argument slots and matrix '
        'positions, results held across a second wave of calls and state changes of results (set_prange, tag, gamma_method) that must not reach '
        'the operand, selectors at and beyond their boundaries (|dt| >= T, spacing > T, offsets beyond the spacing, T = 2, 3, numpy integer '
        'arguments, float parity), content handed over as C / Fortran / transposed / strided / reversed views, 1x1 matrices, int / float32 / '
        'strided vectors and matrices, near-symmetric matrices at scales 1e-8 ... 1e8. Generated correlators carry at random a tag, a stored '
        'prange, the reweighted flag, an earlier error analysis, bare chain names, an overall factor 1e-8 ... 1e8. '
        'Every call is repeated with the same argument objects. Non-trivial: at least one defined timeslice was '
        'compared in value and fluctuations and (an operand has an undefined timeslice or the operation is not the identity). '
        'distinct = digest of (operation label, arguments, operand data).')
ASSUMPTIONS = ['scalar overloads of Obs / CObs used by the reference on single entries are judged by C01',
               'tolerance 1e-10 * scale (scale = magnitude of result and operands) on values, fluctuations, replica means',
               'a result that would be undefined on every timeslice may raise instead (a completely undefined correlator cannot be constructed)',
               'cells outside the stated subset (CObs as left operand of a complex-content correlator or in a division, ** with a correlator exponent, division by complex numbers / complex '
               'correlators, numpy integers, ndarray partners) may be rejected with TypeError / ValueError / AttributeError: counted, not judged',
               'set_prange (a setter) and private helpers are not tapped; real / imag are properties and are checked by the workload directly',
               'central values are generated away from 0 and from the singular points of the functions',
               'results that share entry arrays with their operand (reverse, thin, symmetric, roll with undefined slices, __getitem__ of a matrix) '
               'are counted (result_shares_entry_array_with_operand:*), not judged: the property forbids mutation by the methods, it does not promise copies',
               'matrices whose asymmetry is below single precision (1e-9 relative) are a borderline decision of is_matrix_symmetric: counted, not judged',
               'parity given as numpy integer is an open cell (the arithmetic rejects numpy integers)']
BUDGET = {'quick': 45, 'thorough': 540}

EXACT_MAPS = ('roll', 'reverse', 'thin', 'item', 'Hankel')
RTOL = 2e-13      # the reference and the library do the same few floating-point operations: a few ulp times the natural scale
PE = None
CTX = None

OPS = {'+': operator.add, '-': operator.sub, '*': operator.mul, '/': operator.truediv, '**': operator.pow}
DUNDER = {('+', 'L'): '__add__', ('+', 'R'): '__radd__', ('-', 'L'): '__sub__', ('-', 'R'): '__rsub__',
          ('*', 'L'): '__mul__', ('*', 'R'): '__rmul__', ('/', 'L'): '__truediv__', ('/', 'R'): '__rtruediv__',
          ('**', 'L'): '__pow__', ('**', 'R'): '__rpow__'}
MASKS = ['none', 'padding', 'interior', 'many']

# function -> (inside domain lo, hi), list of outside intervals (empty: total function)
FUNCS = {
    'sin': ((-3.0, 3.0), []), 'cos': ((-3.0, 3.0), []), 'tan': ((-1.2, 1.2), []),
    'sinh': ((-2.0, 2.0), []), 'cosh': ((-2.0, 2.0), []), 'tanh': ((-2.0, 2.0), []),
    'arcsin': ((-0.9, 0.9), [(-3.0, -1.1), (1.1, 3.0)]), 'arccos': ((-0.9, 0.9), [(-3.0, -1.1), (1.1, 3.0)]),
    'arctan': ((-4.0, 4.0), []), 'arcsinh': ((-4.0, 4.0), []),
    'arccosh': ((1.2, 6.0), [(-3.0, 0.9)]), 'arctanh': ((-0.9, 0.9), [(-3.0, -1.1), (1.1, 3.0)]),
    'exp': ((-2.0, 2.0), []), 'log': ((0.2, 6.0), [(-4.0, -0.2)]), 'sqrt': ((0.2, 6.0), [(-4.0, -0.2)]),
    'abs': ((-3.0, 3.0), []), 'neg': ((-3.0, 3.0), []),
}


# ------------------------------------------------------------------------------------------
# deep digest of an argument (same coverage as vmon.snap.any_digest - value, names, configuration lists, fluctuation
# bytes, replica means, shapes, covariance inputs, flags, container structure - but one hash object per call: the
# mutation monitor digests every argument of every tapped call twice)
def _feed(h, x, depth=0):
    if depth > 6:
        h.update(b'deep')
        return
    if x is None:
        h.update(b'-')
    elif is_obs(x):
        h.update(b'O')
        try:
            h.update(struct.pack('d', x.value))
        except (struct.error, TypeError):
            h.update(repr(x.value).encode())
        cov = x.covobs
        for n in x.names:
            h.update(n.encode())
            h.update(b'|')
            if n in cov:
                h.update(np.ascontiguousarray(cov[n].cov, dtype=float).tobytes())
                h.update(np.ascontiguousarray(cov[n].grad, dtype=float).tobytes())
            else:
                idl = x.idl[n]
                if isinstance(idl, range):
                    h.update(b'r%d,%d,%d' % (idl.start, idl.stop, idl.step))
                else:
                    h.update(b'l')
                    h.update(np.asarray(idl, dtype=np.int64).tobytes())
                h.update(np.ascontiguousarray(x.deltas[n], dtype=float).tobytes())
                h.update(struct.pack('dq', x.r_values[n], x.shape[n]))
        h.update(b'N%d' % x.N)
        rw = x.reweighted
        h.update(b'T' if rw is True or rw is np.True_ else (b'F' if rw is False or rw is np.False_ else repr(rw).encode()))
    elif is_cobs(x):
        h.update(b'C')
        _feed(h, x.real, depth + 1)
        _feed(h, x.imag, depth + 1)
    elif is_corr(x):
        h.update(b'K%d,%d' % (x.T, x.N))
        h.update(repr(x.prange).encode())
        h.update(repr(x.tag).encode())
        for c in x.content:
            _feed(h, c, depth + 1)
    elif isinstance(x, np.ndarray):
        h.update(('A' + str(x.shape) + str(x.dtype)).encode())
        if x.dtype == object:
            for i in x.ravel():
                _feed(h, i, depth + 1)
        else:
            h.update(np.ascontiguousarray(x).tobytes())
    elif isinstance(x, (list, tuple)):
        h.update(b'L%d' % len(x) if isinstance(x, list) else b'U%d' % len(x))
        for i in x:
            _feed(h, i, depth + 1)
    elif isinstance(x, dict):
        h.update(b'D%d' % len(x))
        for k, v in x.items():
            h.update(repr(k).encode())
            _feed(h, v, depth + 1)
    elif isinstance(x, range):
        h.update(b'r%d,%d,%d' % (x.start, x.stop, x.step))
    else:
        h.update(b'v')
        h.update(repr(x).encode())
    h.update(b';')


def any_digest(x):
    h = hashlib.blake2b(digest_size=12)
    _feed(h, x)
    return h.hexdigest()


# ------------------------------------------------------------------------------------------
# (a) mutation monitor
class MutationMonitor(taps.Monitor):
    def __init__(self, name, func):
        self.name = name
        self.skip_self = (name == '__init__')
        try:
            self.params = [p for p in inspect.signature(func).parameters.values()][1:]
        except (TypeError, ValueError):
            self.params = []
        self.pos = {p.name: i for i, p in enumerate(self.params)
                    if p.kind in (p.POSITIONAL_ONLY, p.POSITIONAL_OR_KEYWORD, p.KEYWORD_ONLY)}

    def _items(self, args, kwargs):
        out = []
        if not self.skip_self:
            out.append(('self', args[0]))
        for i, a in enumerate(args[1:]):
            out.append(('arg%d' % i, a))
        for k in sorted(kwargs):
            out.append(('arg%d' % self.pos[k] if k in self.pos else 'kw:' + k, kwargs[k]))
        return out

    def before(self, args, kwargs):
        return [any_digest(o) for _, o in self._items(args, kwargs)]

    def after(self, token, args, kwargs, result, exc):
        ctx = CTX
        ctx.count('mutation_calls_checked')
        if token is None:
            ctx.count('mutation_calls_not_digested')
            return
        for (lab, o), d0 in zip(self._items(args, kwargs), token):
            ctx.ev()
            if any_digest(o) != d0:
                ctx.violation('mutation:%s:%s' % (self.name, lab),
                              {'method': self.name, 'which': lab, 'type': type(o).__name__, 'after': repr(o)[:300],
                               'raised': None if exc is None else type(exc).__name__})


NOT_TAPPED = {'set_prange'}


def setup(ctx):
    global PE, CTX
    import pyerrors as pe
    import matplotlib
    matplotlib.use('Agg')
    PE = pe
    CTX = ctx
    seen = set()
    for name, f in list(vars(pe.Corr).items()):
        if not inspect.isfunction(f) or name in NOT_TAPPED or id(f) in seen:
            continue
        if name.startswith('_') and not (name.startswith('__') and name.endswith('__')):
            continue         # private helpers (e.g. _nan_to_none works in place on a list owned by its caller)
        seen.add(id(f))      # gm is an alias of gamma_method: one tap, both names re-bound
        taps.tap_method(pe.Corr, name, MutationMonitor(name, f))
    ctx.count('tapped_methods', len(seen))


def teardown(ctx):
    taps.report(ctx)
    taps.remove_all()


# ------------------------------------------------------------------------------------------
# scalars: kinds, NaN test, magnitudes, comparison through snapshots
def kind_of(x):
    if is_obs(x):
        return 'obs'
    if is_cobs(x):
        return 'cobs'
    if isinstance(x, (bool, np.bool_)):
        return 'other'
    if isinstance(x, (int, float, complex, np.number)):
        return 'num'
    return 'other'


def isnan_scalar(x):
    k = kind_of(x)
    if k == 'obs':
        return bool(np.isnan(x.value))
    if k == 'cobs':
        return isnan_scalar(x.real) or isnan_scalar(x.imag)
    if k == 'num':
        return bool(np.isnan(x))
    return False


def magnitude(x):
    """(|value|, max |fluctuation|) of a scalar, NaN / inf ignored"""
    k = kind_of(x)
    if k == 'obs':
        v = abs(x.value)
        d = 0.0
        for n, dl in x.deltas.items():
            if len(dl):
                m = float(np.max(np.abs(dl)))
                if math.isfinite(m):
                    d = max(d, m)
        return (v if math.isfinite(v) else 0.0), d
    if k == 'cobs':
        a, b = magnitude(x.real), magnitude(x.imag)
        return max(a[0], b[0]), max(a[1], b[1])
    if k == 'num':
        v = abs(x)
        return (float(v) if math.isfinite(v) else 0.0), 0.0
    return 0.0, 0.0


def mag_model(A):
    out = []
    for m in A:
        v = d = 0.0
        if m is not None:
            for row in m:
                for x in row:
                    a, b = magnitude(x)
                    v, d = max(v, a), max(d, b)
        out.append((v, d))
    return out


def hint_global(*models_or_scalars):
    v = d = 0.0
    for M in models_or_scalars:
        if isinstance(M, list):
            for a, b in mag_model(M):
                v, d = max(v, a), max(d, b)
        else:
            a, b = magnitude(M)
            v, d = max(v, a), max(d, b)
    return v, d


def same_scalar(ctx, got, exp, mech, what='', vs=0.0, ds=0.0, rv=True, rtol=RTOL):
    """identity between scalars (observables compared through value, every fluctuation, configuration lists,
    replica means, covariance gradients, reweighting flag)"""
    kg, ke = kind_of(got), kind_of(exp)
    if kg != ke or kg == 'other':
        ctx.ev()
        ctx.violation(mech + ':type', {'what': what, 'got': type(got).__name__, 'exp': type(exp).__name__})
        return False
    if kg == 'num':
        g, e = complex(got), complex(exp)
        return ctx.close([g.real, g.imag], [e.real, e.imag], mech + ':value', what, rtol=rtol,
                         scale=max(abs(g), abs(e), vs), atol=1e-300)
    if kg == 'cobs':
        a = same_scalar(ctx, got.real, exp.real, mech, what + ' real part', vs, ds, rv, rtol)
        b = same_scalar(ctx, got.imag, exp.imag, mech, what + ' imaginary part', vs, ds, rv, rtol)
        return a and b
    g, e = snap(got), snap(exp)
    ctx.count('entries_compared')
    vsc = max(abs(g['value']), abs(e['value']), vs)
    ok = ctx.close(g['value'], e['value'], mech + ':value', what, rtol=rtol, scale=vsc, atol=1e-300)
    if sorted(g['chains']) != sorted(e['chains']):
        ctx.ev()
        ctx.violation(mech + ':chain-names', {'what': what, 'got': sorted(g['chains']), 'exp': sorted(e['chains'])})
        return False
    for c in sorted(e['chains']):
        gi, gd, gr = g['chains'][c]
        ei, ed, er = e['chains'][c]
        if [int(i) for i in gi] != [int(i) for i in ei]:
            ctx.ev()
            ctx.violation(mech + ':configuration-list', {'what': what, 'chain': c, 'got': gi, 'exp': ei})
            ok = False
            continue
        sc = max(float(np.max(np.abs(gd))) if len(gd) else 0.0, float(np.max(np.abs(ed))) if len(ed) else 0.0, ds)
        ok &= ctx.close(gd, ed, mech + ':fluctuations', what + ' chain ' + c, rtol=rtol, scale=sc, atol=1e-300)
        if rv:
            ctx.count('judged-secondary:replica-mean')
            ok &= ctx.close(gr, er, mech + ':replica-mean', what + ' chain ' + c, rtol=rtol, scale=max(abs(gr), abs(er), vsc), atol=1e-300)
    # covariance inputs: gradients compared over the union of names (an input that is absent on one side has gradient 0 there:
    # a contribution that cancels exactly on one side and to rounding on the other is a rounding difference, not another name)
    for n in sorted(set(g['cov']) | set(e['cov'])):
        gg = g['cov'][n][1] if n in g['cov'] else None
        eg = e['cov'][n][1] if n in e['cov'] else None
        if gg is None:
            gg = np.zeros_like(eg)
        if eg is None:
            eg = np.zeros_like(gg)
        if not (np.any(gg != 0) or np.any(eg != 0)):
            continue
        ctx.count('judged-secondary:covariance-gradient')
        sc = max(float(np.max(np.abs(gg))), float(np.max(np.abs(eg))), ds)
        ok &= ctx.close(gg, eg, mech + ':covariance-gradient', what + ' cov ' + n, rtol=rtol, scale=sc, atol=1e-300)
    ok &= ctx.equal(bool(g['rew']), bool(e['rew']), mech + ':reweighted-flag', what)
    return bool(ok)


# ------------------------------------------------------------------------------------------
# library correlator -> reference model
def to_model(corr):
    out = []
    for e in corr.content:
        if e is None:
            out.append(None)
            continue
        a = np.asarray(e, dtype=object)
        if a.ndim == 0:
            out.append([[a.item()]])
        elif a.ndim == 1:
            out.append([[x] for x in a] if a.shape[0] != 1 else [[a[0]]])
        else:
            out.append([[a[i, j] for j in range(a.shape[1])] for i in range(a.shape[0])])
    return out


def all_undefined(M):
    return all(m is None for m in M)


def has_undefined(*Ms):
    return any(m is None for M in Ms for m in M)


def judge_corr(ctx, got, exp, label, plabel=None, hint=(0.0, 0.0), hints=None, rv=True, identical_to=None, rtol=RTOL, exact=None):
    if exact is None:
        exact = (plabel or label) in EXACT_MAPS
    """compare a library result with the reference model exp.  Tags:
         result-type:<label>, shape:<plabel>:T|N|entry,
         pattern:<plabel>:nan-entry-kept | defined-where-expected-undefined | undefined-where-expected-defined,
         value:<label>:<field>
    returns the number of defined timeslices compared."""
    plabel = plabel or label
    ctx.ev()
    if not is_corr(got):
        ctx.violation('result-type:' + label, {'got': type(got).__name__})
        return 0
    T = len(exp)
    if not ctx.equal(got.T, T, 'shape:%s:T' % plabel, label) or len(got.content) != T:
        return 0
    _, N = refc.dims(exp)
    if N is not None and not all_undefined(to_model(got)):
        ctx.equal(got.N, N, 'shape:%s:N' % plabel, label)
    gm = to_model(got)
    compared = 0
    ctx.count('timeslices_judged', T)
    ctx.count('judged:' + plabel)                       # how often each method's result met the oracle (checklist 13)
    nund = sum(1 for e in exp if e is None)
    if nund:
        ctx.count('judged-undefined-slices:' + plabel, nund)
    for t in range(T):
        e, g = exp[t], gm[t]
        ctx.ev()
        if e is None and g is None:
            continue
        if e is None:
            nanv = any(isnan_scalar(x) for row in g for x in row)
            ctx.violation('pattern:%s:%s' % (plabel, 'nan-entry-kept' if nanv else 'defined-where-expected-undefined'),
                          {'call': label, 't': t, 'T': T, 'got_pattern': refc.pattern(gm), 'exp_pattern': refc.pattern(exp)})
            continue
        if g is None:
            ctx.violation('pattern:%s:undefined-where-expected-defined' % plabel,
                          {'call': label, 't': t, 'T': T, 'got_pattern': refc.pattern(gm), 'exp_pattern': refc.pattern(exp)})
            continue
        if len(g) != len(e) or any(len(r) != len(e) for r in g):
            ctx.violation('shape:%s:entry' % plabel, {'call': label, 't': t, 'got': [len(g)] + [len(r) for r in g], 'exp': len(e)})
            continue
        vs, ds = hints[t] if hints is not None else hint
        if exact:
            # a pure index map moves entries: bit-identical observables (digest of value, fluctuations, lists, replica means, flags)
            ctx.count('judged-exact:' + plabel)
            for i in range(len(e)):
                for j in range(len(e)):
                    ctx.ev()
                    if g[i][j] is not e[i][j] and any_digest(g[i][j]) != any_digest(e[i][j]):
                        ctx.violation('value:%s:moved-entry-not-identical' % label, {'t': t, 'i': i, 'j': j, 'T': T})
            compared += 1
            continue
        for i in range(len(e)):
            for j in range(len(e)):
                same_scalar(ctx, g[i][j], e[i][j], 'value:' + label, 't=%d [%d,%d] of T=%d' % (t, i, j, T), vs, ds, rv, rtol)
        compared += 1
    return compared


def hints_per_t(*models_or_scalars):
    T = max(len(M) for M in models_or_scalars if isinstance(M, list))
    out = [(0.0, 0.0)] * T
    for M in models_or_scalars:
        mm = mag_model(M) if isinstance(M, list) else [magnitude(M)] * T
        out = [(max(a[0], b[0]), max(a[1], b[1])) for a, b in zip(out, mm)]
    return out


# ------------------------------------------------------------------------------------------
# generators
class Layout:
    def __init__(self, rng, ens=None, nmin=8, nmax=12, other_than=None):
        self.ens = ens or str(rng.choice([e for e in gen.ENS_POOL if e != other_than]))
        reps = gen.rand_reps(rng, 2)
        if rng.random() < 0.12:
            reps = [None]                       # a bare chain name ('A' next to 'A1|r1', 'AB|r2' ... : prefix traps)
        self.names = [self.ens if r is None else '%s|%s' % (self.ens, r) for r in reps]
        self.idls = []
        step = int(rng.choice([1, 1, 2, 3]))      # common spacing of all replicas of the ensemble (needed by gamma_method)
        long = rng.random() < 0.02                # more than 255 configurations per replica (checklist 12)
        for _ in reps:
            n = int(rng.integers(nmin, nmax + 1)) if not long else int(rng.integers(260, 300))
            kind = str(rng.choice(['strided', 'strided', 'gapped']))
            self.idls.append(gen.rand_idl(rng, n, kind, step=step, as_type=str(rng.choice(['list', 'native']))))
        self.step = step
        self.common = [rng.normal(size=len(i)) for i in self.idls]
        # a covariance input shared by all observables of the layout (secondary output: its gradient), checklist 22
        self.cov = PE.cov_Obs(0.0, float(rng.uniform(0.5, 2.0)) ** 2, 'cv%s%d' % (self.ens, int(rng.integers(0, 10 ** 6)))) if rng.random() < 0.1 else None     # one name = one covariance matrix

    def shifted_twin(self, rng):
        """same ensemble, same replica names, equally many configurations with the same spacing - but other configuration
        numbers (shifted by a few spacings, so the lists overlap partly): equal summaries, different members (checklist 10)"""
        tw = copy.copy(self)
        k = int(rng.integers(1, 4)) * self.step
        tw.idls = []
        for i in self.idls:
            if isinstance(i, range):
                tw.idls.append(range(i.start + k, i.stop + k, i.step))
            else:
                tw.idls.append([int(c) + k for c in i])
        tw.common = [rng.normal(size=len(i)) for i in tw.idls]
        return tw

    def obs(self, rng, mean, rel=0.03):
        sigma = rel * abs(mean) + 1e-3
        samples = [mean + sigma * (0.6 * c + 0.8 * rng.normal(size=len(c))) for c in self.common]
        o = PE.Obs(samples, self.names, idl=[copy.copy(i) for i in self.idls])
        if self.cov is not None:
            o = o + float(rng.normal()) * sigma * self.cov
        return o


def profile(rng, T, kind):
    """T central values, none closer to zero than 0.05"""
    t = np.arange(T)
    if kind == 'decay':
        v = rng.uniform(0.5, 3.0) * np.exp(-rng.uniform(0.05, 0.4) * t) + rng.uniform(0.05, 0.3)
    elif kind == 'changing':
        v = rng.uniform(0.5, 3.0) * np.cos(rng.uniform(0.5, 1.3) * t + rng.uniform(0, 6.28)) * np.exp(-0.05 * t)
    elif kind == 'alternating':
        v = rng.uniform(0.3, 3.0, size=T) * np.where((t + int(rng.integers(0, 2))) % 2 == 0, 1.0, -1.0)
    else:
        v = rng.uniform(0.3, 3.0, size=T) * rng.choice([-1.0, 1.0], size=T)
    v = np.where(np.abs(v) < 0.05, np.where(v < 0, -0.06, 0.06), v)
    return [float(x) for x in v]


FAR_OUT = {'tanh': (15.0, 25.0), 'exp': (20.0, 40.0), 'cosh': (20.0, 30.0), 'sinh': (20.0, 30.0), 'arctan': (1e5, 1e7), 'arcsinh': (1e6, 1e9),
           'log': (1e8, 1e12), 'sqrt': (1e8, 1e12), 'arccosh': (1e6, 1e9), 'abs': (1e6, 1e9)}


def values_for(rng, T, fname):
    (lo, hi), outside = FUNCS[fname]
    vals = []
    for _ in range(T):
        if fname in FAR_OUT and rng.random() < 0.12:
            # far out in the domain: saturated tanh, large exp / cosh, huge arguments (checklist 21)
            a, b = FAR_OUT[fname]
            sgn = -1.0 if (fname in ('tanh', 'exp', 'sinh', 'arctan', 'arcsinh', 'abs') and rng.random() < 0.5) else 1.0
            vals.append(sgn * float(rng.uniform(a, b)))
            continue
        if outside and rng.random() < 0.3:
            a, b = outside[int(rng.integers(0, len(outside)))]
        else:
            a, b = lo, hi
        v = float(rng.uniform(a, b))
        if abs(v) < 0.05:
            v = 0.07 if v >= 0 else -0.07
        vals.append(v)
    return vals


def none_mask(rng, T, kind):
    """(defined flags, padding) ; padding != None: build with the constructor's padding argument"""
    if kind == 'none' or T < 2:
        return [True] * T, None
    if kind == 'padding':
        tot = int(rng.integers(1, T))
        p0 = int(rng.integers(0, tot + 1))
        p1 = tot - p0
        return [p0 <= t < T - p1 for t in range(T)], [p0, p1]
    if kind == 'interior':
        t0 = int(rng.integers(1, T - 1)) if T >= 3 else int(rng.integers(0, T))
        return [t != t0 for t in range(T)], None
    m = [bool(rng.random() > 0.4) for _ in range(T)]
    if not any(m):
        m[int(rng.integers(0, T))] = True
    if all(m):
        m[int(rng.integers(0, T))] = False
    return m, None


SCALES = [1e-8, 1e-4, 1e4, 1e8]


def make_corr(ctx, rng, T, N=1, content='real', mask='none', layout=None, values=None, prof=None, symmetric=False,
              via=None, decorate=True, scale=True):
    """library correlator with the requested shape; the constructor result is compared with what was handed in.
    decorate: stored state that must not influence any result - a tag, a plateau range, the reweighted flag on every entry,
    an earlier error analysis with non-default parameters; scale: the whole correlator multiplied by 1e-8 ... 1e8"""
    layout = layout or Layout(rng)
    if values is None:
        values = profile(rng, T, prof or str(rng.choice(['decay', 'changing', 'mixed'])))
        if scale and rng.random() < 0.25:
            sc = float(rng.choice(SCALES))
            values = [v * sc for v in values]
            ctx.count('scaled_correlators')
        elif scale and rng.random() < 0.1:
            values[int(rng.integers(0, T))] *= 1e-10           # tiny in ONE timeslice only (checklist 21)
            ctx.count('correlators_with_one_tiny_timeslice')
    defined, padding = none_mask(rng, T, mask)
    rew = decorate and rng.random() < 0.12

    def real_scalar(v):
        o = layout.obs(rng, v)
        if rew:
            o.reweighted = True
        return o

    def scalar(v):
        if content == 'complex':
            return PE.CObs(real_scalar(v), real_scalar(0.4 * v + 0.1 * abs(v)))
        return real_scalar(v)
    entries = []
    for t in range(T):
        if not defined[t]:
            entries.append(None)
        elif N == 1:
            entries.append(scalar(values[t]))
        else:
            fac = rng.uniform(0.3, 1.5, size=(N, N)) * rng.choice([1.0, 1.0, -1.0], size=(N, N))
            a = np.empty((N, N), dtype=object)
            for i in range(N):
                for j in range(N):
                    if symmetric and j < i:
                        a[i, j] = a[j, i]
                    else:
                        a[i, j] = scalar(values[t] * fac[i, j])
            entries.append(a)
    via = via or str(rng.choice(['list', 'array'] if (N == 1 and all(defined)) else ['list']))
    if padding is not None:
        body = entries[padding[0]:T - padding[1]]
        c = PE.Corr(list(body), padding=list(padding))
    elif via == 'array':
        c = PE.Corr(np.array(entries, dtype=object))
    else:
        c = PE.Corr(list(entries))
    # constructor check: T, N, entries are the objects handed in
    ctx.ev()
    m = to_model(c)
    ok = (c.T == T and c.N == N and len(m) == T)
    if ok:
        for t in range(T):
            if (entries[t] is None) != (m[t] is None):
                ok = False
            elif entries[t] is not None:
                src = [[entries[t]]] if N == 1 else [[entries[t][i, j] for j in range(N)] for i in range(N)]
                ok &= all(m[t][i][j] is src[i][j] for i in range(N) for j in range(N))
    if not ok:
        ctx.violation('constructor:content', {'T': T, 'N': N, 'mask': mask, 'got_T': c.T, 'got_N': c.N, 'pattern': refc.pattern(m)})
    if decorate:
        if rng.random() < 0.25:
            c.tag = 'correlator %d' % int(rng.integers(0, 100))
        if rng.random() < 0.25:
            a = int(rng.integers(0, T))
            c.set_prange([a, int(rng.integers(a, T))])
        if rew:
            ctx.count('reweighted_correlators')
        if N == 1 and content == 'real':
            ctx.equal(c.reweighted, bool(rew), 'state:reweighted', 'flag of the correlator = flag of its entries')
        if content == 'real' and rng.random() < (0.2 if N == 1 else 0.06):
            c.gamma_method(S=float(rng.choice([1.0, 3.0])))      # stored analysis state
            ctx.count('analysed_correlators')
    return c


def make_scalar_partner(rng, ptype, layout, positive=False, nonzero=True):
    lo = 0.3
    sign = 1.0 if positive else float(rng.choice([-1.0, 1.0]))
    v = sign * float(rng.uniform(lo, 3.0))
    u = rng.random()
    lay = layout if u < 0.45 else (layout.shifted_twin(rng) if u < 0.6 else Layout(rng))
    if ptype == 'Obs':
        return lay.obs(rng, v)
    if ptype == 'CObs':
        return PE.CObs(lay.obs(rng, v), lay.obs(rng, float(rng.uniform(0.3, 2.0))))
    if ptype == 'int':
        return int(rng.choice([1, 2, 3, 5])) * (1 if positive else int(rng.choice([-1, 1])))
    if ptype == 'float':
        return v
    if ptype == 'npfloat':
        return np.float64(v)
    if ptype == 'npint':
        return np.int64(int(rng.choice([1, 2, 3])))
    if ptype == 'complex':
        k = rng.random()
        if k < 0.15:
            return complex(v, 0.0)               # on the real axis
        if k < 0.3:
            return complex(0.0, v)               # on the imaginary axis
        return complex(v, float(rng.uniform(0.3, 2.0)))
    raise ValueError(ptype)


def type_label(x):
    if is_corr(x):
        for e in x.content:
            if e is not None:
                return 'CorrC' if is_cobs(np.asarray(e, dtype=object).ravel()[0]) else 'Corr'
        return 'Corr'
    if is_obs(x):
        return 'Obs'
    if is_cobs(x):
        return 'CObs'
    if isinstance(x, np.ndarray):
        return 'ndarray'
    if isinstance(x, np.floating):
        return 'npfloat'
    if isinstance(x, np.integer):
        return 'npint'
    return type(x).__name__


# ------------------------------------------------------------------------------------------
# running a call twice, handling exceptions
CLEAN_REJECTIONS = (TypeError, ValueError, AttributeError, NotImplementedError)


def run_twice(ctx, fn, args_for_digest, label, repeat=True):
    """call fn() twice with the same argument objects; returns (result, exception).  The second result must be
    bit-identical to the first (judged only when the arguments were left unchanged - a changed argument is reported
    by the mutation monitor and is the cause of any difference)."""
    d0 = [any_digest(a) for a in args_for_digest]
    try:
        r1 = fn()
    except Exception as e:
        return None, e
    unchanged = [any_digest(a) for a in args_for_digest] == d0
    if not repeat:
        return r1, None
    try:
        r2 = fn()
    except Exception as e:
        ctx.ev()
        if unchanged:
            ctx.violation('repeat:%s:second-call-raises' % label, {'exception': repr(e)[:300]})
        return r1, None
    if unchanged:
        ctx.count('repeat_calls_compared')
        ctx.ev()
        if any_digest(r1) != any_digest(r2):
            ctx.violation('repeat:%s:result-differs' % label, {'first': repr(r1)[:200], 'second': repr(r2)[:200]})
    else:
        ctx.count('repeat_skipped_argument_changed')
    return r1, None


def report_raise(ctx, exc, plabel, label, exp, required, context):
    if exp is not None and all_undefined(exp):
        ctx.count('all_undefined_result_raised')
        return
    if not required and isinstance(exc, CLEAN_REJECTIONS):
        ctx.count('open_cell_rejected')
        ctx.cell('rejected', label, type(exc).__name__)
        return
    ctx.ev()
    ctx.violation('raise:%s:%s:%s' % (plabel, type(exc).__name__, context),
                  {'call': label, 'message': str(exc)[:300],
                   'traceback': ''.join(traceback.format_exception(type(exc), exc, exc.__traceback__))[-900:]})


def context_of(*Ms):
    return 'undefined-slice' if has_undefined(*Ms) else 'operands-defined'


def mark_nontrivial(ctx, compared, nonidentity, label, *objs):
    if compared > 0 and nonidentity:
        ctx.nontrivial.add(digest(label, [any_digest(o) for o in objs]))


# ------------------------------------------------------------------------------------------
# binop cells
def _cells():
    req, opt = [], []
    numbers = ['int', 'float', 'npfloat']
    for content in ('R1', 'RN', 'C1', 'CN'):
        cplx = content[0] == 'C'
        for op in OPS:
            for partner in ('Corr', 'CorrC', 'Obs', 'CObs', 'int', 'float', 'npfloat', 'complex', 'npint', 'ndarray'):
                for order in ('L', 'R'):
                    cell = (content, op, partner, order)
                    need = False
                    if partner in ('npint', 'ndarray'):
                        need = False
                    elif op in ('+', '-', '*'):
                        if not cplx:
                            need = True        # incl. CObs as LEFT operand of a real-content correlator (statement: either operand order)
                        elif order == 'L':
                            need = True
                        else:
                            need = partner in ['Corr', 'CorrC', 'Obs'] + numbers
                    elif op == '/':
                        if not cplx:
                            need = partner in ['Corr', 'Obs'] + numbers or (partner == 'CObs' and order == 'L')
                        else:
                            need = order == 'L' and partner in ['Obs'] + numbers
                    else:
                        need = (not cplx) and order == 'L' and partner in ['Obs'] + numbers
                    (req if need else opt).append(cell)
    return req, opt


REQUIRED_CELLS, OPEN_CELLS = _cells()


def do_binop(ctx, rng, cell, mask, required, force_prof=None):
    content, op, partner, order = cell
    N = 1 if content[1] == '1' else int(rng.integers(2, 4))
    T = int(rng.integers(2, 17)) if (N == 1 or rng.random() < 0.15) else int(rng.integers(2, 9))
    if rng.random() < 0.12:
        T = int(rng.choice([2, 3]))             # minimal extents
    cplx = content[0] == 'C'
    lay = Layout(rng)
    prof = str(rng.choice(['decay', 'changing', 'mixed']))
    if op == '**' and rng.random() < 0.6:
        prof = 'decay'
    if force_prof:
        prof = force_prof
    A = make_corr(ctx, rng, T, N, 'complex' if cplx else 'real', mask, lay, prof=prof)
    if partner in ('Corr', 'CorrC'):
        if op in ('+', '-'):
            Np = N
        else:
            Np = N if rng.random() < 0.6 else 1
        u = rng.random()
        play = lay if u < 0.5 else (lay.shifted_twin(rng) if u < 0.7 else Layout(rng))
        if u >= 0.5 and u < 0.7:
            ctx.count('partner_on_other_configurations_of_equal_number')
        y = make_corr(ctx, rng, T, Np, 'complex' if partner == 'CorrC' else 'real', str(rng.choice(MASKS)), play)
    elif partner == 'ndarray':
        y = rng.uniform(0.5, 2.0, size=T) * rng.choice([-1.0, 1.0], size=T)
    elif op == '**' and order == 'L':
        if force_prof and partner == 'int':
            partner = 'float'
        if partner in ('int', 'npint'):
            y = int(rng.choice([2, 3, -1, -2, 1, 0]))
            y = np.int64(y) if partner == 'npint' else y
        elif partner in ('float', 'npfloat'):
            y = float(rng.choice([0.5, 1.5, -0.5, 2.0, 2.5]))
            y = np.float64(y) if partner == 'npfloat' else y
        else:
            y = make_scalar_partner(rng, partner, lay)
    else:
        y = make_scalar_partner(rng, partner, lay)
    if op in ('+', '-', '*') and partner in ('int', 'float', 'npfloat', 'complex') and rng.random() < 0.18:
        y = type(y)(0)          # a zero partner: c * 0 has no fluctuations, c + 0 changes nothing (checklist 14)
        ctx.count('zero_partners')
    left, right = (A, y) if order == 'L' else (y, A)
    label = '%s(%s,%s)' % (op, type_label(left), type_label(right))
    plabel = DUNDER[(op, 'L')] if is_corr(left) else DUNDER[(op, 'R')]
    ctx.cell('binop', label, 'N=1' if N == 1 else 'N>1', mask, 'required' if required else 'open')
    MA = to_model(A)
    f = OPS[op]
    exp = None
    try:
        if is_corr(y):
            MY = to_model(y)
            exp = refc.binary(f, MA, MY, isnan_scalar) if order == 'L' else refc.binary(f, MY, MA, isnan_scalar)
            hints = hints_per_t(MA, MY)
            operands = (MA, MY)
        elif isinstance(y, np.ndarray):
            exp = refc.binary_per_slice(f, MA, [float(v) for v in y], numbers_left=(order == 'R'), isnan=isnan_scalar)
            hints = hints_per_t(MA)
            operands = (MA,)
        else:
            exp = refc.binary_scalar(f, MA, y, scalar_left=(order == 'R'), isnan=isnan_scalar)
            hints = hints_per_t(MA, y)
            operands = (MA,)
    except CLEAN_REJECTIONS:
        if required:
            raise
        exp = None      # the scalar overloads themselves do not offer this combination
        hints = None
        operands = (MA,)
    res, exc = run_twice(ctx, lambda: f(left, right), [left, right], label, repeat=(N == 1 or rng.random() < 0.4))
    if exc is not None:
        if exp is None:
            ctx.count('open_cell_rejected')
            ctx.cell('rejected', label, type(exc).__name__)
        else:
            report_raise(ctx, exc, plabel, label, exp, required, context_of(*operands))
        return
    if exp is None or (not required and not is_corr(res) and cplx):
        ctx.count('open_cell_result_not_judged')
        ctx.cell('not-judged', label, type(res).__name__)
        return
    n = judge_corr(ctx, res, exp, label, plabel, hints=hints)
    mark_nontrivial(ctx, n, True, label, left, right)
    if ctx.cases_run < 3:
        ctx.sample({'call': label, 'T': T, 'N': N, 'operand_pattern': refc.pattern(MA), 'result_pattern': refc.pattern(exp)})


# ------------------------------------------------------------------------------------------
def do_func(ctx, rng, fname, style, N, mask):
    T = int(rng.integers(2, 17)) if (N == 1 or rng.random() < 0.15) else int(rng.integers(2, 9))
    lay = Layout(rng)
    A = make_corr(ctx, rng, T, N, 'real', mask, lay, values=values_for(rng, T, fname))
    MA = to_model(A)
    if fname == 'abs':
        sf = abs
        call = {'np': lambda: np.abs(A), 'method': lambda: abs(A)}[style]
    elif fname == 'neg':
        sf = operator.neg
        call = lambda: -A
    else:
        sf = getattr(np, fname)
        call = {'np': lambda: sf(A), 'method': lambda: getattr(A, fname)()}[style]
    label = fname
    ctx.cell('func', fname, style, 'N=1' if N == 1 else 'N>1', mask)
    exp = refc.unary(sf, MA, isnan_scalar)
    res, exc = run_twice(ctx, call, [A], label)
    if exc is not None:
        report_raise(ctx, exc, label, label, exp, True, context_of(MA))
        return
    n = judge_corr(ctx, res, exp, label, hints=hints_per_t(MA))
    mark_nontrivial(ctx, n, True, label, A)


# ------------------------------------------------------------------------------------------
INDEX_KINDS = ['roll', 'reverse', 'thin', 'symmetric', 'anti_symmetric', 'T_symmetry', 'item', 'projected:default',
               'projected:array', 'projected:array2', 'projected:list', 'projected:list+array', 'projected:list-with-none',
               'trace', 'matrix_symmetric:nonsym', 'matrix_symmetric:sym', 'Hankel:open', 'Hankel:periodic', 'getitem',
               'is_matrix_symmetric', 'construct:array-of-corrs', 'construct:3d-array']


def do_construct(ctx, rng, kind, mask):
    """matrix correlators built from a 2-d array of single-valued correlators / from a (T, N, N) array of observables"""
    T = int(rng.integers(2, 17))
    N = int(rng.integers(1, 4))
    lay = Layout(rng)
    ctx.cell('index', kind, mask)
    ctx.count('index_map_calls')
    if kind.endswith('array-of-corrs'):
        comps = [[make_corr(ctx, rng, T, 1, 'real', mask if (i, j) == (0, 0) else str(rng.choice(['none', 'none', mask])), lay)
                  for j in range(N)] for i in range(N)]
        arr = np.empty((N, N), dtype=object)
        for i in range(N):
            for j in range(N):
                arr[i, j] = comps[i][j]
        exp = refc.assemble([[refc.flat(to_model(comps[i][j])) for j in range(N)] for i in range(N)])
        label = 'Corr(array of Corr)'
        args = [arr]
    else:
        arr = np.empty((T, N, N), dtype=object)
        vals = profile(rng, T, 'mixed')
        for t in range(T):
            for i in range(N):
                for j in range(N):
                    arr[t, i, j] = lay.obs(rng, vals[t] * float(rng.uniform(0.5, 1.5)))
        exp = [[[arr[t, i, j] for j in range(N)] for i in range(N)] for t in range(T)]
        label = 'Corr(3-d array)'
        args = [arr]
    res, exc = run_twice(ctx, lambda: PE.Corr(arr), args, label)
    if exc is not None:
        report_raise(ctx, exc, '__init__', label, exp, True, context_of(exp))
        return
    n = judge_corr(ctx, res, exp, label, '__init__')
    mark_nontrivial(ctx, n, N > 1, label, arr)


def do_index(ctx, rng, kind, mask):
    name = kind.split(':')[0]
    if name == 'construct':
        return do_construct(ctx, rng, kind, mask)
    lay = Layout(rng)
    needs_matrix = name in ('item', 'projected', 'trace', 'matrix_symmetric', 'is_matrix_symmetric')
    T = int(rng.integers(2, 17))
    if name in ('symmetric', 'anti_symmetric'):
        T = 2 * int(rng.integers(1, 9))
    N = int(rng.integers(2, 4)) if needs_matrix else 1
    if name == 'getitem':
        N = int(rng.integers(1, 4))
    sym = kind == 'matrix_symmetric:sym' or (name == 'is_matrix_symmetric' and rng.random() < 0.5)
    A = make_corr(ctx, rng, T, N, 'real', mask, lay, symmetric=sym)
    MA = to_model(A)
    ctx.cell('index', kind, mask)
    ctx.count('index_map_calls')
    args = [A]
    hint = hint_global(MA)
    nonid = True
    context = context_of(MA)
    if name == 'roll':
        dt = int(rng.integers(-2 * T, 2 * T + 1))
        label = 'roll'
        call = lambda: A.roll(dt)
        exp = refc.roll(MA, dt)
        hint = (0.0, 0.0)
        nonid = dt % T != 0
        desc = {'dt': dt}
    elif name == 'reverse':
        label, call, exp, hint, desc = 'reverse', (lambda: A.reverse()), refc.reverse(MA), (0.0, 0.0), {}
    elif name == 'thin':
        spacing = int(rng.integers(1, T + 2))
        offset = int(rng.integers(-3, T + 1))
        style = int(rng.integers(0, 3))
        label = 'thin'
        if style == 0:
            call = lambda: A.thin(spacing, offset)
        elif style == 1:
            call = lambda: A.thin(spacing=spacing, offset=offset)
        else:
            offset = 0
            call = (lambda: A.thin(spacing)) if spacing != 2 else (lambda: A.thin())
        exp = refc.thin(MA, spacing, offset)
        hint = (0.0, 0.0)
        desc = {'spacing': spacing, 'offset': offset}
    elif name in ('symmetric', 'anti_symmetric'):
        label = name
        call = (lambda: A.symmetric()) if name == 'symmetric' else (lambda: A.anti_symmetric())
        exp = refc.symmetric(MA) if name == 'symmetric' else refc.anti_symmetric(MA)
        desc = {}
        if MA[0] is None:
            context = 'undefined-slice-0'
    elif name == 'T_symmetry':
        # T_symmetry analyses self - partner with gamma_method: a second layout must live on another ensemble
        # (replicas of one ensemble need a common spacing)
        P = make_corr(ctx, rng, T, 1, 'real', str(rng.choice(MASKS)), lay if rng.random() < 0.7 else Layout(rng, other_than=lay.ens))
        MP = to_model(P)
        parity = int(rng.choice([1, -1]))
        label = 'T_symmetry'
        if rng.random() < 0.5:
            call = lambda: A.T_symmetry(P, parity)
        else:
            call = (lambda: A.T_symmetry(P, parity=parity)) if parity == -1 else (lambda: A.T_symmetry(P))
        exp = refc.T_symmetry(MA, MP, parity)
        args = [A, P]
        hint = hint_global(MA, MP)
        context = context_of(MA, MP)
        desc = {'parity': parity}
    elif name == 'item':
        i, j = int(rng.integers(0, N)), int(rng.integers(0, N))
        label, call, exp, hint, desc = 'item', (lambda: A.item(i, j)), refc.item(MA, i, j), (0.0, 0.0), {'i': i, 'j': j}
    elif name == 'projected':
        label = 'projected'
        variant = kind.split(':')[1]
        normalize = bool(rng.integers(0, 2))

        def vec():
            v = rng.uniform(0.3, 2.0, size=N) * rng.choice([-1.0, 1.0], size=N)
            if rng.random() < 0.3:
                v[0 if rng.random() < 0.5 else N - 1] = 0.0      # spectator row / column of the matrix (checklist 14)
                ctx.count('projection_vectors_with_zero_entry')
            return v
        if variant == 'default':
            call = lambda: A.projected()
            exp = refc.projected(MA, [1.0] + [0.0] * (N - 1), [1.0] + [0.0] * (N - 1))
            desc = {'vectors': 'default'}
        elif variant == 'array':
            v = vec()
            v0 = [float(x) for x in v]
            call = lambda: A.projected(v, normalize=normalize)
            exp = refc.projected(MA, v0, v0, normalize)
            args = [A, v]
            desc = {'vectors': 'one ndarray', 'normalize': normalize}
        elif variant == 'array2':
            v, w = vec(), vec()
            v0, w0 = [float(x) for x in v], [float(x) for x in w]
            call = (lambda: A.projected(v, w, normalize)) if rng.random() < 0.5 else (lambda: A.projected(vector_l=v, vector_r=w, normalize=normalize))
            exp = refc.projected(MA, v0, w0, normalize)
            args = [A, v, w]
            desc = {'vectors': 'two ndarrays', 'normalize': normalize}
        elif variant == 'list':
            vl = [vec() for _ in range(T)]
            two = bool(rng.integers(0, 2))
            vr = [vec() for _ in range(T)] if two else None
            l0 = [[float(x) for x in v] for v in vl]
            r0 = [[float(x) for x in v] for v in vr] if two else l0
            call = (lambda: A.projected(vl, vr, normalize=normalize)) if two else (lambda: A.projected(vl, normalize=normalize))
            exp = refc.projected(MA, l0, r0, normalize)
            args = [A, vl] + ([vr] if two else [])
            desc = {'vectors': 'list' + ('s (left, right)' if two else ''), 'normalize': normalize}
        elif variant == 'list+array':
            vl = [vec() for _ in range(T)]
            w = vec()
            l0 = [[float(x) for x in v] for v in vl]
            w0 = [float(x) for x in w]
            if rng.random() < 0.5:
                call = lambda: A.projected(vl, w, normalize=normalize)
                exp = refc.projected(MA, l0, w0, normalize)
            else:
                call = lambda: A.projected(w, vl, normalize=normalize)
                exp = refc.projected(MA, w0, l0, normalize)
            args = [A, vl, w]
            desc = {'vectors': 'list and ndarray', 'normalize': normalize}
        else:
            # lists as returned by GEVP: no vector on some timeslices
            vl = [None if rng.random() < 0.3 else vec() for _ in range(T)]
            l0 = [None if v is None else [float(x) for x in v] for v in vl]
            call = lambda: A.projected(vl)
            exp = refc.projected(MA, l0, l0, False)
            args = [A, vl]
            desc = {'vectors': 'list with None entries'}
        hint = (hint[0] * 4 * N, hint[1] * 4 * N)
    elif name == 'trace':
        label, call, exp, desc = 'trace', (lambda: A.trace()), refc.trace(MA), {}
    elif name == 'matrix_symmetric':
        label, call, exp, desc = 'matrix_symmetric', (lambda: A.matrix_symmetric()), refc.matrix_symmetric(MA), {'symmetric_input': sym}
    elif name == 'Hankel':
        n = int(rng.integers(1, 5))
        periodic = kind.endswith('periodic')
        label = 'Hankel'
        if periodic:
            call = (lambda: A.Hankel(n, True)) if rng.random() < 0.5 else (lambda: A.Hankel(n, periodic=True))
        else:
            call = (lambda: A.Hankel(n)) if rng.random() < 0.5 else (lambda: A.Hankel(n, periodic=False))
        exp = refc.hankel(MA, n, periodic)
        hint = (0.0, 0.0)
        if not has_undefined(MA):
            context = 'periodic-true' if periodic else 'periodic-false'
        desc = {'n': n, 'periodic': periodic}
    elif name == 'getitem':
        ok = True
        for t in list(range(T)) + [-1]:
            g = A[t]
            e = refc.getitem(MA, t)
            ctx.ev()
            if e is None or g is None:
                ok &= (e is None and g is None)
            elif N == 1:
                ok &= g is e
            else:
                ok &= isinstance(g, np.ndarray) and g.shape == (N, N) and all(g[i, j] is e[i][j] for i in range(N) for j in range(N))
        if not ok:
            ctx.violation('index:__getitem__', {'T': T, 'N': N, 'pattern': refc.pattern(MA)})
        return
    elif name == 'is_matrix_symmetric':
        got, exc = run_twice(ctx, lambda: A.is_matrix_symmetric(), [A], 'is_matrix_symmetric')
        if exc is not None:
            report_raise(ctx, exc, 'is_matrix_symmetric', 'is_matrix_symmetric', None, True, context)
            return
        e = refc.is_matrix_symmetric(MA, lambda a, b: a is b or any_digest(a) == any_digest(b))
        ctx.equal(bool(got), e, 'index:is_matrix_symmetric', 'N=%d pattern %s' % (N, refc.pattern(MA)))
        return
    else:
        raise ValueError(kind)
    args_copy_digest = args
    res, exc = run_twice(ctx, call, args_copy_digest, label)
    if exc is not None:
        report_raise(ctx, exc, label, label + repr(sorted(desc.items())), exp, True, context)
        return
    n = judge_corr(ctx, res, exp, label, hint=hint)
    mark_nontrivial(ctx, n, nonid, label, repr(sorted(desc.items())), *args)
    if name in ('roll', 'Hankel', 'projected') and len(ctx.samples) < 3:
        ctx.sample({'call': label, 'args': desc, 'T': T, 'N': N, 'operand_pattern': refc.pattern(MA), 'result_pattern': refc.pattern(exp)})


# ------------------------------------------------------------------------------------------
def do_matmul(ctx, rng, variant, mask):
    T = int(rng.integers(2, 17))
    N = int(rng.integers(1, 4))
    lay = Layout(rng)
    A = make_corr(ctx, rng, T, N, 'real', mask, lay)
    MA = to_model(A)
    ctx.cell('matmul', variant, 'N=%d' % N, mask)
    if variant == 'corr':
        B = make_corr(ctx, rng, T, N, 'real', str(rng.choice(MASKS)), lay if rng.random() < 0.6 else Layout(rng))
        MB = to_model(B)
        label, plabel = '@(Corr,Corr)', '__matmul__'
        call = lambda: A @ B
        exp = refc.matmul(MA, MB)
        args = [A, B]
        hint = hint_global(MA, MB)
        hint = (hint[0] ** 2 * N, hint[0] * hint[1] * 2 * N)
    else:
        M = rng.uniform(0.3, 2.0, size=(N, N)) * rng.choice([-1.0, 1.0], size=(N, N))
        if rng.random() < 0.3:
            M[int(rng.integers(0, N)), :] = 0.0
        if rng.random() < 0.3:
            M[:, int(rng.integers(0, N))] = 0.0
        M0 = [[float(x) for x in row] for row in M]
        if variant == 'right-array':
            label, plabel = '@(Corr,ndarray)', '__matmul__'
            call = lambda: A @ M
            exp = refc.matmul_const(MA, M0)
        else:
            label, plabel = '@(ndarray,Corr)', '__rmatmul__'
            call = lambda: M @ A
            exp = refc.matmul_const(MA, M0, const_left=True)
        args = [A, M]
        hint = hint_global(MA)
        hint = (hint[0] * 2 * N, hint[1] * 2 * N)
    res, exc = run_twice(ctx, call, args, label)
    if exc is not None:
        report_raise(ctx, exc, plabel, label, exp, True, context_of(MA))
        return
    n = judge_corr(ctx, res, exp, label, plabel, hint=hint)
    mark_nontrivial(ctx, n, True, label, *args)


# ------------------------------------------------------------------------------------------
def do_history(ctx, rng):
    """a pool of correlators of common T (N=1, real), 6-10 random steps; every step is judged from its actual operands;
    at the end every object that was ever in the pool must still have the digest it had when it entered."""
    T = 2 * int(rng.integers(1, 9)) if rng.random() < 0.5 else int(rng.integers(2, 17))
    lay = Layout(rng)
    pool = [make_corr(ctx, rng, T, 1, 'real', str(rng.choice(MASKS)), lay if rng.random() < 0.7 else Layout(rng),
                      prof=str(rng.choice(['decay', 'decay', 'mixed'])), scale=False) for _ in range(3)]
    born = [any_digest(c) for c in pool]
    script = []
    steps = int(rng.integers(6, 11))
    for _ in range(steps):
        kind = str(rng.choice(['cc', 'cc', 'cs', 'sc', 'func', 'roll', 'reverse', 'thin', 'symmetric', 'neg']))
        A = pool[int(rng.integers(0, len(pool)))]
        MA = to_model(A)
        if kind == 'cc':
            B = pool[int(rng.integers(0, len(pool)))]
            MB = to_model(B)
            op = str(rng.choice(['+', '-', '*', '/']))
            label, plabel = '%s(Corr,Corr)' % op, DUNDER[(op, 'L')]
            call = lambda: OPS[op](A, B)
            exp = refc.binary(OPS[op], MA, MB, isnan_scalar)
            args, hints, hint = [A, B], hints_per_t(MA, MB), None
        elif kind in ('cs', 'sc'):
            op = str(rng.choice(['+', '-', '*', '/']))
            y = make_scalar_partner(rng, str(rng.choice(['Obs', 'float', 'int'])), lay)
            left, right = (A, y) if kind == 'cs' else (y, A)
            label = '%s(%s,%s)' % (op, type_label(left), type_label(right))
            plabel = DUNDER[(op, 'L' if kind == 'cs' else 'R')]
            call = lambda: OPS[op](left, right)
            exp = refc.binary_scalar(OPS[op], MA, y, scalar_left=(kind == 'sc'), isnan=isnan_scalar)
            args, hints, hint = [left, right], hints_per_t(MA, y), None
        elif kind == 'func':
            fname = str(rng.choice(['sin', 'cos', 'tanh', 'arctan', 'arcsinh', 'abs']))
            sf = abs if fname == 'abs' else getattr(np, fname)
            label = plabel = fname
            call = lambda: sf(A)
            exp = refc.unary(sf, MA, isnan_scalar)
            args, hints, hint = [A], hints_per_t(MA), None
        elif kind == 'neg':
            label = plabel = 'neg'
            call = lambda: -A
            exp = refc.unary(operator.neg, MA)
            args, hints, hint = [A], hints_per_t(MA), None
        elif kind == 'roll':
            dt = int(rng.integers(-T, T + 1))
            label = plabel = 'roll'
            call = lambda: A.roll(dt)
            exp = refc.roll(MA, dt)
            args, hints, hint = [A], None, (0.0, 0.0)
        elif kind == 'reverse':
            label = plabel = 'reverse'
            call = lambda: A.reverse()
            exp = refc.reverse(MA)
            args, hints, hint = [A], None, (0.0, 0.0)
        elif kind == 'thin':
            sp, off = int(rng.integers(1, 4)), int(rng.integers(0, 3))
            label = plabel = 'thin'
            call = lambda: A.thin(sp, off)
            exp = refc.thin(MA, sp, off)
            args, hints, hint = [A], None, (0.0, 0.0)
        else:
            if T % 2:
                continue
            label = plabel = 'symmetric'
            call = lambda: A.symmetric()
            exp = refc.symmetric(MA)
            args, hints, hint = [A], None, hint_global(MA)
        script.append(label)
        res, exc = run_twice(ctx, call, args, label)
        if exc is not None:
            report_raise(ctx, exc, plabel, label, exp, True, context_of(MA))
            continue
        if hints is not None:
            n = judge_corr(ctx, res, exp, label, plabel, hints=hints)
        else:
            n = judge_corr(ctx, res, exp, label, plabel, hint=hint)
        if is_corr(res) and not all_undefined(to_model(res)):
            mags = [v for (v, d), m in zip(mag_model(to_model(res)), to_model(res)) if m is not None]
            if 1e-3 < min(mags) and max(mags) < 1e4:
                pool.append(res)
                born.append(any_digest(res))
    ctx.count('history_steps', len(script))
    for k, (c, d) in enumerate(zip(pool, born)):
        ctx.ev()
        if any_digest(c) != d:
            ctx.violation('mutation:history:pool-object-changed-later', {'index': k, 'script': script})
    if len(set(script)) >= 3:
        ctx.nontrivial.add(digest('history', script, born[:3]))
    if len(ctx.samples) < 4:
        ctx.sample({'history': script, 'T': T, 'initial_patterns': [refc.pattern(to_model(c)) for c in pool[:3]]})


# ------------------------------------------------------------------------------------------
def quiet(ctx, fn, what):
    """call for the benefit of the mutation monitor only; what the call returns is judged elsewhere (C05, C07, C15, C16, C19)"""
    try:
        return fn()
    except Exception as e:
        ctx.count('misc_call_raised')
        ctx.cell('misc-raised', what, type(e).__name__)
        return None


def do_misc(ctx, rng, idx):
    import matplotlib.pyplot as plt
    import autograd.numpy as anp
    T = int(rng.integers(6, 17))
    lay = Layout(rng, nmin=10, nmax=14)
    mask = MASKS[idx % 4]
    A = make_corr(ctx, rng, T, 1, 'real', mask, lay, prof='decay')
    MA = to_model(A)
    ctx.cell('misc', mask)
    # printing with ranges (list objects owned by the caller)
    A.set_prange([0, 1])          # a stored plateau range is not a print range
    for pr in ([0, None], [1, 3], [2, T - 1], [0, T + 3], [2, 2], [T - 1, T - 1]):
        pr0 = list(pr)
        s1, exc = run_twice(ctx, lambda: A.__repr__(pr), [A, pr], '__repr__')
        if exc is not None:
            report_raise(ctx, exc, '__repr__', '__repr__(%r)' % pr0, None, True, context_of(MA))
        pr = list(pr0)
        quiet(ctx, lambda: A.print(pr), 'print')
    quiet(ctx, lambda: str(A), '__str__')
    quiet(ctx, lambda: repr(A), '__repr__')
    quiet(ctx, lambda: A.gamma_method(), 'gamma_method')
    quiet(ctx, lambda: A.gm(S=1.5), 'gm')
    quiet(ctx, lambda: A.plottable(), 'plottable')
    B = make_corr(ctx, rng, T, 1, 'real', str(rng.choice(MASKS)), lay)
    quiet(ctx, lambda: A == B, '__eq__')
    quiet(ctx, lambda: A == A, '__eq__')
    # real / imag are properties: checked here instead of by a tap
    for content in ('real', 'complex'):
        Cc = make_corr(ctx, rng, T, int(rng.integers(1, 3)), content, str(rng.choice(['none', 'interior'])), lay)
        d0 = any_digest(Cc)
        MC = to_model(Cc)
        for part in ('real', 'imag'):
            try:
                r = getattr(Cc, part)
            except Exception as e:
                report_raise(ctx, e, part, part, None, True, context_of(MC))
                continue
            if content == 'complex':
                exp = refc.unary(lambda x: getattr(x, part), MC)
            else:
                exp = MC if part == 'real' else refc.unary(lambda x: x * 0, MC)
            judge_corr(ctx, r, exp, part + '(' + type_label(Cc) + ')', part)
        ctx.ev()
        if any_digest(Cc) != d0:
            ctx.violation('mutation:real-imag:self', {'content': content})
    # derived quantities, fits, plateaus (results judged by C15 / C07)
    for v in ('symmetric', 'forward', 'backward', 'improved', 'log'):
        quiet(ctx, lambda: A.deriv(v), 'deriv')
    for v in ('symmetric', 'big_symmetric', 'improved', 'log'):
        quiet(ctx, lambda: A.second_deriv(variant=v), 'second_deriv')
    for v in ('log', 'logsym', 'cosh', 'sinh', 'arccosh'):
        quiet(ctx, lambda: A.m_eff(v), 'm_eff')
    rngl = [1, min(T - 1, 4)]
    quiet(ctx, lambda: A.plateau(rngl), 'plateau')
    quiet(ctx, lambda: A.plateau(plateau_range=rngl, method='avg', auto_gamma=True), 'plateau')
    fr = [0, T - 1]
    if idx % 2:
        quiet(ctx, lambda: A.fit(lambda a, x: a[0] * anp.exp(-a[1] * x), fr, silent=True), 'fit')
    quiet(ctx, lambda: A.fit(lambda a, x: a[0] + a[1] * x, fitrange=fr, silent=True), 'fit')
    # reweight / correlate (results judged by C05)
    w = lay.obs(rng, 1.0, rel=0.1)
    quiet(ctx, lambda: A.reweight(w), 'reweight')
    quiet(ctx, lambda: A.correlate(w), 'correlate')
    quiet(ctx, lambda: A.correlate(B), 'correlate')
    # plots and dumps: only a few (slow)
    if idx % 2 == 0:
        xr, yr, refs, comp = [0, T - 1], [4.0, -1.0][::-1], [1.0, 0.5, 0.75], [B, A]
        quiet(ctx, lambda: A.show(x_range=xr, comp=comp, y_range=yr, references=refs, auto_gamma=True, hide_sigma=2.0), 'show')
        quiet(ctx, lambda: A.show(xr, B, logscale=True), 'show')
        plt.close('all')
    else:
        quiet(ctx, lambda: abs(A).spaghetti_plot(), 'spaghetti_plot')
        quiet(ctx, lambda: abs(A).spaghetti_plot(logscale=False), 'spaghetti_plot')
        plt.close('all')
        with tempfile.TemporaryDirectory(prefix='vmon_c14_') as d:
            quiet(ctx, lambda: A.dump('c', datatype='json.gz', path=d), 'dump')
            quiet(ctx, lambda: A.dump(os.path.join(d, 'p'), datatype='pickle'), 'dump')
    ctx.nontrivial.add(digest('misc', any_digest(A)))


def do_gevp(ctx, rng):
    """exactly decaying matrix correlator: GEVP, Eigenvalue (-> projected with lists), prune, for the mutation monitor"""
    T = int(rng.integers(6, 10))
    N = 2 if rng.random() < 0.75 else 3
    lay = Layout(rng, nmin=10, nmax=12)
    E = np.cumsum(rng.uniform(0.2, 0.5, size=N))
    Z = rng.uniform(0.5, 1.5, size=(N, N)) + np.eye(N)
    amps = [lay.obs(rng, 1.0, rel=0.002) for _ in range(N)]
    content = []
    for t in range(T):
        a = np.empty((N, N), dtype=object)
        for i in range(N):
            for j in range(N):
                a[i, j] = sum(amps[n] * float(Z[i, n] * Z[j, n] * np.exp(-E[n] * t)) for n in range(N))
        content.append(a)
    if rng.random() < 0.5:
        content[int(rng.integers(T - 3, T))] = None
    A = PE.Corr(content)
    ctx.cell('gevp', 'N=%d' % N)
    quiet(ctx, lambda: A.GEVP(1), 'GEVP')
    quiet(ctx, lambda: A.GEVP(1, ts=3, sort='Eigenvector'), 'GEVP')
    quiet(ctx, lambda: A.GEVP(t0=1, ts=2, sort=None, method='cholesky'), 'GEVP')
    quiet(ctx, lambda: A.Eigenvalue(1, state=0), 'Eigenvalue')
    quiet(ctx, lambda: A.Eigenvalue(t0=1, ts=3, state=1, sort='Eigenvector'), 'Eigenvalue')
    quiet(ctx, lambda: A.prune(N - 1, tproj=3, t0proj=1), 'prune')
    quiet(ctx, lambda: A.prune(Ntrunc=1, basematrix=A), 'prune')
    quiet(ctx, lambda: A.matrix_symmetric().is_matrix_symmetric(), 'is_matrix_symmetric')
    ctx.nontrivial.add(digest('gevp', any_digest(A)))


# ------------------------------------------------------------------------------------------
# hardening scenarios (HARDENING_CHECKLIST.md): input classes and histories a seeded bug may need
def shared_entry_arrays(res, *operands):
    """number of timeslices of res whose entry array is (or is a view on) an entry array of an operand - telemetry:
    the property forbids mutation by the methods, it does not promise copies"""
    n = 0
    if not is_corr(res):
        return 0
    for r in res.content:
        if r is None:
            continue
        for op in operands:
            if is_corr(op) and any(o is not None and (o is r or np.shares_memory(o, r)) for o in op.content):
                n += 1
                break
    return n


def judged_call(ctx, rng, label, plabel, call, args, exp, hint=(0.0, 0.0), hints=None, context=None, operands=(), rtol=RTOL):
    res, exc = run_twice(ctx, call, args, label)
    if exc is not None:
        report_raise(ctx, exc, plabel, label, exp, True, context or context_of(*[to_model(a) for a in args if is_corr(a)]))
        return None
    n = judge_corr(ctx, res, exp, label, plabel, hint=hint, hints=hints, rtol=rtol)
    mark_nontrivial(ctx, n, True, label, *args)
    k = shared_entry_arrays(res, *[a for a in args if is_corr(a)])
    if k:
        ctx.count('result_shares_entry_array_with_operand:' + plabel, k)
    return res


def hard_same_operand(ctx, rng, mask):
    """item 4: the same correlator / observable object in several argument slots"""
    N = int(rng.choice([1, 1, 2]))
    T = 2 * int(rng.integers(1, 7))
    lay = Layout(rng)
    A = make_corr(ctx, rng, T, N, str(rng.choice(['real', 'real', 'complex'])) if N == 1 else 'real', mask, lay)
    MA = to_model(A)
    cplx = type_label(A) == 'CorrC'
    for op in (['+', '-', '*'] if cplx else ['+', '-', '*', '/']):
        label = '%s(%s,same object)' % (op, type_label(A))
        judged_call(ctx, rng, label, DUNDER[(op, 'L')], lambda op=op: OPS[op](A, A), [A], refc.binary(OPS[op], MA, MA, isnan_scalar),
                    hints=hints_per_t(MA))
    if not cplx:
        judged_call(ctx, rng, '@(Corr,same object)', '__matmul__', lambda: A @ A, [A], refc.matmul(MA, MA),
                    hint=(hint_global(MA)[0] ** 2 * N, hint_global(MA)[0] * hint_global(MA)[1] * 2 * N))
    # an entry of the correlator as partner of the correlator itself
    defined = [t for t in range(T) if MA[t] is not None]
    if N == 1 and defined and not cplx:
        y = A[defined[int(rng.integers(0, len(defined)))]]
        for op, order in (('+', 'L'), ('*', 'R'), ('/', 'L'), ('-', 'R')):
            left, right = (A, y) if order == 'L' else (y, A)
            label = '%s(%s,%s) partner is an entry of the correlator' % (op, type_label(left), type_label(right))
            judged_call(ctx, rng, label, DUNDER[(op, order)], lambda op=op, left=left, right=right: OPS[op](left, right), [left, right],
                        refc.binary_scalar(OPS[op], MA, y, scalar_left=(order == 'R'), isnan=isnan_scalar), hints=hints_per_t(MA, y))
    if N == 1 and not cplx:
        for parity in (1, -1):
            judged_call(ctx, rng, 'T_symmetry(same object)', 'T_symmetry', lambda parity=parity: A.T_symmetry(A, parity), [A],
                        refc.T_symmetry(MA, MA, parity), hint=hint_global(MA), context='undefined-slice' if has_undefined(MA) else 'operands-defined')
        if lay.cov is None:     # correlate refuses observables with covariance inputs (documented, judged by C05)
          judged_call(ctx, rng, 'correlate(same object)', 'correlate', lambda: A.correlate(A), [A],
                      refc.unary(lambda x: PE.correlate(x, x), MA), hint=hint_global(MA))
    ctx.cell('hard', 'same-operand', 'N=%d' % N, mask)


def hard_same_entry(ctx, rng, mask):
    """item 4: the same Obs object on several timeslices / at several matrix positions, the same vector object twice"""
    lay = Layout(rng)
    T = int(rng.integers(4, 13))
    defined, _ = none_mask(rng, T, mask if mask != 'padding' else 'many')
    pool = [lay.obs(rng, v) for v in profile(rng, 3, 'mixed')]
    # single-valued: blocks of repeated objects
    entries = [pool[(t // 2) % 3] if defined[t] else None for t in range(T)]
    A = PE.Corr(list(entries))
    MA = to_model(A)
    n = int(rng.integers(1, 4))
    for periodic in (False, True):
        judged_call(ctx, rng, 'Hankel(repeated entries)', 'Hankel', lambda periodic=periodic: A.Hankel(n, periodic), [A],
                    refc.hankel(MA, n, periodic), context='undefined-slice' if has_undefined(MA) else ('periodic-true' if periodic else 'periodic-false'))
    dt = int(rng.integers(-T, T + 1))
    judged_call(ctx, rng, 'roll(repeated entries)', 'roll', lambda: A.roll(dt), [A], refc.roll(MA, dt))
    if T % 2 == 0:
        judged_call(ctx, rng, 'symmetric(repeated entries)', 'symmetric', lambda: A.symmetric(), [A], refc.symmetric(MA), hint=hint_global(MA))
    judged_call(ctx, rng, '-(Corr,Corr) repeated entries', '__sub__', lambda: A - A.roll(1), [A],
                refc.binary(operator.sub, MA, refc.roll(MA, 1)), hints=hints_per_t(MA, refc.roll(MA, 1)))
    # matrix: one object at every position / at mirrored positions
    N = int(rng.integers(2, 4))
    mats = []
    for t in range(T):
        if not defined[t]:
            mats.append(None)
            continue
        a = np.empty((N, N), dtype=object)
        for i in range(N):
            for j in range(N):
                a[i, j] = pool[(i * j + t) % 3] if rng.random() < 0.7 else pool[0]
        mats.append(a)
    G = PE.Corr(list(mats))
    MG = to_model(G)
    hg = hint_global(MG)
    judged_call(ctx, rng, 'trace(repeated entries)', 'trace', lambda: G.trace(), [G], refc.trace(MG), hint=(hg[0] * N, hg[1] * N))
    judged_call(ctx, rng, 'matrix_symmetric(repeated entries)', 'matrix_symmetric', lambda: G.matrix_symmetric(), [G], refc.matrix_symmetric(MG), hint=hg)
    judged_call(ctx, rng, '@(Corr,Corr) repeated entries', '__matmul__', lambda: G @ G, [G], refc.matmul(MG, MG),
                hint=(hg[0] ** 2 * N, hg[0] * hg[1] * 2 * N))
    v = rng.uniform(0.3, 2.0, size=N) * rng.choice([-1.0, 1.0], size=N)
    v0 = [float(x) for x in v]
    normalize = bool(rng.integers(0, 2))
    judged_call(ctx, rng, 'projected(v, v) same vector object', 'projected', lambda: G.projected(v, v, normalize), [G, v],
                refc.projected(MG, v0, v0, normalize), hint=(hg[0] * 4 * N, hg[1] * 4 * N))
    vl = [rng.uniform(0.3, 2.0, size=N) for _ in range(T)]
    vl[1] = vl[0]                                            # one vector object on two timeslices
    l0 = [[float(x) for x in w] for w in vl]
    judged_call(ctx, rng, 'projected(list, same list object)', 'projected', lambda: G.projected(vl, vl, normalize=normalize), [G, vl],
                refc.projected(MG, l0, l0, normalize), hint=(hg[0] * 4 * N, hg[1] * 4 * N))
    ctx.cell('hard', 'same-entry', mask)


def hard_held_results(ctx, rng, mask):
    """item 5 / 7: results handed out earlier do not change when later calls are made; calls that change stored state of a
    RESULT (set_prange, tag, gamma_method) or operate on it do not reach the operand it was derived from"""
    T = 2 * int(rng.integers(2, 7))
    lay = Layout(rng, nmin=10, nmax=12)
    A = make_corr(ctx, rng, T, 1, 'real', mask, lay, scale=False)
    if rng.random() < 0.7:
        A.set_prange([1, T - 1])
    y = lay.obs(rng, 1.7)
    makers = [('reverse', lambda: A.reverse()), ('roll', lambda: A.roll(int(rng.integers(1, T)))), ('thin', lambda: A.thin(2, int(rng.integers(0, 2)))),
              ('symmetric', lambda: A.symmetric()), ('anti_symmetric', lambda: A.anti_symmetric()), ('__add__', lambda: A + y),
              ('__mul__', lambda: A * 2.0), ('__neg__', lambda: -A), ('__abs__', lambda: abs(A)), ('__truediv__', lambda: A / y),
              ('__pow__', lambda: A ** 2), ('T_symmetry', lambda: A.T_symmetry(A, -1)), ('Hankel', lambda: A.Hankel(2, True)),
              ('deriv', lambda: A.deriv('forward')), ('sin', lambda: np.sin(A)), ('__rsub__', lambda: 1.0 - A)]
    held = []
    dA = any_digest(A)
    for name, mk in makers:
        try:
            r = mk()
        except Exception:
            ctx.count('held_maker_raised')
            continue
        held.append((name, r, any_digest(r)))
        k = shared_entry_arrays(r, A)
        if k:
            ctx.count('result_shares_entry_array_with_operand:' + name, k)
    ctx.ev()
    if any_digest(A) != dA:
        ctx.violation('mutation:held-results:operand-changed-while-deriving', {'pattern': refc.pattern(to_model(A))})
        dA = any_digest(A)
    # second wave: the same and other calls again, on the operand and on the results
    for name, mk in makers:
        quiet(ctx, mk, 'second-wave')
    for name, r, d in held:
        quiet(ctx, lambda: r + 1.0, 'second-wave')
        quiet(ctx, lambda: -r, 'second-wave')
        quiet(ctx, lambda: r.reverse(), 'second-wave')
        quiet(ctx, lambda: r * r, 'second-wave')
    for name, r, d in held:
        ctx.ev()
        if any_digest(r) != d:
            ctx.violation('aliasing:%s:result-changed-by-later-calls' % name, {'T': T, 'mask': mask})
    ctx.ev()
    if any_digest(A) != dA:
        ctx.violation('aliasing:operand-changed-by-calls-on-results', {'T': T, 'mask': mask})
    # stored state of a result is its own: changing it must not reach the operand (digest covers prange, tag, data)
    for name, r, d in held:
        if r.N != 1:
            continue
        try:
            r.set_prange([0, 1])
            r.tag = 'changed'
            r.gamma_method()
        except Exception:
            ctx.count('held_state_change_raised')
        ctx.ev()
        if any_digest(A) != dA:
            ctx.violation('aliasing:%s:state-change-of-result-reaches-operand' % name,
                          {'operand_prange': repr(A.prange), 'operand_tag': repr(A.tag)})
            dA = any_digest(A)
    ctx.count('held_results_checked', len(held))
    ctx.cell('hard', 'held-results', mask)
    ctx.nontrivial.add(digest('held', dA))
    # the same for a matrix correlator: item / trace / projected / matrix_symmetric / timeslice views handed out earlier
    N = int(rng.integers(2, 4))
    G = make_corr(ctx, rng, T, N, 'real', mask, lay, scale=False)
    dG = any_digest(G)
    v = rng.uniform(0.5, 2.0, size=N)
    mmakers = [('item', lambda: G.item(0, N - 1)), ('trace', lambda: G.trace()), ('projected', lambda: G.projected(v, normalize=True)),
               ('matrix_symmetric', lambda: G.matrix_symmetric()), ('roll', lambda: G.roll(1)), ('__matmul__', lambda: G @ G),
               ('__getitem__', lambda: [G[t] for t in range(T)]), ('__mul__', lambda: G * G)]
    mheld = []
    for name, mk in mmakers:
        try:
            r = mk()
        except Exception:
            ctx.count('held_maker_raised')
            continue
        mheld.append((name, r, any_digest(r)))
    for name, mk in mmakers:
        quiet(ctx, mk, 'second-wave')
    quiet(ctx, lambda: G.gamma_method(), 'second-wave')
    for name, r, d in mheld:
        if is_corr(r):
            quiet(ctx, lambda: -r, 'second-wave')
            quiet(ctx, lambda: r.gamma_method(), 'second-wave')
            quiet(ctx, lambda: r.reverse(), 'second-wave')
    for name, r, d in mheld:
        ctx.ev()
        if any_digest(r) != d:
            ctx.violation('aliasing:%s:result-changed-by-later-calls' % name, {'T': T, 'N': N, 'mask': mask})
    ctx.ev()
    if any_digest(G) != dG:
        ctx.violation('aliasing:operand-changed-by-calls-on-results', {'T': T, 'N': N, 'mask': mask})
    ctx.count('held_results_checked', len(mheld))


def hard_boundary(ctx, rng, mask):
    """item 9 / 1: selectors at and beyond their boundaries, numpy integer arguments, minimal extents"""
    T = int(rng.choice([2, 3, 4, 5, 8, 11]))
    lay = Layout(rng)
    A = make_corr(ctx, rng, T, 1, 'real', mask, lay)
    MA = to_model(A)
    npint = [int, np.int64, np.int32][int(rng.integers(0, 3))]
    for dt in (T, -T, 2 * T, -2 * T, T + 1, -(T + 1), 3 * T + 2, -(3 * T + 1), -1, 0):
        d = npint(dt)
        judged_call(ctx, rng, 'roll(|dt|>=T or negative)', 'roll', lambda d=d: A.roll(d), [A], refc.roll(MA, dt))
    for spacing, offset in ((T + 1, 0), (2 * T + 3, 2), (T + 2, T + 2), (3, 7), (2, -5), (T, T), (1, 5), (2, 3 * T + 1), (T + 3, 3)):
        sp, of = npint(spacing), npint(offset)
        judged_call(ctx, rng, 'thin(spacing>T / offset beyond spacing)', 'thin', lambda sp=sp, of=of: A.thin(sp, of), [A], refc.thin(MA, spacing, offset))
    for n in sorted(set([1, 2, (T + 1) // 2, (T + 1) // 2 + 1, T])):
        for periodic in (False, True):
            nn = npint(n)
            judged_call(ctx, rng, 'Hankel(boundary dimensions)', 'Hankel', lambda nn=nn, periodic=periodic: A.Hankel(nn, periodic), [A],
                        refc.hankel(MA, n, periodic), context='undefined-slice' if has_undefined(MA) else ('periodic-true' if periodic else 'periodic-false'))
    for t in (0, T - 1, -1, -T):
        g = A[npint(t)]
        e = refc.getitem(MA, t)
        ctx.ev()
        if not ((g is None and e is None) or g is e):
            ctx.violation('index:__getitem__', {'T': T, 't': t, 'index_type': npint.__name__})
    P = make_corr(ctx, rng, T, 1, 'real', str(rng.choice(MASKS)), lay)
    MP = to_model(P)
    for parity in (1.0, -1.0):
        judged_call(ctx, rng, 'T_symmetry(parity as %s)' % type(parity).__name__, 'T_symmetry', lambda parity=parity: A.T_symmetry(P, parity), [A, P],
                    refc.T_symmetry(MA, MP, int(parity)), hint=hint_global(MA, MP), context=context_of(MA, MP))
    # parity as numpy integer: multiplies the partner by a numpy integer, which the arithmetic rejects (open cell 'npint'): counted
    for parity in (np.int64(-1), np.int32(1)):
        res, exc = run_twice(ctx, lambda parity=parity: A.T_symmetry(P, parity), [A, P], 'T_symmetry(numpy integer parity)')
        if exc is not None:
            report_raise(ctx, exc, 'T_symmetry', 'T_symmetry(numpy integer parity)', refc.T_symmetry(MA, MP, int(parity)), False, context_of(MA, MP))
        else:
            judge_corr(ctx, res, refc.T_symmetry(MA, MP, int(parity)), 'T_symmetry(numpy integer parity)', 'T_symmetry', hint=hint_global(MA, MP))
    if T % 2 == 0:
        judged_call(ctx, rng, 'symmetric(minimal T)' if T <= 4 else 'symmetric', 'symmetric', lambda: A.symmetric(), [A], refc.symmetric(MA), hint=hint_global(MA))
        judged_call(ctx, rng, 'anti_symmetric', 'anti_symmetric', lambda: A.anti_symmetric(), [A], refc.anti_symmetric(MA), hint=hint_global(MA),
                    context='undefined-slice-0' if MA[0] is None else context_of(MA))
    N = int(rng.integers(2, 4))
    G = make_corr(ctx, rng, T, N, 'real', mask, lay)
    MG = to_model(G)
    i, j = int(rng.integers(0, N)), int(rng.integers(0, N))
    judged_call(ctx, rng, 'item(numpy integers)', 'item', lambda: G.item(np.int64(i), np.int32(j)), [G], refc.item(MG, i, j))
    judged_call(ctx, rng, 'item(negative index)', 'item', lambda: G.item(-1, i), [G], refc.item(MG, N - 1, i))
    ctx.cell('hard', 'boundary', 'T=%d' % T, mask)


def hard_representation(ctx, rng, mask):
    """item 1: the same content handed over in different memory layouts / containers / dtypes"""
    T = int(rng.integers(2, 9))
    N = int(rng.integers(1, 4))
    lay = Layout(rng)
    arr = np.empty((T, N, N), dtype=object)
    vals = profile(rng, T, 'mixed')
    for t in range(T):
        for i in range(N):
            for j in range(N):
                arr[t, i, j] = lay.obs(rng, vals[t] * float(rng.uniform(0.5, 1.5)))
    exp = [[[arr[t, i, j] for j in range(N)] for i in range(N)] for t in range(T)]
    views = {'C-order': arr, 'F-order': np.asfortranarray(arr), 'transposed-view': arr.transpose(0, 2, 1),
             'strided-view': np.concatenate([arr, arr])[::2] if T % 2 == 0 else arr[::1], 'reversed-view': arr[::-1]}
    for name, v in views.items():
        e = exp
        if name == 'transposed-view':
            e = [[[arr[t, j, i] for j in range(N)] for i in range(N)] for t in range(T)]
        elif name == 'strided-view':
            e = [exp[(2 * t) % T] for t in range(T)] if T % 2 == 0 else exp
        elif name == 'reversed-view':
            e = exp[::-1]
        res, exc = run_twice(ctx, lambda v=v: PE.Corr(v), [v], 'Corr(3-d array, %s)' % name)
        if exc is not None:
            report_raise(ctx, exc, '__init__', 'Corr(3-d array, %s)' % name, e, True, 'operands-defined')
            continue
        judge_corr(ctx, res, e, 'Corr(3-d array, %s)' % name, '__init__')
    # timeslice matrices that are transposed views / Fortran ordered, undefined slices in between; 1x1 matrices
    defined, _ = none_mask(rng, T, mask if mask != 'padding' else 'interior')
    ent = [None if not defined[t] else (arr[t].T if t % 2 else np.asfortranarray(arr[t])) for t in range(T)]
    G = PE.Corr(list(ent))
    eG = [None if not defined[t] else ([[arr[t, j, i] for j in range(N)] for i in range(N)] if t % 2 else exp[t]) for t in range(T)]
    judge_corr(ctx, G, eG, 'Corr(list of non-contiguous matrices)', '__init__')
    MG = to_model(G)
    hg = hint_global(MG)
    y = lay.obs(rng, 1.3)
    judged_call(ctx, rng, '*(Corr,Obs) non-contiguous entries', '__mul__', lambda: G * y, [G, y], refc.binary_scalar(operator.mul, MG, y), hints=hints_per_t(MG, y))
    judged_call(ctx, rng, '+(Corr,Corr) non-contiguous entries', '__add__', lambda: G + G.reverse(), [G], refc.binary(operator.add, MG, refc.reverse(MG)),
                hints=hints_per_t(MG, refc.reverse(MG)))
    judged_call(ctx, rng, 'sin non-contiguous entries', 'sin', lambda: np.sin(G), [G], refc.unary(np.sin, MG, isnan_scalar), hints=hints_per_t(MG))
    judged_call(ctx, rng, 'roll non-contiguous entries', 'roll', lambda: G.roll(np.int64(-1)), [G], refc.roll(MG, -1))
    M = rng.integers(-3, 4, size=(N, N))
    M[M == 0] = 2
    for mname, Mv in (('int64', M), ('Fortran float', np.asfortranarray(M.astype(float))), ('transposed view', M.astype(float).T.copy().T),
                      ('float32', M.astype(np.float32))):
        M0 = [[float(x) for x in row] for row in np.asarray(Mv)]
        judged_call(ctx, rng, '@(Corr,ndarray %s)' % mname, '__matmul__', lambda Mv=Mv: G @ Mv, [G, Mv], refc.matmul_const(MG, M0), hint=(hg[0] * 4 * N, hg[1] * 4 * N))
        judged_call(ctx, rng, '@(ndarray %s,Corr)' % mname, '__rmatmul__', lambda Mv=Mv: Mv @ G, [G, Mv], refc.matmul_const(MG, M0, const_left=True),
                    hint=(hg[0] * 4 * N, hg[1] * 4 * N))
    if N > 1:
        big = rng.integers(1, 4, size=2 * N).astype(float) * rng.choice([-1.0, 1.0], size=2 * N)
        for vname, v in (('int64', big[:N].astype(np.int64)), ('float32', big[:N].astype(np.float32)), ('strided view', big[::2]),
                         ('negative stride', big[:N][::-1])):
            v0 = [float(x) for x in v]
            # single precision vectors: normalising them rounds to 1e-7, which is the caller's choice of precision - not normalised here
            normalize = bool(rng.integers(0, 2)) and vname != 'float32'
            judged_call(ctx, rng, 'projected(%s vector)' % vname, 'projected', lambda v=v, normalize=normalize: G.projected(v, normalize=normalize), [G, v],
                        refc.projected(MG, v0, v0, normalize), hint=(hg[0] * 8 * N, hg[1] * 8 * N))
    # containers the constructor does not accept must be rejected, not mis-read (counted)
    for cname, bad in (('tuple', tuple(arr[:, 0, 0])), ('nested lists', [[[x for x in row] for row in arr[t]] for t in range(T)])):
        try:
            r = PE.Corr(bad)
            ctx.count('constructor_accepted:' + cname)
            if cname == 'tuple':
                judge_corr(ctx, r, [[[arr[t, 0, 0]]] for t in range(T)], 'Corr(tuple)', '__init__')
        except (TypeError, ValueError):
            ctx.count('constructor_rejected:' + cname)
    ctx.cell('hard', 'representation', 'N=%d' % N, mask)


def hard_one_by_one(ctx, rng, mask):
    """item 9: single-valued correlators whose timeslices are written as 1x1 matrices (as Hankel(1) returns them)"""
    T = 2 * int(rng.integers(1, 6))
    lay = Layout(rng)
    B = make_corr(ctx, rng, T, 1, 'real', mask, lay, decorate=False)
    MB = to_model(B)
    how = int(rng.integers(0, 3))
    if how == 0 and not has_undefined(MB):
        a3 = np.empty((T, 1, 1), dtype=object)
        for t in range(T):
            a3[t, 0, 0] = MB[t][0][0]
        A = PE.Corr(a3)
    elif how == 1:
        try:
            A = B.Hankel(1, True)
        except Exception:
            A = PE.Corr([None if m is None else np.array([[m[0][0]]], dtype=object) for m in MB])
    else:
        A = PE.Corr([None if m is None else np.array([[m[0][0]]], dtype=object) for m in MB])
    MA = to_model(A)
    judge_corr(ctx, A, MB, 'Corr(1x1 matrices)', '__init__')
    ctx_ = 'one-by-one-matrix-content'
    y = lay.obs(rng, 0.8)
    judged_call(ctx, rng, '+(Corr,Corr) 1x1', '__add__', lambda: A + A, [A], refc.binary(operator.add, MA, MA), hints=hints_per_t(MA), context=ctx_)
    judged_call(ctx, rng, '+(Corr 1x1,Corr)', '__add__', lambda: A + B, [A, B], refc.binary(operator.add, MA, MB), hints=hints_per_t(MA), context=ctx_)
    judged_call(ctx, rng, '/(Obs,Corr) 1x1', '__rtruediv__', lambda: y / A, [A, y], refc.binary_scalar(operator.truediv, MA, y, scalar_left=True, isnan=isnan_scalar),
                hints=hints_per_t(MA, y), context=ctx_)
    judged_call(ctx, rng, 'log 1x1', 'log', lambda: np.log(A), [A], refc.unary(np.log, MA, isnan_scalar), hints=hints_per_t(MA), context=ctx_)
    judged_call(ctx, rng, 'roll 1x1', 'roll', lambda: A.roll(1), [A], refc.roll(MA, 1), context=ctx_)
    judged_call(ctx, rng, 'reverse 1x1', 'reverse', lambda: A.reverse(), [A], refc.reverse(MA), context=ctx_)
    judged_call(ctx, rng, 'thin 1x1', 'thin', lambda: A.thin(2, 1), [A], refc.thin(MA, 2, 1), context=ctx_)
    judged_call(ctx, rng, 'Hankel(one-by-one-matrix-content)', 'Hankel', lambda: A.Hankel(2, True), [A], refc.hankel(MA, 2, True), context=ctx_)
    judged_call(ctx, rng, 'symmetric 1x1', 'symmetric', lambda: A.symmetric(), [A], refc.symmetric(MA), hint=hint_global(MA), context=ctx_)
    judged_call(ctx, rng, 'anti_symmetric 1x1', 'anti_symmetric', lambda: A.anti_symmetric(), [A], refc.anti_symmetric(MA), hint=hint_global(MA), context=ctx_)
    judged_call(ctx, rng, 'T_symmetry 1x1', 'T_symmetry', lambda: A.T_symmetry(A), [A], refc.T_symmetry(MA, MA, 1), hint=hint_global(MA), context=ctx_)
    ctx.cell('hard', 'one-by-one', mask)


def hard_near_symmetric(ctx, rng, mask, k=0):
    """items 3 / 6: matrices that are symmetric only in what a cheap key sees, at every scale.  k enumerates
    (scale, asymmetry level, kind of asymmetry) systematically"""
    T = int(rng.integers(2, 8))
    N = int(rng.integers(2, 4))
    lay = Layout(rng)
    sc = [1e-8, 1.0, 1e8, 1e-4, 1e4][k % 5]
    level = [0.3, 1e-6, 0.3, 1e-3, 1e-9][(k // 5) % 5]
    only_fluctuations_differ = (k // 5) % 5 in (2, 3)
    defined, _ = none_mask(rng, T, mask if mask != 'padding' else 'many')
    mats = []
    for t in range(T):
        if not defined[t]:
            mats.append(None)
            continue
        a = np.empty((N, N), dtype=object)
        for i in range(N):
            for j in range(i, N):
                a[i, j] = lay.obs(rng, sc * float(rng.uniform(0.5, 2.0)))
                if j > i:
                    # same central value up to `level`, different fluctuations
                    if only_fluctuations_differ:
                        # same central value; the fluctuations differ by `level` times fluctuations of the same size
                        # (an independent observable generated like a[i, j], minus its mean)
                        d = lay.obs(rng, a[i, j].value)
                        a[j, i] = a[i, j] + (d - d.value) * level
                    else:
                        a[j, i] = a[i, j] * (1.0 + level)
        mats.append(a)
    G = PE.Corr(list(mats))
    MG = to_model(G)
    if level < 1e-6:
        # asymmetry below single precision: whether such a matrix counts as symmetric is a borderline decision (not judged)
        ctx.count('near_symmetric_borderline_not_judged')
        quiet(ctx, lambda: G.matrix_symmetric(), 'matrix_symmetric')
        return
    got = quiet(ctx, lambda: G.is_matrix_symmetric(), 'is_matrix_symmetric')
    ctx.equal(bool(got), False, 'index:is_matrix_symmetric', 'asymmetry %g at scale %g' % (level, sc))
    judged_call(ctx, rng, 'matrix_symmetric(near-symmetric, scaled)', 'matrix_symmetric', lambda: G.matrix_symmetric(), [G],
                refc.matrix_symmetric(MG), hint=hint_global(MG))
    ctx.cell('hard', 'near-symmetric', 'scale=%g' % sc, 'level=%g' % level)


def must_reject(ctx, name, fn, types, keep=()):
    """a documented rejection: the call must raise one of `types`; the objects in keep must be unchanged afterwards"""
    ctx.count('rejections_judged')
    ctx.count('rejection:' + name)
    d0 = [any_digest(k) for k in keep]
    ctx.ev()
    try:
        r = fn()
    except types:
        pass
    except Exception as e:
        ctx.violation('rejection:%s:raises-%s' % (name, type(e).__name__), {'message': str(e)[:200], 'expected': [t.__name__ for t in types]})
    else:
        ctx.violation('rejection:%s:accepted' % name, {'returned': repr(r)[:200]})
    ctx.ev()
    if [any_digest(k) for k in keep] != d0:
        ctx.violation('rejection:%s:argument-changed' % name, {})


def hard_rejections(ctx, rng, mask):
    """checklist 19: every documented rejection of the constructor, the arithmetic and the index maps is provoked and must raise"""
    T = 2 * int(rng.integers(2, 5))
    lay = Layout(rng)
    A = make_corr(ctx, rng, T, 1, 'real', mask, lay)
    O = make_corr(ctx, rng, T + 1, 1, 'real', mask, lay)            # odd extent
    G = make_corr(ctx, rng, T, 2, 'real', mask, lay)
    G3 = make_corr(ctx, rng, T, 3, 'real', mask, lay)
    y = lay.obs(rng, 1.3)
    VE, TE = (ValueError,), (TypeError,)

    def arr2(rows):
        a = np.empty((len(rows), len(rows[0])), dtype=object)
        for i, r in enumerate(rows):
            for j, x in enumerate(r):
                a[i, j] = x
        return a
    obs3 = np.empty((T, 2, 3), dtype=object)
    obs4 = np.empty((2, 2, 2, 2), dtype=object)
    for idx_ in np.ndindex(obs3.shape):
        obs3[idx_] = y
    for idx_ in np.ndindex(obs4.shape):
        obs4[idx_] = y
    m23 = np.empty((2, 3), dtype=object)
    m22 = np.empty((2, 2), dtype=object)
    m33 = np.empty((3, 3), dtype=object)
    for m in (m23, m22, m33):
        for idx_ in np.ndindex(m.shape):
            m[idx_] = y
    # constructor
    must_reject(ctx, 'Corr(2-d array not square)', lambda: PE.Corr(arr2([[A, A, A], [A, A, A]])), VE)
    must_reject(ctx, 'Corr(2-d array of non-correlators)', lambda: PE.Corr(arr2([[A, y], [y, A]])), VE)
    must_reject(ctx, 'Corr(2-d array of matrix correlators)', lambda: PE.Corr(arr2([[G, G], [G, G]])), VE)
    must_reject(ctx, 'Corr(2-d array, different T)', lambda: PE.Corr(arr2([[A, O], [O, A]])), VE)
    must_reject(ctx, 'Corr(3-d array not square)', lambda: PE.Corr(obs3), VE)
    must_reject(ctx, 'Corr(4-d array)', lambda: PE.Corr(obs4), VE)
    must_reject(ctx, 'Corr(list of non-square matrices)', lambda: PE.Corr([m23, m23, None]), VE)
    must_reject(ctx, 'Corr(list of matrices of different shape)', lambda: PE.Corr([m22, None, m33]), VE)
    must_reject(ctx, 'Corr(wrong container)', lambda: PE.Corr({'a': y}), TE)
    must_reject(ctx, 'Corr(list of wrong items)', lambda: PE.Corr([y, 1.0, y]), TE)
    # reweighted flag that differs between the entries of a matrix correlator
    Am = make_corr(ctx, rng, 3, 1, 'real', 'none', lay, decorate=False)
    ctx.equal(Am.reweighted, False, 'state:reweighted', 'no entry reweighted')
    for e in Am.content:
        e[0].reweighted = True
    ctx.equal(Am.reweighted, True, 'state:reweighted', 'every entry reweighted')
    Am.content[1][0].reweighted = False
    must_reject(ctx, 'reweighted(mixed flags)', lambda: Am.reweighted, (Exception,))
    try:
        G.reweighted
        ctx.count('reweighted_property_of_matrix_correlator_returns')
    except AttributeError:
        ctx.count('reweighted_property_of_matrix_correlator_raises_AttributeError')      # observation, outside the statement of C14
    must_reject(ctx, 'show(N>1)', lambda: G.show(), VE, [G])
    must_reject(ctx, 'spaghetti_plot(N>1)', lambda: G.spaghetti_plot(), VE, [G])
    must_reject(ctx, 'prune(N=1)', lambda: A.prune(1), VE, [A])
    must_reject(ctx, 'GEVP(N=1)', lambda: A.GEVP(1), VE, [A])
    # index maps on the wrong kind of correlator
    v = np.array([1.0, 2.0])
    must_reject(ctx, 'projected(N=1)', lambda: A.projected(v), VE, [A, v])
    must_reject(ctx, 'projected(list of wrong length, array)', lambda: G.projected([v] * (T - 1), v), VE, [G])
    must_reject(ctx, 'projected(array, list of wrong length)', lambda: G.projected(v, [v] * (T + 1)), VE, [G])
    must_reject(ctx, 'projected(vector of wrong shape)', lambda: G.projected(np.array([1.0, 2.0, 3.0])), VE, [G])
    must_reject(ctx, 'item(N=1)', lambda: A.item(0, 0), VE, [A])
    must_reject(ctx, 'plottable(N>1)', lambda: G.plottable(), VE, [G])
    must_reject(ctx, 'symmetric(N>1)', lambda: G.symmetric(), VE, [G])
    must_reject(ctx, 'symmetric(odd T)', lambda: O.symmetric(), VE, [O])
    must_reject(ctx, 'anti_symmetric(N>1)', lambda: G.anti_symmetric(), TE, [G])
    must_reject(ctx, 'anti_symmetric(odd T)', lambda: O.anti_symmetric(), VE, [O])
    must_reject(ctx, 'is_matrix_symmetric(N=1)', lambda: A.is_matrix_symmetric(), TE, [A])
    must_reject(ctx, 'trace(N=1)', lambda: A.trace(), VE, [A])
    must_reject(ctx, 'matrix_symmetric(N=1)', lambda: A.matrix_symmetric(), VE, [A])
    must_reject(ctx, 'Hankel(N>1)', lambda: G.Hankel(2), (NotImplementedError,), [G])
    must_reject(ctx, 'correlate(N>1)', lambda: G.correlate(y), VE, [G, y])
    must_reject(ctx, 'correlate(number)', lambda: A.correlate(2.0), TE, [A])
    must_reject(ctx, 'reweight(N>1)', lambda: G.reweight(y), (Exception,), [G, y])
    must_reject(ctx, 'T_symmetry(N>1)', lambda: G.T_symmetry(G), (Exception,), [G])
    must_reject(ctx, 'T_symmetry(partner not a correlator)', lambda: A.T_symmetry(y), (Exception,), [A, y])
    for par in (2, 0, -2, 0.5):
        must_reject(ctx, 'T_symmetry(parity not +-1)', lambda par=par: A.T_symmetry(A, par), (Exception,), [A])
    # stored plateau range
    d0 = any_digest(A)
    must_reject(ctx, 'set_prange(three entries)', lambda: A.set_prange([0, 1, 2]), VE, [A])
    must_reject(ctx, 'set_prange(float entries)', lambda: A.set_prange([0.0, 1.0]), TE, [A])
    must_reject(ctx, 'set_prange(reversed)', lambda: A.set_prange([2, 1]), VE, [A])
    must_reject(ctx, 'set_prange(beyond T)', lambda: A.set_prange([0, T + 1]), VE, [A])
    must_reject(ctx, 'set_prange(negative)', lambda: A.set_prange([-1, 1]), VE, [A])
    # arithmetic
    must_reject(ctx, '+(Corr,Corr) different T', lambda: A + O, VE, [A, O])
    must_reject(ctx, '+(Corr,Corr) different N', lambda: G + G3, VE, [G, G3])
    must_reject(ctx, '+(Corr,Corr) N=1 and N>1', lambda: A + G, VE, [A, G])
    must_reject(ctx, '+(Corr,ndarray of wrong length)', lambda: A + np.ones(T + 1), VE, [A])
    must_reject(ctx, '+(Corr,str)', lambda: A + 'x', TE, [A])
    must_reject(ctx, '*(Corr,Corr) different N>1', lambda: G * G3, VE, [G, G3])
    must_reject(ctx, '*(Corr,Corr) different T', lambda: A * O, VE, [A, O])
    must_reject(ctx, '*(Corr,ndarray of wrong length)', lambda: A * np.ones(T - 1), VE, [A])
    must_reject(ctx, '*(Corr,str)', lambda: A * 'x', TE, [A])
    must_reject(ctx, '/(Corr,Corr) different N>1', lambda: G / G3, VE, [G, G3])
    must_reject(ctx, '/(Corr,Corr) different T', lambda: A / O, VE, [A, O])
    must_reject(ctx, '/(Corr,ndarray of wrong length)', lambda: A / np.ones(T + 2), VE, [A])
    must_reject(ctx, '/(Corr,str)', lambda: A / 'x', TE, [A])
    must_reject(ctx, '/(Corr,0)', lambda: A / 0, VE, [A])
    must_reject(ctx, '/(Corr,0.0)', lambda: A / 0.0, VE, [A])
    zo = y - y.value                                              # central value exactly 0, fluctuations not
    must_reject(ctx, '/(Corr,Obs with value 0)', lambda: A / zo, VE, [A, zo])
    must_reject(ctx, '/(Corr,CObs zero)', lambda: A / PE.CObs(0.0, 0.0), VE, [A])
    must_reject(ctx, '**(Corr,str)', lambda: A ** 'x', TE, [A])
    must_reject(ctx, '@(Corr,vector)', lambda: G @ np.ones(2), VE, [G])
    must_reject(ctx, '@(Corr,non-square matrix)', lambda: G @ np.ones((2, 3)), VE, [G])
    must_reject(ctx, '@(Corr,matrix of other dimension)', lambda: G @ np.ones((3, 3)), VE, [G])
    must_reject(ctx, '@(Corr,Corr) different N', lambda: G @ G3, VE, [G, G3])
    must_reject(ctx, '@(Corr,number)', lambda: G @ 3.0, TE, [G])
    must_reject(ctx, '@(vector,Corr)', lambda: np.ones(2) @ G, VE, [G])
    must_reject(ctx, '@(matrix of other dimension,Corr)', lambda: np.ones((3, 3)) @ G, VE, [G])
    must_reject(ctx, '@(number,Corr)', lambda: 3.0 @ G, TE, [G])
    must_reject(ctx, 'dump(unknown datatype)', lambda: A.dump('x', datatype='yaml'), VE, [A])
    ctx.ev()
    if any_digest(A) != d0:
        ctx.violation('rejection:operand-changed-by-rejected-calls', {})
    # what a matrix correlator prints: the header only
    G.tag = None
    ctx.equal(repr(G), 'Corr T=%d N=%d\n' % (G.T, G.N), 'index:__repr__(N>1)', 'header only')
    # == with something that is not a correlator acts entry by entry on the content
    if not has_undefined(to_model(A)):
        same = A == list(A.content)
        ctx.equal(bool(np.all(same)), True, 'index:__eq__(list of the content)', 'all entries equal')
        other = list(A.content)
        other[T - 1] = np.array([y + 100.0])
        diff = A == other
        ctx.equal([bool(x) for x in np.asarray(diff).ravel()], [True] * (T - 1) + [False], 'index:__eq__(list with one other entry)', 'last entry differs')
    # dump without a path argument writes next to the given file name; the file reads back as the same correlator
    with tempfile.TemporaryDirectory(prefix='vmon_c14_') as d:
        fn = os.path.join(d, 'corr')
        try:
            A.dump(fn, datatype='json.gz')
            B = PE.input.json.load_json(fn, verbose=False)
            ctx.equal(refc.pattern(to_model(B)), refc.pattern(to_model(A)), 'dump:json-without-path', 'pattern after reading back')
        except Exception as e:
            report_raise(ctx, e, 'dump', 'dump(json.gz, no path)', None, True, context_of(to_model(A)))
    ctx.cell('hard', 'rejections', mask)


def zero_valued(o):
    """an observable with the fluctuations of o and central value exactly 0.0"""
    return o - o.value


def hard_degenerate(ctx, rng, mask):
    """checklist 16-18: central values exactly 0.0 with fluctuations, operands with exactly equal means on other data,
    copies the library's == / hash cannot tell from the original"""
    T = 2 * int(rng.integers(2, 7))
    lay = Layout(rng)
    defined, _ = none_mask(rng, T, mask if mask != 'padding' else 'many')
    vals = profile(rng, T, 'mixed')
    zeros = [bool(rng.random() < 0.35) for _ in range(T)]
    ent = [None if not defined[t] else (zero_valued(lay.obs(rng, 1.0)) if zeros[t] else lay.obs(rng, vals[t])) for t in range(T)]
    A = PE.Corr(list(ent))
    MA = to_model(A)
    y = lay.obs(rng, 1.7)
    hp = hints_per_t(MA, y)
    hp = [(max(v, 1.0), max(d, 1e-3)) for v, d in hp]
    ctx.count('correlators_with_zero_valued_entries')
    for op, order in (('+', 'L'), ('-', 'R'), ('*', 'L'), ('*', 'R'), ('/', 'L')):
        left, right = (A, y) if order == 'L' else (y, A)
        judged_call(ctx, rng, '%s(%s,%s) zero-valued entries' % (op, type_label(left), type_label(right)), DUNDER[(op, order)],
                    lambda op=op, left=left, right=right: OPS[op](left, right), [left, right],
                    refc.binary_scalar(OPS[op], MA, y, scalar_left=(order == 'R'), isnan=isnan_scalar), hints=hp)
    judged_call(ctx, rng, '*(Corr,Corr) zero-valued entries', '__mul__', lambda: A * A, [A], refc.binary(operator.mul, MA, MA, isnan_scalar), hints=hp)
    judged_call(ctx, rng, '**(Corr,int) zero-valued entries', '__pow__', lambda: A ** 2, [A], refc.binary_scalar(operator.pow, MA, 2, isnan=isnan_scalar), hints=hp)
    for fname in ('sin', 'tanh', 'arctan', 'arcsinh', 'exp', 'cos', 'abs', 'neg'):
        sf = abs if fname == 'abs' else (operator.neg if fname == 'neg' else getattr(np, fname))
        judged_call(ctx, rng, fname + ' zero-valued entries', fname, lambda sf=sf: sf(A), [A], refc.unary(sf, MA, isnan_scalar), hints=hp)
    # 0 / 0 is not a number: the timeslice becomes undefined; 0 / x is a zero-valued observable
    ent2 = [None if not defined[t] else (zero_valued(lay.obs(rng, 1.0)) if (zeros[t] and rng.random() < 0.7) else lay.obs(rng, 1.0 + rng.uniform(0.2, 2.0)))
            for t in range(T)]
    ok2 = [e is None or e.value != 0.0 or zeros[t] for t, e in enumerate(ent2)]
    B = PE.Corr(list(ent2))
    MB = to_model(B)
    # only 0/0 and x/y, 0/y: a finite number over an exact zero is infinite, which is outside what the property speaks about
    if all(ok2) and all(not (zeros[t] is False and e is not None and e.value == 0.0) for t, e in enumerate(ent2)):
        judged_call(ctx, rng, '/(Corr,Corr) zero over zero', '__truediv__', lambda: A / B, [A, B], refc.binary(operator.truediv, MA, MB, isnan_scalar),
                    hints=[(max(a[0], 1.0), max(a[1], 1e-3)) for a in hints_per_t(MA, MB)])
        ctx.count('zero_over_zero_divisions')
    if T % 2 == 0:
        judged_call(ctx, rng, 'symmetric zero-valued entries', 'symmetric', lambda: A.symmetric(), [A], refc.symmetric(MA), hint=(3.0, 1.0))
    # operands whose means agree exactly while the data differ
    C = make_corr(ctx, rng, T, 1, 'real', mask, lay, decorate=False, scale=False)
    MC = to_model(C)
    tw = [None if m is None else m[0][0].value + zero_valued(lay.obs(rng, 1.0)) * float(rng.uniform(0.5, 2.0)) for m in MC]
    D = PE.Corr(list(tw))
    MD = to_model(D)
    ctx.count('operands_with_equal_means_on_other_data')
    hcd = hints_per_t(MC, MD)
    for op in ('-', '/', '+', '*'):
        judged_call(ctx, rng, '%s(Corr,Corr) equal means' % op, DUNDER[(op, 'L')], lambda op=op: OPS[op](C, D), [C, D],
                    refc.binary(OPS[op], MC, MD, isnan_scalar), hints=hcd)
    R = PE.Corr(list(tw[::-1]))                                    # the time-reversed partner with exactly the means of C
    MR = to_model(R)
    for parity in (1, -1):
        judged_call(ctx, rng, 'T_symmetry equal means', 'T_symmetry', lambda parity=parity: C.T_symmetry(R, parity), [C, R],
                    refc.T_symmetry(MC, MR, parity), hint=hint_global(MC, MR), context=context_of(MC, MR))
    # a matrix whose [j,i] entries are copies of [i,j] carrying another tag; and one whose mean values are symmetric while the data are not
    N = int(rng.integers(2, 4))
    mats, mats2 = [], []
    for t in range(T):
        if not defined[t]:
            mats.append(None)
            mats2.append(None)
            continue
        a = np.empty((N, N), dtype=object)
        b = np.empty((N, N), dtype=object)
        for i in range(N):
            for j in range(i, N):
                a[i, j] = lay.obs(rng, float(rng.uniform(0.5, 2.0)))
                b[i, j] = a[i, j]
                if j > i:
                    a[j, i] = copy.deepcopy(a[i, j])
                    a[j, i].tag = 'copy'
                    b[j, i] = a[i, j].value + zero_valued(lay.obs(rng, 1.0))
        mats.append(a)
        mats2.append(b)
    G = PE.Corr(list(mats))
    MG = to_model(G)
    got = quiet(ctx, lambda: G.is_matrix_symmetric(), 'is_matrix_symmetric')
    ctx.equal(bool(got), True, 'index:is_matrix_symmetric', 'copies with another tag')
    judged_call(ctx, rng, 'matrix_symmetric(tagged copies)', 'matrix_symmetric', lambda: G.matrix_symmetric(), [G], refc.matrix_symmetric(MG), hint=hint_global(MG))
    H = PE.Corr(list(mats2))
    MH = to_model(H)
    got = quiet(ctx, lambda: H.is_matrix_symmetric(), 'is_matrix_symmetric')
    ctx.equal(bool(got), False, 'index:is_matrix_symmetric', 'symmetric mean values, different data')
    judged_call(ctx, rng, 'matrix_symmetric(symmetric means, different data)', 'matrix_symmetric', lambda: H.matrix_symmetric(), [H],
                refc.matrix_symmetric(MH), hint=hint_global(MH))
    judged_call(ctx, rng, 'trace(symmetric means)', 'trace', lambda: H.trace(), [H], refc.trace(MH), hint=hint_global(MH))
    ctx.cell('hard', 'degenerate', mask)


def hard_near_special(ctx, rng, mask):
    """inputs NEAR a special value, where the library must decide exactly and not by a tolerance: projection vectors whose norm is
    1 +- 1e-3 / 1e-6 / 1e-9 / 1e-12 (typed-in eigenvectors), exactly 1 and far from 1, with normalize on; divisors and exponents
    next to the values that are treated specially; judged with rtol 1e-12 (the reference and the library differ only by the order
    of a few additions) so that a relative error of 1e-9 shows"""
    T = int(rng.integers(2, 9))
    N = int(rng.integers(2, 4))
    lay = Layout(rng)
    G = make_corr(ctx, rng, T, N, 'real', mask, lay, scale=False)
    MG = to_model(G)
    hg = hint_global(MG)
    tight = dict(hint=(hg[0] * N * N, hg[1] * N * N), rtol=1e-12)

    def unit():
        u = rng.normal(size=N)
        return u / np.sqrt(u @ u)

    def near_unit(eps):
        return unit() * (1.0 + eps)
    vecs = [('norm 1 + %g' % e, near_unit(e)) for e in (1e-3, -1e-3, 1e-6, -1e-6, 1e-9, -1e-9, 1e-12)]
    vecs.append(('five digits', np.round(unit(), 5)))
    vecs.append(('seven digits', np.round(unit(), 7)))
    vecs.append(('exactly normalised', unit()))
    far = rng.integers(1, 5, size=N).astype(float) * rng.choice([-1.0, 1.0], size=N)
    vecs.append(('far from 1', far))
    for name, v in vecs:
        v0 = [float(x) for x in v]
        ctx.count('projected_normalize_near_unit_norm')
        judged_call(ctx, rng, 'projected(normalize, vector of %s)' % ('norm near 1' if 'norm 1' in name or 'digits' in name else name), 'projected',
                    lambda v=v: G.projected(v, normalize=True), [G, v], refc.projected(MG, v0, v0, True), **tight)
    # two different vectors: one next to unit norm, one far; and the other way round
    a, b = near_unit(float(rng.choice([1e-6, -1e-6, 3e-6, 1e-9]))), far
    for l, r in ((a, b), (b, a)):
        judged_call(ctx, rng, 'projected(normalize, one vector of norm near 1)', 'projected', lambda l=l, r=r: G.projected(l, r, normalize=True), [G, l, r],
                    refc.projected(MG, [float(x) for x in l], [float(x) for x in r], True), **tight)
    # per-timeslice lists whose vectors have norms near 1, alone and next to a single array
    vl = [near_unit(float(rng.choice([1e-3, 1e-6, -1e-6, 1e-9, 0.0]))) for _ in range(T)]
    l0 = [[float(x) for x in w] for w in vl]
    judged_call(ctx, rng, 'projected(normalize, list of vectors of norm near 1)', 'projected', lambda: G.projected(vl, normalize=True), [G, vl],
                refc.projected(MG, l0, l0, True), **tight)
    w = near_unit(1e-6)
    judged_call(ctx, rng, 'projected(normalize, list and vector of norm near 1)', 'projected', lambda: G.projected(vl, w, normalize=True), [G, vl, w],
                refc.projected(MG, l0, [float(x) for x in w], True), **tight)
    # without normalisation nothing may be normalised, however close to 1 the norm is
    v = near_unit(1e-6)
    judged_call(ctx, rng, 'projected(no normalisation, vector of norm near 1)', 'projected', lambda: G.projected(v), [G, v],
                refc.projected(MG, [float(x) for x in v], [float(x) for x in v], False), **tight)
    # divisors next to zero are not zero; exponents next to an integer are not integers
    A = make_corr(ctx, rng, T, 1, 'real', mask, lay, prof='alternating', scale=False)
    MA = to_model(A)
    for tiny in (1e-9, -1e-12, 1e-30):
        judged_call(ctx, rng, '/(Corr,float next to zero)', '__truediv__', lambda tiny=tiny: A / tiny, [A],
                    refc.binary_scalar(operator.truediv, MA, tiny, isnan=isnan_scalar), hints=None, hint=(0.0, 0.0))
    yo = lay.obs(rng, 1.0, rel=0.05)
    yo = (yo - yo.value) + 1e-11                                   # central value 1e-11, fluctuations of order 0.05
    judged_call(ctx, rng, '/(Corr,Obs with value next to zero)', '__truediv__', lambda: A / yo, [A, yo],
                refc.binary_scalar(operator.truediv, MA, yo, isnan=isnan_scalar))
    for ex in (2.0 + 1e-9, 2.0, 1.0 - 1e-12):
        judged_call(ctx, rng, '**(Corr,float next to an integer)', '__pow__', lambda ex=ex: A ** ex, [A],
                    refc.binary_scalar(operator.pow, MA, ex, isnan=isnan_scalar), hints=hints_per_t(MA))
    for par in (1.0 + 1e-9, -1.0 + 1e-12):
        must_reject(ctx, 'T_symmetry(parity next to +-1)', lambda par=par: A.T_symmetry(A, par), (Exception,), [A])
    # arguments of functions next to the boundary of their domain: inside -> defined, outside -> undefined
    for fname, inside, outside in (('arcsin', 1 - 1e-9, 1 + 1e-9), ('arccos', -1 + 1e-9, -1 - 1e-9), ('arctanh', 1 - 1e-9, 1 + 1e-9),
                                   ('arccosh', 1 + 1e-9, 1 - 1e-9), ('log', 1e-12, -1e-12), ('sqrt', 1e-12, -1e-12)):
        ent = [lay.obs(rng, 0.5, rel=0.01) for _ in range(4)]
        ent[1] = (ent[1] - ent[1].value) + inside
        ent[2] = (ent[2] - ent[2].value) + outside
        if fname == 'arccosh':
            ent[0], ent[3] = ent[0] + 1.0, ent[3] + 1.0
        B = PE.Corr(list(ent))
        MB = to_model(B)
        sf = getattr(np, fname)
        judged_call(ctx, rng, fname + ' next to the boundary of the domain', fname, lambda sf=sf: sf(B), [B], refc.unary(sf, MB, isnan_scalar))
    ctx.cell('hard', 'near-special', mask)


# scenario, cases per kind of undefined set and quick run: the cheap ones often, the ones that make 20-60 judged calls per case less often
HARD_WEIGHTS = [(hard_same_operand, 13), (hard_same_entry, 10), (hard_held_results, 5), (hard_boundary, 6), (hard_representation, 6),
                (hard_one_by_one, 13), (hard_near_symmetric, 13), (hard_rejections, 13), (hard_degenerate, 13), (hard_near_special, 13)]
HARD = []
for _k in range(max(w for _, w in HARD_WEIGHTS)):
    HARD += [(f, _k) for f, w in HARD_WEIGHTS if _k < w]


def do_hard(ctx, rng, idx, mask):
    ctx.count('hardening_scenarios')
    f, occurrence = HARD[idx % len(HARD)]
    occurrence += (idx // len(HARD)) * 13
    ctx.count('scenario:' + f.__name__)
    if f is hard_near_symmetric:
        f(ctx, rng, mask, k=occurrence * len(MASKS) + MASKS.index(mask))
    else:
        f(ctx, rng, mask)


# ------------------------------------------------------------------------------------------
FUNC_CELLS = [(f, s, n) for f in FUNCS for s in ('np', 'method') for n in (1, 2)]


def plan(tier):
    """kinds are split by the kind of undefined set so that all kinds have similar length: the runner interleaves kinds
    round-robin, and a time budget that bites cuts the tail of the longest kinds only"""
    m = 1 if tier == 'quick' else 12
    p = []
    for mask in MASKS:
        # every index map / function / scenario meets its oracle >= ~50 times per quick run (checklist 13; counters judged:<method>)
        for k in range(3):
            p.append(('index%d:%s' % (k, mask), len(INDEX_KINDS) * (5 if k == 0 else 4) * m))
        for k in range(4):
            p.append(('func%d:%s' % (k, mask), len(FUNC_CELLS) * m))
        p += [('binop:' + mask, len(REQUIRED_CELLS) * m), ('matmul:' + mask, 39 * m), ('hard:' + mask, len(HARD) * m), ('pow:' + mask, 16 * m)]
    p += [('binop_open', len(OPEN_CELLS) * m), ('history', 100 * m), ('misc', 52 * m), ('gevp', 26 * m)]
    return p


def run_case(ctx, kind, idx, rng):
    kind, _, mask = kind.partition(':')
    if kind[:-1] in ('index', 'func') and kind[-1].isdigit():
        # sub-kinds of equal length (see plan): the index of the case continues over the sub-kinds
        k = int(kind[-1])
        kind = kind[:-1]
        idx = idx + k * (len(INDEX_KINDS) * 5 if kind == 'index' else len(FUNC_CELLS)) * (1 if ctx.tier == 'quick' else 12)
        if kind == 'func':
            mask = MASKS[(MASKS.index(mask) + k) % 4]
    if kind == 'binop':
        do_binop(ctx, rng, REQUIRED_CELLS[idx % len(REQUIRED_CELLS)], mask, True)
    elif kind == 'pow':
        # powers of correlators with timeslices of both signs and non-integer exponents: NaN results must become undefined slices
        cells = [c for c in REQUIRED_CELLS if c[1] == '**']
        do_binop(ctx, rng, cells[idx % len(cells)], mask, True, force_prof='alternating')
    elif kind == 'binop_open':
        do_binop(ctx, rng, OPEN_CELLS[idx % len(OPEN_CELLS)], str(rng.choice(MASKS)), False)
    elif kind == 'func':
        f, s, n = FUNC_CELLS[idx % len(FUNC_CELLS)]
        do_func(ctx, rng, f, s, 1 if n == 1 else int(rng.integers(2, 4)), mask)
    elif kind == 'index':
        do_index(ctx, rng, INDEX_KINDS[idx % len(INDEX_KINDS)], mask)
    elif kind == 'matmul':
        do_matmul(ctx, rng, ['corr', 'right-array', 'left-array'][idx % 3], mask)
    elif kind == 'history':
        do_history(ctx, rng)
    elif kind == 'hard':
        do_hard(ctx, rng, idx, mask)
    elif kind == 'misc':
        do_misc(ctx, rng, idx)
    elif kind == 'gevp':
        do_gevp(ctx, rng)
    else:
        raise ValueError(kind)
