"""C14 - correlator arithmetic acts timeslice-wise, index maps are the stated permutations / averages,
and no method mutates its operands or arguments.

Monitors
  (a) mutation monitor: a tap on every public Corr method and operator (reflected operators, __repr__ /
      print, projected, the constructor ...) digests self and every argument before and after the call,
      in every workload; any change is flagged as  mutation:<method>:<self|argK|kw:name>.
  (b) timeslice oracle: ref.corr applies the same operation entry by entry with the scalar overloads
      (judged by C01) and predicts values, fluctuations and the pattern of undefined timeslices
      (undefined exactly where an operand is undefined or the scalar result is NaN); T and N preserved.
  (c) index maps compared with the explicit index formulas of ref.corr.
Every call is made twice with the same argument objects; the two results must be bit-identical.
"""
import copy
import hashlib
import inspect
import struct
import math
import operator
import os
import tempfile
import traceback

import numpy as np

from .. import taps, gen
from ..ctx import digest
from ..snap import snap, is_obs, is_cobs, is_corr
from ..ref import corr as refc

ID = 'C14'
LEVEL = 'exploration'
DECIDING = ['mutation_calls_checked', 'timeslices_judged', 'entries_compared', 'index_map_calls', 'repeat_calls_compared',
            'tap:Corr.__add__', 'tap:Corr.__rtruediv__', 'tap:Corr.projected', 'tap:Corr.__repr__', 'tap:Corr.roll']
RULE = ('cases: correlators with T=2..16 (matrix content: mostly T<=8, 15% up to 16), N=1..3, real (Obs) or complex (CObs) content on 1-2 replicas with strided / gapped '
        'configuration lists, undefined timeslices of kind none / padding (constructor argument) / one interior / random set; '
        '(binop) every required cell of {+,-,*,/,**} x partner type {Corr, complex Corr, Obs, CObs, int, float, numpy float, complex} x '
        'operand order x content kind, each cell visited with each kind of undefined set, plus the cells the property leaves open '
        '(clean rejections are counted, results are judged); (func) 15 elementary functions + abs + neg, numpy style and method style, '
        'arguments inside and outside the domain; (index) roll, reverse, thin, symmetric, anti_symmetric, T_symmetry, item, projected '
        '(default / ndarray / list vectors, normalize on/off), trace, matrix_symmetric, Hankel (periodic on/off) with all shift / spacing / '
        'offset / parity arguments; (matmul); (history) sequences of 6-10 operations over a pool; (misc, gevp) remaining public methods for '
        'the mutation monitor. Every call is repeated with the same argument objects. Non-trivial: at least one defined timeslice was '
        'compared in value and fluctuations and (an operand has an undefined timeslice or the operation is not the identity). '
        'distinct = digest of (operation label, arguments, operand data).')
ASSUMPTIONS = ['scalar overloads of Obs / CObs used by the reference on single entries are judged by C01',
               'tolerance 1e-10 * scale (scale = magnitude of result and operands) on values, fluctuations, replica means',
               'a result that would be undefined on every timeslice may raise instead (a completely undefined correlator cannot be constructed)',
               'cells outside the stated subset (CObs as left operand, ** with a correlator exponent, division by complex numbers / complex '
               'correlators, numpy integers, ndarray partners) may be rejected with TypeError / ValueError / AttributeError: counted, not judged',
               'set_prange (a setter) and private helpers are not tapped; real / imag are properties and are checked by the workload directly',
               'central values are generated away from 0 and from the singular points of the functions']
BUDGET = {'quick': 45, 'thorough': 540}

RTOL = 1e-10
PE = None
CTX = None

OPS = {'+': operator.add, '-': operator.sub, '*': operator.mul, '/': operator.truediv, '**': operator.pow}
DUNDER = {('+', 'L'): '__add__', ('+', 'R'): '__radd__', ('-', 'L'): '__sub__', ('-', 'R'): '__rsub__',
          ('*', 'L'): '__mul__', ('*', 'R'): '__rmul__', ('/', 'L'): '__truediv__', ('/', 'R'): '__rtruediv__',
          ('**', 'L'): '__pow__', ('**', 'R'): '__rpow__'}
MASKS = ['none', 'padding', 'interior', 'many']

# function -> (inside domain lo, hi), list of outside intervals (empty: total function)
FUNCS = {
    'sin': ((-3.0, 3.0), []), 'cos': ((-3.0, 3.0), []), 'tan': ((-1.2, 1.2), []),
    'sinh': ((-2.0, 2.0), []), 'cosh': ((-2.0, 2.0), []), 'tanh': ((-2.0, 2.0), []),
    'arcsin': ((-0.9, 0.9), [(-3.0, -1.1), (1.1, 3.0)]), 'arccos': ((-0.9, 0.9), [(-3.0, -1.1), (1.1, 3.0)]),
    'arctan': ((-4.0, 4.0), []), 'arcsinh': ((-4.0, 4.0), []),
    'arccosh': ((1.2, 6.0), [(-3.0, 0.9)]), 'arctanh': ((-0.9, 0.9), [(-3.0, -1.1), (1.1, 3.0)]),
    'exp': ((-2.0, 2.0), []), 'log': ((0.2, 6.0), [(-4.0, -0.2)]), 'sqrt': ((0.2, 6.0), [(-4.0, -0.2)]),
    'abs': ((-3.0, 3.0), []), 'neg': ((-3.0, 3.0), []),
}


# ------------------------------------------------------------------------------------------
# deep digest of an argument (same coverage as vmon.snap.any_digest - value, names, configuration lists, fluctuation
# bytes, replica means, shapes, covariance inputs, flags, container structure - but one hash object per call: the
# mutation monitor digests every argument of every tapped call twice)
def _feed(h, x, depth=0):
    if depth > 6:
        h.update(b'deep')
        return
    if x is None:
        h.update(b'-')
    elif is_obs(x):
        h.update(b'O')
        try:
            h.update(struct.pack('d', x.value))
        except (struct.error, TypeError):
            h.update(repr(x.value).encode())
        cov = x.covobs
        for n in x.names:
            h.update(n.encode())
            h.update(b'|')
            if n in cov:
                h.update(np.ascontiguousarray(cov[n].cov, dtype=float).tobytes())
                h.update(np.ascontiguousarray(cov[n].grad, dtype=float).tobytes())
            else:
                idl = x.idl[n]
                if isinstance(idl, range):
                    h.update(b'r%d,%d,%d' % (idl.start, idl.stop, idl.step))
                else:
                    h.update(b'l')
                    h.update(np.asarray(idl, dtype=np.int64).tobytes())
                h.update(np.ascontiguousarray(x.deltas[n], dtype=float).tobytes())
                h.update(struct.pack('dq', x.r_values[n], x.shape[n]))
        h.update(b'N%d' % x.N)
        rw = x.reweighted
        h.update(b'T' if rw is True or rw is np.True_ else (b'F' if rw is False or rw is np.False_ else repr(rw).encode()))
    elif is_cobs(x):
        h.update(b'C')
        _feed(h, x.real, depth + 1)
        _feed(h, x.imag, depth + 1)
    elif is_corr(x):
        h.update(b'K%d,%d' % (x.T, x.N))
        h.update(repr(x.prange).encode())
        h.update(repr(x.tag).encode())
        for c in x.content:
            _feed(h, c, depth + 1)
    elif isinstance(x, np.ndarray):
        h.update(('A' + str(x.shape) + str(x.dtype)).encode())
        if x.dtype == object:
            for i in x.ravel():
                _feed(h, i, depth + 1)
        else:
            h.update(np.ascontiguousarray(x).tobytes())
    elif isinstance(x, (list, tuple)):
        h.update(b'L%d' % len(x) if isinstance(x, list) else b'U%d' % len(x))
        for i in x:
            _feed(h, i, depth + 1)
    elif isinstance(x, dict):
        h.update(b'D%d' % len(x))
        for k, v in x.items():
            h.update(repr(k).encode())
            _feed(h, v, depth + 1)
    elif isinstance(x, range):
        h.update(b'r%d,%d,%d' % (x.start, x.stop, x.step))
    else:
        h.update(b'v')
        h.update(repr(x).encode())
    h.update(b';')


def any_digest(x):
    h = hashlib.blake2b(digest_size=12)
    _feed(h, x)
    return h.hexdigest()


# ------------------------------------------------------------------------------------------
# (a) mutation monitor
class MutationMonitor(taps.Monitor):
    def __init__(self, name, func):
        self.name = name
        self.skip_self = (name == '__init__')
        try:
            self.params = [p for p in inspect.signature(func).parameters.values()][1:]
        except (TypeError, ValueError):
            self.params = []
        self.pos = {p.name: i for i, p in enumerate(self.params)
                    if p.kind in (p.POSITIONAL_ONLY, p.POSITIONAL_OR_KEYWORD, p.KEYWORD_ONLY)}

    def _items(self, args, kwargs):
        out = []
        if not self.skip_self:
            out.append(('self', args[0]))
        for i, a in enumerate(args[1:]):
            out.append(('arg%d' % i, a))
        for k in sorted(kwargs):
            out.append(('arg%d' % self.pos[k] if k in self.pos else 'kw:' + k, kwargs[k]))
        return out

    def before(self, args, kwargs):
        return [any_digest(o) for _, o in self._items(args, kwargs)]

    def after(self, token, args, kwargs, result, exc):
        ctx = CTX
        ctx.count('mutation_calls_checked')
        if token is None:
            ctx.count('mutation_calls_not_digested')
            return
        for (lab, o), d0 in zip(self._items(args, kwargs), token):
            ctx.ev()
            if any_digest(o) != d0:
                ctx.violation('mutation:%s:%s' % (self.name, lab),
                              {'method': self.name, 'which': lab, 'type': type(o).__name__, 'after': repr(o)[:300],
                               'raised': None if exc is None else type(exc).__name__})


NOT_TAPPED = {'set_prange'}


def setup(ctx):
    global PE, CTX
    import pyerrors as pe
    import matplotlib
    matplotlib.use('Agg')
    PE = pe
    CTX = ctx
    seen = set()
    for name, f in list(vars(pe.Corr).items()):
        if not inspect.isfunction(f) or name in NOT_TAPPED or id(f) in seen:
            continue
        if name.startswith('_') and not (name.startswith('__') and name.endswith('__')):
            continue         # private helpers (e.g. _nan_to_none works in place on a list owned by its caller)
        seen.add(id(f))      # gm is an alias of gamma_method: one tap, both names re-bound
        taps.tap_method(pe.Corr, name, MutationMonitor(name, f))
    ctx.count('tapped_methods', len(seen))


def teardown(ctx):
    taps.report(ctx)
    taps.remove_all()


# ------------------------------------------------------------------------------------------
# scalars: kinds, NaN test, magnitudes, comparison through snapshots
def kind_of(x):
    if is_obs(x):
        return 'obs'
    if is_cobs(x):
        return 'cobs'
    if isinstance(x, (bool, np.bool_)):
        return 'other'
    if isinstance(x, (int, float, complex, np.number)):
        return 'num'
    return 'other'


def isnan_scalar(x):
    k = kind_of(x)
    if k == 'obs':
        return bool(np.isnan(x.value))
    if k == 'cobs':
        return isnan_scalar(x.real) or isnan_scalar(x.imag)
    if k == 'num':
        return bool(np.isnan(x))
    return False


def magnitude(x):
    """(|value|, max |fluctuation|) of a scalar, NaN / inf ignored"""
    k = kind_of(x)
    if k == 'obs':
        v = abs(x.value)
        d = 0.0
        for n, dl in x.deltas.items():
            if len(dl):
                m = float(np.max(np.abs(dl)))
                if math.isfinite(m):
                    d = max(d, m)
        return (v if math.isfinite(v) else 0.0), d
    if k == 'cobs':
        a, b = magnitude(x.real), magnitude(x.imag)
        return max(a[0], b[0]), max(a[1], b[1])
    if k == 'num':
        v = abs(x)
        return (float(v) if math.isfinite(v) else 0.0), 0.0
    return 0.0, 0.0


def mag_model(A):
    out = []
    for m in A:
        v = d = 0.0
        if m is not None:
            for row in m:
                for x in row:
                    a, b = magnitude(x)
                    v, d = max(v, a), max(d, b)
        out.append((v, d))
    return out


def hint_global(*models_or_scalars):
    v = d = 0.0
    for M in models_or_scalars:
        if isinstance(M, list):
            for a, b in mag_model(M):
                v, d = max(v, a), max(d, b)
        else:
            a, b = magnitude(M)
            v, d = max(v, a), max(d, b)
    return v, d


def same_scalar(ctx, got, exp, mech, what='', vs=0.0, ds=0.0, rv=True, rtol=RTOL):
    """identity between scalars (observables compared through value, every fluctuation, configuration lists,
    replica means, covariance gradients, reweighting flag)"""
    kg, ke = kind_of(got), kind_of(exp)
    if kg != ke or kg == 'other':
        ctx.ev()
        ctx.violation(mech + ':type', {'what': what, 'got': type(got).__name__, 'exp': type(exp).__name__})
        return False
    if kg == 'num':
        g, e = complex(got), complex(exp)
        return ctx.close([g.real, g.imag], [e.real, e.imag], mech + ':value', what, rtol=rtol,
                         scale=max(abs(g), abs(e), vs), atol=1e-300)
    if kg == 'cobs':
        a = same_scalar(ctx, got.real, exp.real, mech, what + ' real part', vs, ds, rv, rtol)
        b = same_scalar(ctx, got.imag, exp.imag, mech, what + ' imaginary part', vs, ds, rv, rtol)
        return a and b
    g, e = snap(got), snap(exp)
    ctx.count('entries_compared')
    vsc = max(abs(g['value']), abs(e['value']), vs)
    ok = ctx.close(g['value'], e['value'], mech + ':value', what, rtol=rtol, scale=vsc, atol=1e-300)
    if sorted(g['chains']) != sorted(e['chains']):
        ctx.ev()
        ctx.violation(mech + ':chain-names', {'what': what, 'got': sorted(g['chains']), 'exp': sorted(e['chains'])})
        return False
    for c in sorted(e['chains']):
        gi, gd, gr = g['chains'][c]
        ei, ed, er = e['chains'][c]
        if [int(i) for i in gi] != [int(i) for i in ei]:
            ctx.ev()
            ctx.violation(mech + ':configuration-list', {'what': what, 'chain': c, 'got': gi, 'exp': ei})
            ok = False
            continue
        sc = max(float(np.max(np.abs(gd))) if len(gd) else 0.0, float(np.max(np.abs(ed))) if len(ed) else 0.0, ds)
        ok &= ctx.close(gd, ed, mech + ':fluctuations', what + ' chain ' + c, rtol=rtol, scale=sc, atol=1e-300)
        if rv:
            ok &= ctx.close(gr, er, mech + ':replica-mean', what + ' chain ' + c, rtol=rtol, scale=max(abs(gr), abs(er), vsc), atol=1e-300)
    gc = {n: v for n, v in g['cov'].items() if np.any(v[1] != 0)}
    ec = {n: v for n, v in e['cov'].items() if np.any(v[1] != 0)}
    if sorted(gc) != sorted(ec):
        ctx.ev()
        ctx.violation(mech + ':covariance-names', {'what': what, 'got': sorted(gc), 'exp': sorted(ec)})
        return False
    for n in sorted(ec):
        sc = max(float(np.max(np.abs(gc[n][1]))), float(np.max(np.abs(ec[n][1]))))
        ok &= ctx.close(gc[n][1], ec[n][1], mech + ':covariance-gradient', what + ' cov ' + n, rtol=rtol, scale=sc, atol=1e-300)
    ok &= ctx.equal(bool(g['rew']), bool(e['rew']), mech + ':reweighted-flag', what)
    return bool(ok)


# ------------------------------------------------------------------------------------------
# library correlator -> reference model
def to_model(corr):
    out = []
    for e in corr.content:
        if e is None:
            out.append(None)
            continue
        a = np.asarray(e, dtype=object)
        if a.ndim == 0:
            out.append([[a.item()]])
        elif a.ndim == 1:
            out.append([[x] for x in a] if a.shape[0] != 1 else [[a[0]]])
        else:
            out.append([[a[i, j] for j in range(a.shape[1])] for i in range(a.shape[0])])
    return out


def all_undefined(M):
    return all(m is None for m in M)


def has_undefined(*Ms):
    return any(m is None for M in Ms for m in M)


def judge_corr(ctx, got, exp, label, plabel=None, hint=(0.0, 0.0), hints=None, rv=True, identical_to=None):
    """compare a library result with the reference model exp.  Tags:
         result-type:<label>, shape:<plabel>:T|N|entry,
         pattern:<plabel>:nan-entry-kept | defined-where-expected-undefined | undefined-where-expected-defined,
         value:<label>:<field>
    returns the number of defined timeslices compared."""
    plabel = plabel or label
    ctx.ev()
    if not is_corr(got):
        ctx.violation('result-type:' + label, {'got': type(got).__name__})
        return 0
    T = len(exp)
    if not ctx.equal(got.T, T, 'shape:%s:T' % plabel, label) or len(got.content) != T:
        return 0
    _, N = refc.dims(exp)
    if N is not None and not all_undefined(to_model(got)):
        ctx.equal(got.N, N, 'shape:%s:N' % plabel, label)
    gm = to_model(got)
    compared = 0
    ctx.count('timeslices_judged', T)
    for t in range(T):
        e, g = exp[t], gm[t]
        ctx.ev()
        if e is None and g is None:
            continue
        if e is None:
            nanv = any(isnan_scalar(x) for row in g for x in row)
            ctx.violation('pattern:%s:%s' % (plabel, 'nan-entry-kept' if nanv else 'defined-where-expected-undefined'),
                          {'call': label, 't': t, 'T': T, 'got_pattern': refc.pattern(gm), 'exp_pattern': refc.pattern(exp)})
            continue
        if g is None:
            ctx.violation('pattern:%s:undefined-where-expected-defined' % plabel,
                          {'call': label, 't': t, 'T': T, 'got_pattern': refc.pattern(gm), 'exp_pattern': refc.pattern(exp)})
            continue
        if len(g) != len(e) or any(len(r) != len(e) for r in g):
            ctx.violation('shape:%s:entry' % plabel, {'call': label, 't': t, 'got': [len(g)] + [len(r) for r in g], 'exp': len(e)})
            continue
        vs, ds = hints[t] if hints is not None else hint
        for i in range(len(e)):
            for j in range(len(e)):
                same_scalar(ctx, g[i][j], e[i][j], 'value:' + label, 't=%d [%d,%d] of T=%d' % (t, i, j, T), vs, ds, rv)
        compared += 1
    return compared


def hints_per_t(*models_or_scalars):
    T = max(len(M) for M in models_or_scalars if isinstance(M, list))
    out = [(0.0, 0.0)] * T
    for M in models_or_scalars:
        mm = mag_model(M) if isinstance(M, list) else [magnitude(M)] * T
        out = [(max(a[0], b[0]), max(a[1], b[1])) for a, b in zip(out, mm)]
    return out


# ------------------------------------------------------------------------------------------
# generators
class Layout:
    def __init__(self, rng, ens=None, nmin=8, nmax=12, other_than=None):
        self.ens = ens or str(rng.choice([e for e in gen.ENS_POOL if e != other_than]))
        reps = gen.rand_reps(rng, 2)
        self.names = ['%s|%s' % (self.ens, r) for r in reps]
        self.idls = []
        step = int(rng.choice([1, 1, 2, 3]))      # common spacing of all replicas of the ensemble (needed by gamma_method)
        for _ in reps:
            n = int(rng.integers(nmin, nmax + 1))
            kind = str(rng.choice(['strided', 'strided', 'gapped']))
            self.idls.append(gen.rand_idl(rng, n, kind, step=step, as_type=str(rng.choice(['list', 'native']))))
        self.common = [rng.normal(size=len(i)) for i in self.idls]

    def obs(self, rng, mean, rel=0.03):
        sigma = rel * abs(mean) + 1e-3
        samples = [mean + sigma * (0.6 * c + 0.8 * rng.normal(size=len(c))) for c in self.common]
        return PE.Obs(samples, self.names, idl=[copy.copy(i) for i in self.idls])


def profile(rng, T, kind):
    """T central values, none closer to zero than 0.05"""
    t = np.arange(T)
    if kind == 'decay':
        v = rng.uniform(0.5, 3.0) * np.exp(-rng.uniform(0.05, 0.4) * t) + rng.uniform(0.05, 0.3)
    elif kind == 'changing':
        v = rng.uniform(0.5, 3.0) * np.cos(rng.uniform(0.5, 1.3) * t + rng.uniform(0, 6.28)) * np.exp(-0.05 * t)
    else:
        v = rng.uniform(0.3, 3.0, size=T) * rng.choice([-1.0, 1.0], size=T)
    v = np.where(np.abs(v) < 0.05, np.where(v < 0, -0.06, 0.06), v)
    return [float(x) for x in v]


def values_for(rng, T, fname):
    (lo, hi), outside = FUNCS[fname]
    vals = []
    for _ in range(T):
        if outside and rng.random() < 0.3:
            a, b = outside[int(rng.integers(0, len(outside)))]
        else:
            a, b = lo, hi
        v = float(rng.uniform(a, b))
        if abs(v) < 0.05:
            v = 0.07 if v >= 0 else -0.07
        vals.append(v)
    return vals


def none_mask(rng, T, kind):
    """(defined flags, padding) ; padding != None: build with the constructor's padding argument"""
    if kind == 'none' or T < 2:
        return [True] * T, None
    if kind == 'padding':
        tot = int(rng.integers(1, T))
        p0 = int(rng.integers(0, tot + 1))
        p1 = tot - p0
        return [p0 <= t < T - p1 for t in range(T)], [p0, p1]
    if kind == 'interior':
        t0 = int(rng.integers(1, T - 1)) if T >= 3 else int(rng.integers(0, T))
        return [t != t0 for t in range(T)], None
    m = [bool(rng.random() > 0.4) for _ in range(T)]
    if not any(m):
        m[int(rng.integers(0, T))] = True
    if all(m):
        m[int(rng.integers(0, T))] = False
    return m, None


def make_corr(ctx, rng, T, N=1, content='real', mask='none', layout=None, values=None, prof=None, symmetric=False,
              via=None):
    """library correlator with the requested shape; the constructor result is compared with what was handed in."""
    layout = layout or Layout(rng)
    values = values if values is not None else profile(rng, T, prof or str(rng.choice(['decay', 'changing', 'mixed'])))
    defined, padding = none_mask(rng, T, mask)

    def scalar(v):
        if content == 'complex':
            return PE.CObs(layout.obs(rng, v), layout.obs(rng, 0.4 * v + 0.1))
        return layout.obs(rng, v)
    entries = []
    for t in range(T):
        if not defined[t]:
            entries.append(None)
        elif N == 1:
            entries.append(scalar(values[t]))
        else:
            fac = rng.uniform(0.3, 1.5, size=(N, N)) * rng.choice([1.0, 1.0, -1.0], size=(N, N))
            a = np.empty((N, N), dtype=object)
            for i in range(N):
                for j in range(N):
                    if symmetric and j < i:
                        a[i, j] = a[j, i]
                    else:
                        a[i, j] = scalar(values[t] * fac[i, j])
            entries.append(a)
    via = via or str(rng.choice(['list', 'array'] if (N == 1 and all(defined)) else ['list']))
    if padding is not None:
        body = entries[padding[0]:T - padding[1]]
        c = PE.Corr(list(body), padding=list(padding))
    elif via == 'array':
        c = PE.Corr(np.array(entries, dtype=object))
    else:
        c = PE.Corr(list(entries))
    # constructor check: T, N, entries are the objects handed in
    ctx.ev()
    m = to_model(c)
    ok = (c.T == T and c.N == N and len(m) == T)
    if ok:
        for t in range(T):
            if (entries[t] is None) != (m[t] is None):
                ok = False
            elif entries[t] is not None:
                src = [[entries[t]]] if N == 1 else [[entries[t][i, j] for j in range(N)] for i in range(N)]
                ok &= all(m[t][i][j] is src[i][j] for i in range(N) for j in range(N))
    if not ok:
        ctx.violation('constructor:content', {'T': T, 'N': N, 'mask': mask, 'got_T': c.T, 'got_N': c.N, 'pattern': refc.pattern(m)})
    return c


def make_scalar_partner(rng, ptype, layout, positive=False, nonzero=True):
    lo = 0.3
    sign = 1.0 if positive else float(rng.choice([-1.0, 1.0]))
    v = sign * float(rng.uniform(lo, 3.0))
    lay = layout if rng.random() < 0.5 else Layout(rng)
    if ptype == 'Obs':
        return lay.obs(rng, v)
    if ptype == 'CObs':
        return PE.CObs(lay.obs(rng, v), lay.obs(rng, float(rng.uniform(0.3, 2.0))))
    if ptype == 'int':
        return int(rng.choice([1, 2, 3, 5])) * (1 if positive else int(rng.choice([-1, 1])))
    if ptype == 'float':
        return v
    if ptype == 'npfloat':
        return np.float64(v)
    if ptype == 'npint':
        return np.int64(int(rng.choice([1, 2, 3])))
    if ptype == 'complex':
        return complex(v, float(rng.uniform(0.3, 2.0)))
    raise ValueError(ptype)


def type_label(x):
    if is_corr(x):
        for e in x.content:
            if e is not None:
                return 'CorrC' if is_cobs(np.asarray(e, dtype=object).ravel()[0]) else 'Corr'
        return 'Corr'
    if is_obs(x):
        return 'Obs'
    if is_cobs(x):
        return 'CObs'
    if isinstance(x, np.ndarray):
        return 'ndarray'
    if isinstance(x, np.floating):
        return 'npfloat'
    if isinstance(x, np.integer):
        return 'npint'
    return type(x).__name__


# ------------------------------------------------------------------------------------------
# running a call twice, handling exceptions
CLEAN_REJECTIONS = (TypeError, ValueError, AttributeError, NotImplementedError)


def run_twice(ctx, fn, args_for_digest, label, repeat=True):
    """call fn() twice with the same argument objects; returns (result, exception).  The second result must be
    bit-identical to the first (judged only when the arguments were left unchanged - a changed argument is reported
    by the mutation monitor and is the cause of any difference)."""
    d0 = [any_digest(a) for a in args_for_digest]
    try:
        r1 = fn()
    except Exception as e:
        return None, e
    unchanged = [any_digest(a) for a in args_for_digest] == d0
    if not repeat:
        return r1, None
    try:
        r2 = fn()
    except Exception as e:
        ctx.ev()
        if unchanged:
            ctx.violation('repeat:%s:second-call-raises' % label, {'exception': repr(e)[:300]})
        return r1, None
    if unchanged:
        ctx.count('repeat_calls_compared')
        ctx.ev()
        if any_digest(r1) != any_digest(r2):
            ctx.violation('repeat:%s:result-differs' % label, {'first': repr(r1)[:200], 'second': repr(r2)[:200]})
    else:
        ctx.count('repeat_skipped_argument_changed')
    return r1, None


def report_raise(ctx, exc, plabel, label, exp, required, context):
    if exp is not None and all_undefined(exp):
        ctx.count('all_undefined_result_raised')
        return
    if not required and isinstance(exc, CLEAN_REJECTIONS):
        ctx.count('open_cell_rejected')
        ctx.cell('rejected', label, type(exc).__name__)
        return
    ctx.ev()
    ctx.violation('raise:%s:%s:%s' % (plabel, type(exc).__name__, context),
                  {'call': label, 'message': str(exc)[:300],
                   'traceback': ''.join(traceback.format_exception(type(exc), exc, exc.__traceback__))[-900:]})


def context_of(*Ms):
    return 'undefined-slice' if has_undefined(*Ms) else 'operands-defined'


def mark_nontrivial(ctx, compared, nonidentity, label, *objs):
    if compared > 0 and nonidentity:
        ctx.nontrivial.add(digest(label, [any_digest(o) for o in objs]))


# ------------------------------------------------------------------------------------------
# binop cells
def _cells():
    req, opt = [], []
    numbers = ['int', 'float', 'npfloat']
    for content in ('R1', 'RN', 'C1', 'CN'):
        cplx = content[0] == 'C'
        for op in OPS:
            for partner in ('Corr', 'CorrC', 'Obs', 'CObs', 'int', 'float', 'npfloat', 'complex', 'npint', 'ndarray'):
                for order in ('L', 'R'):
                    cell = (content, op, partner, order)
                    need = False
                    if partner in ('npint', 'ndarray'):
                        need = False
                    elif op in ('+', '-', '*'):
                        if not cplx:
                            need = partner != 'CObs' or order == 'L'
                        elif order == 'L':
                            need = True
                        else:
                            need = partner in ['Corr', 'CorrC', 'Obs'] + numbers
                    elif op == '/':
                        if not cplx:
                            need = partner in ['Corr', 'Obs'] + numbers or (partner == 'CObs' and order == 'L')
                        else:
                            need = order == 'L' and partner in ['Obs'] + numbers
                    else:
                        need = (not cplx) and order == 'L' and partner in ['Obs'] + numbers
                    (req if need else opt).append(cell)
    return req, opt


REQUIRED_CELLS, OPEN_CELLS = _cells()


def do_binop(ctx, rng, cell, mask, required):
    content, op, partner, order = cell
    N = 1 if content[1] == '1' else int(rng.integers(2, 4))
    T = int(rng.integers(2, 17)) if (N == 1 or rng.random() < 0.15) else int(rng.integers(2, 9))
    cplx = content[0] == 'C'
    lay = Layout(rng)
    prof = str(rng.choice(['decay', 'changing', 'mixed']))
    if op == '**' and rng.random() < 0.6:
        prof = 'decay'
    A = make_corr(ctx, rng, T, N, 'complex' if cplx else 'real', mask, lay, prof=prof)
    if partner in ('Corr', 'CorrC'):
        if op in ('+', '-'):
            Np = N
        else:
            Np = N if rng.random() < 0.6 else 1
        y = make_corr(ctx, rng, T, Np, 'complex' if partner == 'CorrC' else 'real', str(rng.choice(MASKS)),
                      lay if rng.random() < 0.6 else Layout(rng))
    elif partner == 'ndarray':
        y = rng.uniform(0.5, 2.0, size=T) * rng.choice([-1.0, 1.0], size=T)
    elif op == '**' and order == 'L':
        if partner in ('int', 'npint'):
            y = int(rng.choice([2, 3, -1, -2, 1, 0]))
            y = np.int64(y) if partner == 'npint' else y
        elif partner in ('float', 'npfloat'):
            y = float(rng.choice([0.5, 1.5, -0.5, 2.0, 2.5]))
            y = np.float64(y) if partner == 'npfloat' else y
        else:
            y = make_scalar_partner(rng, partner, lay)
    else:
        y = make_scalar_partner(rng, partner, lay)
    left, right = (A, y) if order == 'L' else (y, A)
    label = '%s(%s,%s)' % (op, type_label(left), type_label(right))
    plabel = DUNDER[(op, 'L')] if is_corr(left) else DUNDER[(op, 'R')]
    ctx.cell('binop', label, 'N=1' if N == 1 else 'N>1', mask, 'required' if required else 'open')
    MA = to_model(A)
    f = OPS[op]
    exp = None
    try:
        if is_corr(y):
            MY = to_model(y)
            exp = refc.binary(f, MA, MY, isnan_scalar) if order == 'L' else refc.binary(f, MY, MA, isnan_scalar)
            hints = hints_per_t(MA, MY)
            operands = (MA, MY)
        elif isinstance(y, np.ndarray):
            exp = refc.binary_per_slice(f, MA, [float(v) for v in y], numbers_left=(order == 'R'), isnan=isnan_scalar)
            hints = hints_per_t(MA)
            operands = (MA,)
        else:
            exp = refc.binary_scalar(f, MA, y, scalar_left=(order == 'R'), isnan=isnan_scalar)
            hints = hints_per_t(MA, y)
            operands = (MA,)
    except CLEAN_REJECTIONS:
        if required:
            raise
        exp = None      # the scalar overloads themselves do not offer this combination
        hints = None
        operands = (MA,)
    res, exc = run_twice(ctx, lambda: f(left, right), [left, right], label, repeat=(N == 1 or rng.random() < 0.4))
    if exc is not None:
        if exp is None:
            ctx.count('open_cell_rejected')
            ctx.cell('rejected', label, type(exc).__name__)
        else:
            report_raise(ctx, exc, plabel, label, exp, required, context_of(*operands))
        return
    if exp is None or (not required and not is_corr(res)):
        ctx.count('open_cell_result_not_judged')
        ctx.cell('not-judged', label, type(res).__name__)
        return
    n = judge_corr(ctx, res, exp, label, plabel, hints=hints)
    mark_nontrivial(ctx, n, True, label, left, right)
    if ctx.cases_run < 3:
        ctx.sample({'call': label, 'T': T, 'N': N, 'operand_pattern': refc.pattern(MA), 'result_pattern': refc.pattern(exp)})


# ------------------------------------------------------------------------------------------
def do_func(ctx, rng, fname, style, N, mask):
    T = int(rng.integers(2, 17)) if (N == 1 or rng.random() < 0.15) else int(rng.integers(2, 9))
    lay = Layout(rng)
    A = make_corr(ctx, rng, T, N, 'real', mask, lay, values=values_for(rng, T, fname))
    MA = to_model(A)
    if fname == 'abs':
        sf = abs
        call = {'np': lambda: np.abs(A), 'method': lambda: abs(A)}[style]
    elif fname == 'neg':
        sf = operator.neg
        call = lambda: -A
    else:
        sf = getattr(np, fname)
        call = {'np': lambda: sf(A), 'method': lambda: getattr(A, fname)()}[style]
    label = fname
    ctx.cell('func', fname, style, 'N=1' if N == 1 else 'N>1', mask)
    exp = refc.unary(sf, MA, isnan_scalar)
    res, exc = run_twice(ctx, call, [A], label)
    if exc is not None:
        report_raise(ctx, exc, label, label, exp, True, context_of(MA))
        return
    n = judge_corr(ctx, res, exp, label, hints=hints_per_t(MA))
    mark_nontrivial(ctx, n, True, label, A)


# ------------------------------------------------------------------------------------------
INDEX_KINDS = ['roll', 'reverse', 'thin', 'symmetric', 'anti_symmetric', 'T_symmetry', 'item', 'projected:default',
               'projected:array', 'projected:array2', 'projected:list', 'projected:list+array', 'projected:list-with-none',
               'trace', 'matrix_symmetric:nonsym', 'matrix_symmetric:sym', 'Hankel:open', 'Hankel:periodic', 'getitem',
               'is_matrix_symmetric', 'construct:array-of-corrs', 'construct:3d-array']


def do_construct(ctx, rng, kind, mask):
    """matrix correlators built from a 2-d array of single-valued correlators / from a (T, N, N) array of observables"""
    T = int(rng.integers(2, 17))
    N = int(rng.integers(1, 4))
    lay = Layout(rng)
    ctx.cell('index', kind, mask)
    ctx.count('index_map_calls')
    if kind.endswith('array-of-corrs'):
        comps = [[make_corr(ctx, rng, T, 1, 'real', mask if (i, j) == (0, 0) else str(rng.choice(['none', 'none', mask])), lay)
                  for j in range(N)] for i in range(N)]
        arr = np.empty((N, N), dtype=object)
        for i in range(N):
            for j in range(N):
                arr[i, j] = comps[i][j]
        exp = refc.assemble([[refc.flat(to_model(comps[i][j])) for j in range(N)] for i in range(N)])
        label = 'Corr(array of Corr)'
        args = [arr]
    else:
        arr = np.empty((T, N, N), dtype=object)
        vals = profile(rng, T, 'mixed')
        for t in range(T):
            for i in range(N):
                for j in range(N):
                    arr[t, i, j] = lay.obs(rng, vals[t] * float(rng.uniform(0.5, 1.5)))
        exp = [[[arr[t, i, j] for j in range(N)] for i in range(N)] for t in range(T)]
        label = 'Corr(3-d array)'
        args = [arr]
    res, exc = run_twice(ctx, lambda: PE.Corr(arr), args, label)
    if exc is not None:
        report_raise(ctx, exc, '__init__', label, exp, True, context_of(exp))
        return
    n = judge_corr(ctx, res, exp, label, '__init__')
    mark_nontrivial(ctx, n, N > 1, label, arr)


def do_index(ctx, rng, kind, mask):
    name = kind.split(':')[0]
    if name == 'construct':
        return do_construct(ctx, rng, kind, mask)
    lay = Layout(rng)
    needs_matrix = name in ('item', 'projected', 'trace', 'matrix_symmetric', 'is_matrix_symmetric')
    T = int(rng.integers(2, 17))
    if name in ('symmetric', 'anti_symmetric'):
        T = 2 * int(rng.integers(1, 9))
    N = int(rng.integers(2, 4)) if needs_matrix else 1
    if name == 'getitem':
        N = int(rng.integers(1, 4))
    sym = kind == 'matrix_symmetric:sym' or (name == 'is_matrix_symmetric' and rng.random() < 0.5)
    A = make_corr(ctx, rng, T, N, 'real', mask, lay, symmetric=sym)
    MA = to_model(A)
    ctx.cell('index', kind, mask)
    ctx.count('index_map_calls')
    args = [A]
    hint = hint_global(MA)
    nonid = True
    context = context_of(MA)
    if name == 'roll':
        dt = int(rng.integers(-2 * T, 2 * T + 1))
        label = 'roll'
        call = lambda: A.roll(dt)
        exp = refc.roll(MA, dt)
        hint = (0.0, 0.0)
        nonid = dt % T != 0
        desc = {'dt': dt}
    elif name == 'reverse':
        label, call, exp, hint, desc = 'reverse', (lambda: A.reverse()), refc.reverse(MA), (0.0, 0.0), {}
    elif name == 'thin':
        spacing = int(rng.integers(1, T + 2))
        offset = int(rng.integers(-3, T + 1))
        style = int(rng.integers(0, 3))
        label = 'thin'
        if style == 0:
            call = lambda: A.thin(spacing, offset)
        elif style == 1:
            call = lambda: A.thin(spacing=spacing, offset=offset)
        else:
            offset = 0
            call = (lambda: A.thin(spacing)) if spacing != 2 else (lambda: A.thin())
        exp = refc.thin(MA, spacing, offset)
        hint = (0.0, 0.0)
        desc = {'spacing': spacing, 'offset': offset}
    elif name in ('symmetric', 'anti_symmetric'):
        label = name
        call = (lambda: A.symmetric()) if name == 'symmetric' else (lambda: A.anti_symmetric())
        exp = refc.symmetric(MA) if name == 'symmetric' else refc.anti_symmetric(MA)
        desc = {}
        if MA[0] is None:
            context = 'undefined-slice-0'
    elif name == 'T_symmetry':
        # T_symmetry analyses self - partner with gamma_method: a second layout must live on another ensemble
        # (replicas of one ensemble need a common spacing)
        P = make_corr(ctx, rng, T, 1, 'real', str(rng.choice(MASKS)), lay if rng.random() < 0.7 else Layout(rng, other_than=lay.ens))
        MP = to_model(P)
        parity = int(rng.choice([1, -1]))
        label = 'T_symmetry'
        if rng.random() < 0.5:
            call = lambda: A.T_symmetry(P, parity)
        else:
            call = (lambda: A.T_symmetry(P, parity=parity)) if parity == -1 else (lambda: A.T_symmetry(P))
        exp = refc.T_symmetry(MA, MP, parity)
        args = [A, P]
        hint = hint_global(MA, MP)
        context = context_of(MA, MP)
        desc = {'parity': parity}
    elif name == 'item':
        i, j = int(rng.integers(0, N)), int(rng.integers(0, N))
        label, call, exp, hint, desc = 'item', (lambda: A.item(i, j)), refc.item(MA, i, j), (0.0, 0.0), {'i': i, 'j': j}
    elif name == 'projected':
        label = 'projected'
        variant = kind.split(':')[1]
        normalize = bool(rng.integers(0, 2))

        def vec():
            v = rng.uniform(0.3, 2.0, size=N) * rng.choice([-1.0, 1.0], size=N)
            return v
        if variant == 'default':
            call = lambda: A.projected()
            exp = refc.projected(MA, [1.0] + [0.0] * (N - 1), [1.0] + [0.0] * (N - 1))
            desc = {'vectors': 'default'}
        elif variant == 'array':
            v = vec()
            v0 = [float(x) for x in v]
            call = lambda: A.projected(v, normalize=normalize)
            exp = refc.projected(MA, v0, v0, normalize)
            args = [A, v]
            desc = {'vectors': 'one ndarray', 'normalize': normalize}
        elif variant == 'array2':
            v, w = vec(), vec()
            v0, w0 = [float(x) for x in v], [float(x) for x in w]
            call = (lambda: A.projected(v, w, normalize)) if rng.random() < 0.5 else (lambda: A.projected(vector_l=v, vector_r=w, normalize=normalize))
            exp = refc.projected(MA, v0, w0, normalize)
            args = [A, v, w]
            desc = {'vectors': 'two ndarrays', 'normalize': normalize}
        elif variant == 'list':
            vl = [vec() for _ in range(T)]
            two = bool(rng.integers(0, 2))
            vr = [vec() for _ in range(T)] if two else None
            l0 = [[float(x) for x in v] for v in vl]
            r0 = [[float(x) for x in v] for v in vr] if two else l0
            call = (lambda: A.projected(vl, vr, normalize=normalize)) if two else (lambda: A.projected(vl, normalize=normalize))
            exp = refc.projected(MA, l0, r0, normalize)
            args = [A, vl] + ([vr] if two else [])
            desc = {'vectors': 'list' + ('s (left, right)' if two else ''), 'normalize': normalize}
        elif variant == 'list+array':
            vl = [vec() for _ in range(T)]
            w = vec()
            l0 = [[float(x) for x in v] for v in vl]
            w0 = [float(x) for x in w]
            if rng.random() < 0.5:
                call = lambda: A.projected(vl, w, normalize=normalize)
                exp = refc.projected(MA, l0, w0, normalize)
            else:
                call = lambda: A.projected(w, vl, normalize=normalize)
                exp = refc.projected(MA, w0, l0, normalize)
            args = [A, vl, w]
            desc = {'vectors': 'list and ndarray', 'normalize': normalize}
        else:
            # lists as returned by GEVP: no vector on some timeslices
            vl = [None if rng.random() < 0.3 else vec() for _ in range(T)]
            l0 = [None if v is None else [float(x) for x in v] for v in vl]
            call = lambda: A.projected(vl)
            exp = refc.projected(MA, l0, l0, False)
            args = [A, vl]
            desc = {'vectors': 'list with None entries'}
        hint = (hint[0] * 4 * N, hint[1] * 4 * N)
    elif name == 'trace':
        label, call, exp, desc = 'trace', (lambda: A.trace()), refc.trace(MA), {}
    elif name == 'matrix_symmetric':
        label, call, exp, desc = 'matrix_symmetric', (lambda: A.matrix_symmetric()), refc.matrix_symmetric(MA), {'symmetric_input': sym}
    elif name == 'Hankel':
        n = int(rng.integers(1, 5))
        periodic = kind.endswith('periodic')
        label = 'Hankel'
        if periodic:
            call = (lambda: A.Hankel(n, True)) if rng.random() < 0.5 else (lambda: A.Hankel(n, periodic=True))
        else:
            call = (lambda: A.Hankel(n)) if rng.random() < 0.5 else (lambda: A.Hankel(n, periodic=False))
        exp = refc.hankel(MA, n, periodic)
        hint = (0.0, 0.0)
        if not has_undefined(MA):
            context = 'periodic-true' if periodic else 'periodic-false'
        desc = {'n': n, 'periodic': periodic}
    elif name == 'getitem':
        ok = True
        for t in list(range(T)) + [-1]:
            g = A[t]
            e = refc.getitem(MA, t)
            ctx.ev()
            if e is None or g is None:
                ok &= (e is None and g is None)
            elif N == 1:
                ok &= g is e
            else:
                ok &= isinstance(g, np.ndarray) and g.shape == (N, N) and all(g[i, j] is e[i][j] for i in range(N) for j in range(N))
        if not ok:
            ctx.violation('index:__getitem__', {'T': T, 'N': N, 'pattern': refc.pattern(MA)})
        return
    elif name == 'is_matrix_symmetric':
        got, exc = run_twice(ctx, lambda: A.is_matrix_symmetric(), [A], 'is_matrix_symmetric')
        if exc is not None:
            report_raise(ctx, exc, 'is_matrix_symmetric', 'is_matrix_symmetric', None, True, context)
            return
        e = refc.is_matrix_symmetric(MA, lambda a, b: a is b or any_digest(a) == any_digest(b))
        ctx.equal(bool(got), e, 'index:is_matrix_symmetric', 'N=%d pattern %s' % (N, refc.pattern(MA)))
        return
    else:
        raise ValueError(kind)
    args_copy_digest = args
    res, exc = run_twice(ctx, call, args_copy_digest, label)
    if exc is not None:
        report_raise(ctx, exc, label, label + repr(sorted(desc.items())), exp, True, context)
        return
    n = judge_corr(ctx, res, exp, label, hint=hint)
    mark_nontrivial(ctx, n, nonid, label, repr(sorted(desc.items())), *args)
    if name in ('roll', 'Hankel', 'projected') and len(ctx.samples) < 3:
        ctx.sample({'call': label, 'args': desc, 'T': T, 'N': N, 'operand_pattern': refc.pattern(MA), 'result_pattern': refc.pattern(exp)})


# ------------------------------------------------------------------------------------------
def do_matmul(ctx, rng, variant, mask):
    T = int(rng.integers(2, 17))
    N = int(rng.integers(1, 4))
    lay = Layout(rng)
    A = make_corr(ctx, rng, T, N, 'real', mask, lay)
    MA = to_model(A)
    ctx.cell('matmul', variant, 'N=%d' % N, mask)
    if variant == 'corr':
        B = make_corr(ctx, rng, T, N, 'real', str(rng.choice(MASKS)), lay if rng.random() < 0.6 else Layout(rng))
        MB = to_model(B)
        label, plabel = '@(Corr,Corr)', '__matmul__'
        call = lambda: A @ B
        exp = refc.matmul(MA, MB)
        args = [A, B]
        hint = hint_global(MA, MB)
        hint = (hint[0] ** 2 * N, hint[0] * hint[1] * 2 * N)
    else:
        M = rng.uniform(0.3, 2.0, size=(N, N)) * rng.choice([-1.0, 1.0], size=(N, N))
        M0 = [[float(x) for x in row] for row in M]
        if variant == 'right-array':
            label, plabel = '@(Corr,ndarray)', '__matmul__'
            call = lambda: A @ M
            exp = refc.matmul_const(MA, M0)
        else:
            label, plabel = '@(ndarray,Corr)', '__rmatmul__'
            call = lambda: M @ A
            exp = refc.matmul_const(MA, M0, const_left=True)
        args = [A, M]
        hint = hint_global(MA)
        hint = (hint[0] * 2 * N, hint[1] * 2 * N)
    res, exc = run_twice(ctx, call, args, label)
    if exc is not None:
        report_raise(ctx, exc, plabel, label, exp, True, context_of(MA))
        return
    n = judge_corr(ctx, res, exp, label, plabel, hint=hint)
    mark_nontrivial(ctx, n, True, label, *args)


# ------------------------------------------------------------------------------------------
def do_history(ctx, rng):
    """a pool of correlators of common T (N=1, real), 6-10 random steps; every step is judged from its actual operands;
    at the end every object that was ever in the pool must still have the digest it had when it entered."""
    T = 2 * int(rng.integers(1, 9)) if rng.random() < 0.5 else int(rng.integers(2, 17))
    lay = Layout(rng)
    pool = [make_corr(ctx, rng, T, 1, 'real', str(rng.choice(MASKS)), lay if rng.random() < 0.7 else Layout(rng),
                      prof=str(rng.choice(['decay', 'decay', 'mixed']))) for _ in range(3)]
    born = [any_digest(c) for c in pool]
    script = []
    steps = int(rng.integers(6, 11))
    for _ in range(steps):
        kind = str(rng.choice(['cc', 'cc', 'cs', 'sc', 'func', 'roll', 'reverse', 'thin', 'symmetric', 'neg']))
        A = pool[int(rng.integers(0, len(pool)))]
        MA = to_model(A)
        if kind == 'cc':
            B = pool[int(rng.integers(0, len(pool)))]
            MB = to_model(B)
            op = str(rng.choice(['+', '-', '*', '/']))
            label, plabel = '%s(Corr,Corr)' % op, DUNDER[(op, 'L')]
            call = lambda: OPS[op](A, B)
            exp = refc.binary(OPS[op], MA, MB, isnan_scalar)
            args, hints, hint = [A, B], hints_per_t(MA, MB), None
        elif kind in ('cs', 'sc'):
            op = str(rng.choice(['+', '-', '*', '/']))
            y = make_scalar_partner(rng, str(rng.choice(['Obs', 'float', 'int'])), lay)
            left, right = (A, y) if kind == 'cs' else (y, A)
            label = '%s(%s,%s)' % (op, type_label(left), type_label(right))
            plabel = DUNDER[(op, 'L' if kind == 'cs' else 'R')]
            call = lambda: OPS[op](left, right)
            exp = refc.binary_scalar(OPS[op], MA, y, scalar_left=(kind == 'sc'), isnan=isnan_scalar)
            args, hints, hint = [left, right], hints_per_t(MA, y), None
        elif kind == 'func':
            fname = str(rng.choice(['sin', 'cos', 'tanh', 'arctan', 'arcsinh', 'abs']))
            sf = abs if fname == 'abs' else getattr(np, fname)
            label = plabel = fname
            call = lambda: sf(A)
            exp = refc.unary(sf, MA, isnan_scalar)
            args, hints, hint = [A], hints_per_t(MA), None
        elif kind == 'neg':
            label = plabel = 'neg'
            call = lambda: -A
            exp = refc.unary(operator.neg, MA)
            args, hints, hint = [A], hints_per_t(MA), None
        elif kind == 'roll':
            dt = int(rng.integers(-T, T + 1))
            label = plabel = 'roll'
            call = lambda: A.roll(dt)
            exp = refc.roll(MA, dt)
            args, hints, hint = [A], None, (0.0, 0.0)
        elif kind == 'reverse':
            label = plabel = 'reverse'
            call = lambda: A.reverse()
            exp = refc.reverse(MA)
            args, hints, hint = [A], None, (0.0, 0.0)
        elif kind == 'thin':
            sp, off = int(rng.integers(1, 4)), int(rng.integers(0, 3))
            label = plabel = 'thin'
            call = lambda: A.thin(sp, off)
            exp = refc.thin(MA, sp, off)
            args, hints, hint = [A], None, (0.0, 0.0)
        else:
            if T % 2:
                continue
            label = plabel = 'symmetric'
            call = lambda: A.symmetric()
            exp = refc.symmetric(MA)
            args, hints, hint = [A], None, hint_global(MA)
        script.append(label)
        res, exc = run_twice(ctx, call, args, label)
        if exc is not None:
            report_raise(ctx, exc, plabel, label, exp, True, context_of(MA))
            continue
        if hints is not None:
            n = judge_corr(ctx, res, exp, label, plabel, hints=hints)
        else:
            n = judge_corr(ctx, res, exp, label, plabel, hint=hint)
        if is_corr(res) and not all_undefined(to_model(res)):
            mags = [v for (v, d), m in zip(mag_model(to_model(res)), to_model(res)) if m is not None]
            if 1e-3 < min(mags) and max(mags) < 1e4:
                pool.append(res)
                born.append(any_digest(res))
    ctx.count('history_steps', len(script))
    for k, (c, d) in enumerate(zip(pool, born)):
        ctx.ev()
        if any_digest(c) != d:
            ctx.violation('mutation:history:pool-object-changed-later', {'index': k, 'script': script})
    if len(set(script)) >= 3:
        ctx.nontrivial.add(digest('history', script, born[:3]))
    if len(ctx.samples) < 4:
        ctx.sample({'history': script, 'T': T, 'initial_patterns': [refc.pattern(to_model(c)) for c in pool[:3]]})


# ------------------------------------------------------------------------------------------
def quiet(ctx, fn, what):
    """call for the benefit of the mutation monitor only; what the call returns is judged elsewhere (C05, C07, C15, C16, C19)"""
    try:
        return fn()
    except Exception as e:
        ctx.count('misc_call_raised')
        ctx.cell('misc-raised', what, type(e).__name__)
        return None


def do_misc(ctx, rng, idx):
    import matplotlib.pyplot as plt
    import autograd.numpy as anp
    T = int(rng.integers(6, 17))
    lay = Layout(rng, nmin=10, nmax=14)
    mask = MASKS[idx % 4]
    A = make_corr(ctx, rng, T, 1, 'real', mask, lay, prof='decay')
    MA = to_model(A)
    ctx.cell('misc', mask)
    # printing with ranges (list objects owned by the caller)
    for pr in ([0, None], [1, 3], [2, T - 1], [0, T + 3]):
        pr0 = list(pr)
        s1, exc = run_twice(ctx, lambda: A.__repr__(pr), [A, pr], '__repr__')
        if exc is not None:
            report_raise(ctx, exc, '__repr__', '__repr__(%r)' % pr0, None, True, context_of(MA))
        pr = list(pr0)
        quiet(ctx, lambda: A.print(pr), 'print')
    quiet(ctx, lambda: str(A), '__str__')
    quiet(ctx, lambda: repr(A), '__repr__')
    quiet(ctx, lambda: A.gamma_method(), 'gamma_method')
    quiet(ctx, lambda: A.gm(S=1.5), 'gm')
    quiet(ctx, lambda: A.plottable(), 'plottable')
    B = make_corr(ctx, rng, T, 1, 'real', str(rng.choice(MASKS)), lay)
    quiet(ctx, lambda: A == B, '__eq__')
    quiet(ctx, lambda: A == A, '__eq__')
    # real / imag are properties: checked here instead of by a tap
    for content in ('real', 'complex'):
        Cc = make_corr(ctx, rng, T, int(rng.integers(1, 3)), content, str(rng.choice(['none', 'interior'])), lay)
        d0 = any_digest(Cc)
        MC = to_model(Cc)
        for part in ('real', 'imag'):
            try:
                r = getattr(Cc, part)
            except Exception as e:
                report_raise(ctx, e, part, part, None, True, context_of(MC))
                continue
            if content == 'complex':
                exp = refc.unary(lambda x: getattr(x, part), MC)
            else:
                exp = MC if part == 'real' else refc.unary(lambda x: x * 0, MC)
            judge_corr(ctx, r, exp, part + '(' + type_label(Cc) + ')', part)
        ctx.ev()
        if any_digest(Cc) != d0:
            ctx.violation('mutation:real-imag:self', {'content': content})
    # derived quantities, fits, plateaus (results judged by C15 / C07)
    for v in ('symmetric', 'forward', 'backward', 'improved', 'log'):
        quiet(ctx, lambda: A.deriv(v), 'deriv')
    for v in ('symmetric', 'big_symmetric', 'improved', 'log'):
        quiet(ctx, lambda: A.second_deriv(variant=v), 'second_deriv')
    for v in ('log', 'logsym', 'cosh', 'sinh', 'arccosh'):
        quiet(ctx, lambda: A.m_eff(v), 'm_eff')
    rngl = [1, min(T - 1, 4)]
    quiet(ctx, lambda: A.plateau(rngl), 'plateau')
    quiet(ctx, lambda: A.plateau(plateau_range=rngl, method='avg', auto_gamma=True), 'plateau')
    fr = [0, T - 1]
    quiet(ctx, lambda: A.fit(lambda a, x: a[0] * anp.exp(-a[1] * x), fr, silent=True), 'fit')
    quiet(ctx, lambda: A.fit(lambda a, x: a[0] + a[1] * x, fitrange=fr, silent=True), 'fit')
    # reweight / correlate (results judged by C05)
    w = lay.obs(rng, 1.0, rel=0.1)
    quiet(ctx, lambda: A.reweight(w), 'reweight')
    quiet(ctx, lambda: A.correlate(w), 'correlate')
    quiet(ctx, lambda: A.correlate(B), 'correlate')
    # plots and dumps: only a few (slow)
    if idx % 8 == 0:
        xr, yr, refs, comp = [0, T - 1], [-1.0, 4.0], [0.5, 1.0], [B]
        quiet(ctx, lambda: A.show(x_range=xr, comp=comp, y_range=yr, references=refs, auto_gamma=True, hide_sigma=2.0), 'show')
        quiet(ctx, lambda: A.show(xr, B, logscale=True), 'show')
        quiet(ctx, lambda: abs(A).spaghetti_plot(), 'spaghetti_plot')
        plt.close('all')
        with tempfile.TemporaryDirectory(prefix='vmon_c14_') as d:
            quiet(ctx, lambda: A.dump('c', datatype='json.gz', path=d), 'dump')
            quiet(ctx, lambda: A.dump(os.path.join(d, 'p'), datatype='pickle'), 'dump')
    ctx.nontrivial.add(digest('misc', any_digest(A)))


def do_gevp(ctx, rng):
    """exactly decaying matrix correlator: GEVP, Eigenvalue (-> projected with lists), prune, for the mutation monitor"""
    T = int(rng.integers(8, 15))
    N = int(rng.integers(2, 4))
    lay = Layout(rng, nmin=10, nmax=12)
    E = np.cumsum(rng.uniform(0.2, 0.5, size=N))
    Z = rng.uniform(0.5, 1.5, size=(N, N)) + np.eye(N)
    amps = [lay.obs(rng, 1.0, rel=0.002) for _ in range(N)]
    content = []
    for t in range(T):
        a = np.empty((N, N), dtype=object)
        for i in range(N):
            for j in range(N):
                a[i, j] = sum(amps[n] * float(Z[i, n] * Z[j, n] * np.exp(-E[n] * t)) for n in range(N))
        content.append(a)
    if rng.random() < 0.5:
        content[int(rng.integers(T - 3, T))] = None
    A = PE.Corr(content)
    ctx.cell('gevp', 'N=%d' % N)
    quiet(ctx, lambda: A.GEVP(1), 'GEVP')
    quiet(ctx, lambda: A.GEVP(1, ts=3, sort='Eigenvector'), 'GEVP')
    quiet(ctx, lambda: A.GEVP(t0=1, ts=2, sort=None, method='cholesky'), 'GEVP')
    quiet(ctx, lambda: A.Eigenvalue(1, state=0), 'Eigenvalue')
    quiet(ctx, lambda: A.Eigenvalue(t0=1, ts=3, state=1, sort='Eigenvector'), 'Eigenvalue')
    quiet(ctx, lambda: A.prune(N - 1, tproj=3, t0proj=1), 'prune')
    quiet(ctx, lambda: A.prune(Ntrunc=1, basematrix=A), 'prune')
    quiet(ctx, lambda: A.matrix_symmetric().is_matrix_symmetric(), 'is_matrix_symmetric')
    ctx.nontrivial.add(digest('gevp', any_digest(A)))


# ------------------------------------------------------------------------------------------
FUNC_CELLS = [(f, s, n) for f in FUNCS for s in ('np', 'method') for n in (1, 2)]


def plan(tier):
    """kinds are split by the kind of undefined set so that all kinds have similar length: the runner interleaves kinds
    round-robin, and a time budget that bites cuts the tail of the longest kinds only"""
    m = 1 if tier == 'quick' else 12
    p = []
    for mask in MASKS:
        p += [('binop:' + mask, len(REQUIRED_CELLS) * m), ('func:' + mask, len(FUNC_CELLS) * m), ('index:' + mask, len(INDEX_KINDS) * 3 * m),
              ('matmul:' + mask, 15 * m)]
    p += [('binop_open', len(OPEN_CELLS) * m), ('history', 100 * m), ('misc', 40 * m), ('gevp', 16 * m)]
    return p


def run_case(ctx, kind, idx, rng):
    kind, _, mask = kind.partition(':')
    if kind == 'binop':
        do_binop(ctx, rng, REQUIRED_CELLS[idx % len(REQUIRED_CELLS)], mask, True)
    elif kind == 'binop_open':
        do_binop(ctx, rng, OPEN_CELLS[idx % len(OPEN_CELLS)], str(rng.choice(MASKS)), False)
    elif kind == 'func':
        f, s, n = FUNC_CELLS[idx % len(FUNC_CELLS)]
        do_func(ctx, rng, f, s, 1 if n == 1 else int(rng.integers(2, 4)), mask)
    elif kind == 'index':
        do_index(ctx, rng, INDEX_KINDS[idx % len(INDEX_KINDS)], mask)
    elif kind == 'matmul':
        do_matmul(ctx, rng, ['corr', 'right-array', 'left-array'][idx % 3], mask)
    elif kind == 'history':
        do_history(ctx, rng)
    elif kind == 'misc':
        do_misc(ctx, rng, idx)
    elif kind == 'gevp':
        do_gevp(ctx, rng)
    else:
        raise ValueError(kind)
