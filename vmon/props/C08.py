"""C08 - non-linear and total least squares obey the implicit-function rule.

Three independent views per generated problem (ref.implicit holds the documented chi-square functions,
complex-step gradients and Richardson finite-difference Hessians; it never sees the library):

 (i)   stationarity: the Newton step H^-1 grad chi2 at the returned parameters (for total least squares also at
       the returned abscissae xplus) in units of the parameter error;
 (ii)  sensitivities: the fitted parameters as observables must equal the dense propagation of the data (and
       priors) with the rows of -H^-1 d(grad chi2)/d(data) evaluated at the returned point; the sensitivity
       matrix is also extracted from the result by projecting its fluctuations on those of the data;
 (iii) re-fit experiment through the library itself: one datum is shifted by +-eps*error keeping its
       fluctuations (same weights), the fit is repeated, and the central difference of the parameters must
       equal the extracted sensitivity; a total-least-squares fit whose x errors are scaled by 1e-6 must
       coincide with the ordinary fit.
"""
import numpy as np

from .. import taps
from ..ctx import Skip, digest
from ..snap import snap, obs_digest, any_digest
from ..ref import dense, gls, implicit

ID = 'C08'
LEVEL = 'exploration'
DECIDING = ['tap:least_squares', 'tap:total_least_squares', 'stationarity_judged', 'sensitivities_judged', 'refit_experiments_judged', 'tls_limit_judged', 'fit_lin_judged',
            'stored_state_monitored', 'alias_cases_judged', 'spectator_parameters_judged', 'arguments_monitored', 'histories_judged', 'scale_pairs_judged', 'options_judged', 'boundary_cases_judged', 'result_interfaces_judged', 'covariance_keyword_judged', 'rejections_judged', 'degenerate_cases_judged',
            'functions_outside_autograd_judged_with_num_grad']
RULE = ('cases: models a exp(-b x), c exp(-b x), a exp(-b x) + c, a cosh(b (x - c)), (a + b x)/(1 + c x), two exponentials, two models with '
        'two-dimensional x and a combined fit sharing a parameter; 1-4 parameters, k+1..k+6 points, relative errors 1e-3..3e-2, each point on its '
        'own ensemble or all on a shared one (AR noise, common mode), least_squares uncorrelated / estimated correlation / supplied factor, with '
        'and without priors (Obs and strings), LM / migrad / Nelder-Mead / Powell, autograd / num_grad; total_least_squares with x observables '
        '(1-2 dimensions, x and y on separate or common ensembles); fit_lin with numbers / observables / a mixture as x; problems with cond(H) > 1e8, an indefinite Hessian or an unreliable '
        'finite-difference reference are discarded and counted; hardening kinds: alias (the same Obs as two data points; as abscissa of two points; as '
        'abscissa of one and ordinate of another point), history (problems equal in everything but the numbers fitted A B A, class-level analysis '
        'parameters set during the middle fit), scale (units of y times 1e-8 .. 1e8: amplitudes scale, rates do not), options (tuple / ndarray '
        'containers, silent=False, expected_chisquare, tol), boundary (points == parameters); around every primary fit: digest of the inputs incl. '
        'stored analysis before/after, class-level parameters, no shared fluctuation arrays; non-trivial: >= 2 parameters, at least one redundant point and non-zero '
        'fluctuations compared; distinct = digest of (data, abscissae, model, priors, options)')
ASSUMPTIONS = ['the implicit-function rule is judged at the point the minimiser returned (stationarity is judged separately)',
               'stationarity in units of the parameter error: Levenberg-Marquardt 1e-6 + 2e-7 sqrt(cond chi2) (forward-difference Jacobian), '
               'ODR 1e-5 + 4 sqrt(1.5e-8 chi2) (sstol = sqrt(eps) on the sum of squares), Nelder-Mead / Powell 2e-3, migrad 5e-3',
               'sensitivities: 1e-8 of the no-cancellation scale (autograd Hessians are exact to rounding), 2e-4 (num_grad), plus 1e-13 cond(H), plus twice the reference\'s own error estimate |H^-1| |dH| |S| (dH = difference of two extrapolated finite-difference Hessians with base steps h and h/2), which is normwise and therefore matters for rows of the sensitivity matrix that are small compared with the others',
               're-fit experiment: central differences at eps = 0.1, 0.05 (LM) / 0.4, 0.2 (ODR) errors, Richardson-extrapolated; tolerance (2e-4 + 3 d_LM/0.05) resp. (1e-3 + 3 d_ODR/0.2) of |S_ki| + sigma_k/error_i plus half the difference of the two estimates, d = admissible distance of a returned point from the minimum (limits what a re-fit can resolve)',
               'reference Hessians: Richardson-extrapolated central differences of complex-step gradients; problems on which the two step '
               'sizes disagree by more than 1e-4, or by more than 10 / cond(H), are discarded',
               'num_grad (numdifftools probes steps up to > 100% of the arguments) is judged for the rational models only where every denominator lies in [0.5, 10] (measured accuracy there < 2e-7; 1e-5 at 0.25; lost at 0.17) - next to a pole is not a smooth region',
               'replica means of the fitted parameters are not part of the property']
BUDGET = {'quick': 36, 'thorough': 480}

PE = None
ANP = None
MODELS = {}
ENS_NAMES = ['A', 'AB', 'A1', 'B', 'ens', 'A2', 'AB1', 'C', 'Ca', 'D', 'E1', 'E10', 'E2', 'F', 'G', 'H', 'K', 'L', 'M', 'N1']
LS_VAL_TOL = {'migrad': 5e-3, 'Nelder-Mead': 2e-3, 'Powell': 2e-3}


WORST = {}


def note(name, ratio, case=None):
    """Telemetry for calibration: the largest (deviation / tolerance) seen per check."""
    r = float(np.max(ratio))
    if r > WORST.get(name, (0.0, None))[0]:
        WORST[name] = (r, case)


class CountMonitor(taps.Monitor):
    pass


def rat_ptrue(rng):
    """(a + b x)/(1 + c x) is constant (and b, c undetermined) for b = a c: stay away from that line."""
    a = float(rng.uniform(1, 2))
    c = float(rng.uniform(0.3, 1.0))
    f = float(rng.uniform(2.5, 4.0)) if rng.random() < 0.5 else float(rng.uniform(-1.5, 0.2))
    return [a, a * c * f, c]


def install_judgement_counters(ctx):
    """Checklist item 13: the evidence shows how often every judgement ran (counter 'judged:<family>:<field>'; the family is the
    mechanism tag without the presentation / step / variant it was reached through)."""
    import re

    def family(mech):
        m = re.sub(r'@[a-z-]+', '', mech)
        m = re.sub(r'^(history):\d+', r'\1', m)
        m = re.sub(r'^(alias|representation|options|boundary|metamorphic|degenerate):[A-Za-z0-9=.\-]+(?=:|$)', r'\1', m)
        m = re.sub(r'^scale:(unit|scaled|small-parameters:[A-Za-z-]+|large-parameters:[A-Za-z_-]+)', 'scale', m)
        return m
    c_close, c_equal, c_require = ctx.close, ctx.equal, ctx.require

    def close(got, exp, mechanism, *args, **kw):
        ctx.count('judged:' + family(mechanism))
        ctx.count('judged-field:' + mechanism.split(':')[-1])
        return c_close(got, exp, mechanism, *args, **kw)

    def equal(got, exp, mechanism, *args, **kw):
        ctx.count('judged:' + family(mechanism))
        ctx.count('judged-field:' + mechanism.split(':')[-1])
        return c_equal(got, exp, mechanism, *args, **kw)

    def require(cond, mechanism, detail=None):
        ctx.count('judged:' + family(mechanism))
        ctx.count('judged-field:' + mechanism.split(':')[-1])
        return c_require(cond, mechanism, detail)
    ctx.close, ctx.equal, ctx.require = close, equal, require


def setup(ctx):
    global PE, ANP
    install_judgement_counters(ctx)
    import pyerrors as pe
    import autograd.numpy as anp
    PE, ANP = pe, anp
    U = lambda rng, a, b: float(rng.uniform(a, b))
    # name: k, dim, library callable (autograd.numpy), reference callable (numpy, complex-safe), true parameters, abscissae
    MODELS.update({
        'exp1': dict(k=1, dim=1, lib=lambda p, x: 2.5 * anp.exp(-p[0] * x), ref=lambda p, x: 2.5 * np.exp(-p[0] * x),
                     ptrue=lambda rng: [U(rng, 0.2, 0.6)], x=lambda rng, n: np.sort(rng.uniform(0.5, 5.0, n))),
        'exp2': dict(k=2, dim=1, lib=lambda p, x: p[0] * anp.exp(-p[1] * x), ref=lambda p, x: p[0] * np.exp(-p[1] * x),
                     ptrue=lambda rng: [U(rng, 1, 3), U(rng, 0.2, 0.6)], x=lambda rng, n: np.sort(rng.uniform(0.5, 5.0, n))),
        'expc': dict(k=3, dim=1, lib=lambda p, x: p[0] * anp.exp(-p[1] * x) + p[2], ref=lambda p, x: p[0] * np.exp(-p[1] * x) + p[2],
                     ptrue=lambda rng: [U(rng, 1, 3), U(rng, 0.4, 0.9), U(rng, 0.3, 1.0)], x=lambda rng, n: np.sort(rng.uniform(0.2, 6.0, n))),
        'cosh': dict(k=3, dim=1, lib=lambda p, x: p[0] * anp.cosh(p[1] * (x - p[2])), ref=lambda p, x: p[0] * np.cosh(p[1] * (x - p[2])),
                     ptrue=lambda rng: [U(rng, 0.5, 2), U(rng, 0.3, 0.6), U(rng, 2.5, 3.5)], x=lambda rng, n: np.sort(rng.uniform(0.0, 6.0, n))),
        'rat': dict(k=3, dim=1, lib=lambda p, x: (p[0] + p[1] * x) / (1 + p[2] * x), ref=lambda p, x: (p[0] + p[1] * x) / (1 + p[2] * x),
                    ptrue=rat_ptrue,
                    x=lambda rng, n: np.sort(rng.uniform(0.2, 3.0, n))),
        'dexp': dict(k=4, dim=1, lib=lambda p, x: p[0] * anp.exp(-p[1] * x) + p[2] * anp.exp(-p[3] * x),
                     ref=lambda p, x: p[0] * np.exp(-p[1] * x) + p[2] * np.exp(-p[3] * x),
                     ptrue=lambda rng: [U(rng, 1, 2), U(rng, 0.1, 0.25), U(rng, 1, 3), U(rng, 1.2, 2.0)], x=lambda rng, n: np.sort(rng.uniform(0.1, 8.0, n))),
        'xy': dict(k=3, dim=2, lib=lambda p, x: p[0] * anp.exp(-p[1] * x[0]) + p[2] * x[1], ref=lambda p, x: p[0] * np.exp(-p[1] * x[0]) + p[2] * x[1],
                   ptrue=lambda rng: [U(rng, 1, 3), U(rng, 0.3, 0.8), U(rng, 0.3, 1.5)],
                   x=lambda rng, n: np.array([rng.uniform(0.5, 4.0, n), rng.uniform(-1.0, 2.0, n)])),
        'ratxy': dict(k=2, dim=2, lib=lambda p, x: p[0] * x[0] / (1 + p[1] * x[1]), ref=lambda p, x: p[0] * x[0] / (1 + p[1] * x[1]),
                      ptrue=lambda rng: [U(rng, 0.5, 2), U(rng, 0.3, 1.0)],
                      x=lambda rng, n: np.array([rng.uniform(0.5, 3.0, n), rng.uniform(0.2, 2.0, n)])),
    })
    import pyerrors.fits as fits
    taps.tap_function(fits, 'least_squares', CountMonitor())
    taps.tap_function(fits, 'total_least_squares', CountMonitor())


def teardown(ctx):
    taps.report(ctx)
    taps.remove_all()


def plan(tier):
    m = 1 if tier == 'quick' else 14
    return [('ls', 180 * m), ('tls', 80 * m), ('tls_limit', 60 * m), ('fit_lin', 60 * m), ('alias', 72 * m), ('history', 54 * m), ('scale', 60 * m),
            ('options', 170 * m), ('boundary', 110 * m), ('spectator', 54 * m),
            ('interface', 80 * m), ('rejection', 70 * m), ('degenerate', 75 * m)]


# ------------------------------------------------------------------------------------------
def ar_noise(rng, n, tau):
    if tau <= 0:
        return rng.normal(size=n)
    a = np.exp(-1.0 / tau)
    e = rng.normal(size=n) * np.sqrt(1 - a * a)
    x = np.zeros(n)
    x[0] = rng.normal()
    for i in range(1, n):
        x[i] = a * x[i - 1] + e[i]
    return x


def make_obs_list(rng, means, rel, shared, names, nconf, tau, ens='ens'):
    """Observables with the given means; each on its own ensemble (names) or all on the shared one."""
    pe = PE
    out = []
    common = ar_noise(rng, nconf, tau)
    cw = float(rng.uniform(0.2, 0.7))
    for i, m in enumerate(means):
        sig = rel * (abs(m) + 0.05) * float(rng.uniform(0.6, 1.6))
        if shared:
            s = m + sig * np.sqrt(nconf) * (cw * common + np.sqrt(1 - cw * cw) * ar_noise(rng, nconf, tau))
            out.append(pe.Obs([s], [ens], idl=[range(1, nconf + 1)]))
        else:
            n = int(rng.integers(25, 70))
            out.append(pe.Obs([m + sig * np.sqrt(n) * ar_noise(rng, n, tau)], [names[i]]))
    return out


def rand_gm_kwargs(rng):
    """Analysis parameters away from the defaults (S = 2, tau_exp = 0, N_sigma = 1)."""
    kw = {'S': float(rng.choice([0, 1, 2]))}
    if rng.random() < 0.2:
        kw = {'S': float(rng.choice([1, 2, 3])), 'tau_exp': float(rng.choice([1.5, 4.0])), 'N_sigma': float(rng.choice([1, 2]))}
    return kw


def analyse(rng, objs):
    """gamma_method with remembered parameters (needed to re-analyse shifted / scaled / cloned copies with identical weights)."""
    S = {}
    for o in objs:
        kw = rand_gm_kwargs(rng)
        try:
            o.gamma_method(**kw)
        except ValueError:
            raise Skip() from None
        if not o.dvalue > 0:
            raise Skip()
        S[id(o)] = kw
    return S


def shifted(o, s, S):
    """Same fluctuations, central value moved by s, analysed with the same parameters."""
    n = o + s
    n.gamma_method(**S[id(o)])
    if abs(n.dvalue - o.dvalue) > 1e-12 * o.dvalue:
        raise RuntimeError('harness: shifted copy has a different error')
    S[id(n)] = S[id(o)]
    return n


# ------------------------------------------------------------------------------------------
# stored-state monitors around a fit (hardening items 5 and 7)
def analysis_digest(o):
    parts = [obs_digest(o), repr(getattr(o, '_dvalue', None)), repr(getattr(o, 'ddvalue', None))]
    for a in ('e_dvalue', 'e_ddvalue', 'e_tauint', 'e_dtauint', 'e_windowsize', 'S', 'tau_exp', 'N_sigma', 'e_rho', 'e_drho', 'e_n_tauint'):
        d = getattr(o, a, None)
        if isinstance(d, dict):
            parts.append([(k_, np.asarray(v).tobytes() if isinstance(v, np.ndarray) else repr(v)) for k_, v in sorted(d.items())])
        else:
            parts.append(repr(d))
    return digest(*parts)


def unique(objs):
    seen, out = set(), []
    for o in objs:
        if id(o) not in seen:
            seen.add(id(o))
            out.append(o)
    return out


class class_state:
    """Class-level analysis parameters differing from everything stored on the inputs while the fit runs."""

    def __init__(self, inputs, active):
        self.inputs, self.active = inputs, active

    def state(self):
        O = PE.Obs
        return (O.S_global, dict(O.S_dict), O.tau_exp_global, dict(O.tau_exp_dict), O.N_sigma_global, dict(O.N_sigma_dict))

    def __enter__(self):
        O = PE.Obs
        self.saved = self.state()
        if self.active:
            O.S_global, O.tau_exp_global, O.N_sigma_global = 7.0, 3.0, 2.0
            for o in self.inputs:
                for e in o.mc_names:
                    O.S_dict[e] = 0.25
                    O.tau_exp_dict[e] = 6.0
                    O.N_sigma_dict[e] = 3.0
        self.during = self.state()
        return self

    def __exit__(self, *a):
        O = PE.Obs
        self.after = self.state()
        O.S_global, sd, O.tau_exp_global, td, O.N_sigma_global, nd = self.saved
        for d_, v in ((O.S_dict, sd), (O.tau_exp_dict, td), (O.N_sigma_dict, nd)):
            d_.clear()
            d_.update(v)


def arguments_digest(args):
    """Containers handed to the library (arrays, lists, tuples, the supplied matrix, the initial guess, dictionaries with key order)."""
    def d(v):
        if isinstance(v, dict):
            return [(repr(k_), d(w)) for k_, w in v.items()]
        if callable(v):
            return id(v)
        return any_digest(v)
    return [d(v) for v in args]


def guarded(ctx, inputs, mech, perturb, call, args=None):
    """call() runs one fit; its inputs (data and stored analysis), the containers it was given and the class-level parameters must be
    what they were, and the result must not share fluctuation arrays with the inputs or between parameters."""
    inputs = unique(inputs)
    before = [analysis_digest(o) for o in inputs]
    abefore = arguments_digest(args) if args is not None else None
    with class_state(inputs, perturb) as cs:
        res = call()
    after = [analysis_digest(o) for o in inputs]
    if args is not None:
        ctx.require(arguments_digest(args) == abefore, mech + ':arguments-changed-by-fit', None)
        ctx.count('arguments_monitored')
    changed = [i for i, (a_, b_) in enumerate(zip(before, after)) if a_ != b_]
    ctx.ev()
    if changed:
        o = inputs[changed[0]]
        ctx.violation(mech + ':inputs-changed-by-fit', {'input': changed[0], 'names': list(o.names), 'dvalue_now': getattr(o, '_dvalue', None)})
    ctx.require(cs.after == cs.during, mech + ':class-level-parameters-changed-by-fit', {'during': repr(cs.during)[:300], 'after': repr(cs.after)[:300]})
    ctx.count('stored_state_monitored')
    if perturb:
        ctx.count('fits_with_class_level_parameters_set')
    if res is not None:
        ok = True
        ps = list(res.fit_parameters)
        for i, p_ in enumerate(ps):
            for n in p_.deltas:
                for o in inputs:
                    if n in o.deltas and np.shares_memory(p_.deltas[n], o.deltas[n]):
                        ok = False
                for q in ps[i + 1:]:
                    if n in q.deltas and np.shares_memory(p_.deltas[n], q.deltas[n]):
                        ok = False
        ctx.require(ok, mech + ':result-shares-fluctuation-array', None)
    return res


# ------------------------------------------------------------------------------------------
def extract_sensitivities(ctx, params, inputs, mech):
    """Least-squares projection of the fluctuations (and covariance gradients) of the fitted parameters on those of
    the inputs.  Unique when the input fluctuation vectors are linearly independent (own ensembles, or a shared
    ensemble with more configurations than points).  Returns (S, relative residual)."""
    ins = [snap(o) for o in inputs]
    rows = {}
    for s in ins:
        for c, (idl, d, _) in s['chains'].items():
            for cfg in idl:
                rows.setdefault(('c', c, int(cfg)), len(rows))
        for n, (cov, g) in s['cov'].items():
            for a in range(len(g)):
                rows.setdefault(('g', n, a), len(rows))
    D = np.zeros((len(rows), len(ins)))
    for j, s in enumerate(ins):
        for c, (idl, d, _) in s['chains'].items():
            for cfg, v in zip(idl, d):
                D[rows[('c', c, int(cfg))], j] = v
        for n, (cov, g) in s['cov'].items():
            w = np.sqrt(np.abs(np.diag(np.atleast_2d(cov))))
            for a in range(len(g)):
                D[rows[('g', n, a)], j] = g[a] * w[a] * np.sqrt(len(rows))
    R = np.zeros((len(rows), len(params)))
    for k, p in enumerate(params):
        s = snap(p)
        for c, (idl, d, _) in s['chains'].items():
            for cfg, v in zip(idl, d):
                key = ('c', c, int(cfg))
                if key not in rows:
                    ctx.ev()
                    ctx.violation(mech + ':fluctuation-on-foreign-configuration', {'chain': c, 'cfg': int(cfg)})
                    return None, None
                R[rows[key], k] = v
        for n, (cov, g) in s['cov'].items():
            if not np.any(np.asarray(cov) != 0):
                continue
            w = np.sqrt(np.abs(np.diag(np.atleast_2d(cov))))
            for a in range(len(g)):
                key = ('g', n, a)
                if key not in rows:
                    ctx.ev()
                    ctx.violation(mech + ':gradient-of-foreign-covariance-input', {'name': n})
                    return None, None
                R[rows[key], k] = g[a] * w[a] * np.sqrt(len(rows))
    if np.linalg.matrix_rank(D) < D.shape[1]:
        return None, None
    sol, _, _, _ = np.linalg.lstsq(D, R, rcond=None)
    resid = R - D @ sol
    rel = float(np.max(np.abs(resid)) / (np.max(np.abs(R)) + 1e-300))
    return sol.T, rel


def compare_param(ctx, got, ref, mech, fl_tol, cov_tol, what):
    g = snap(got)
    ok = True
    if sorted(g['chains']) != sorted(ref['chains']):
        ctx.ev()
        ctx.violation(mech + ':chain-names', {'what': what, 'got': sorted(g['chains']), 'exp': sorted(ref['chains'])})
        return False
    for c in sorted(ref['chains']):
        ridl, rd, _ = ref['chains'][c]
        gidl, gd, _ = g['chains'][c]
        if [int(i) for i in gidl] != [int(i) for i in ridl]:
            ctx.ev()
            ctx.violation(mech + ':configuration-list', {'what': what, 'chain': c})
            ok = False
            continue
        ok &= ctx.close(gd, rd, mech + ':fluctuations', what + ' chain ' + c, rtol=0.0, atol=fl_tol)
    gcov = {n: v for n, v in g['cov'].items() if np.any(np.asarray(v[0]) != 0)}
    rcov = {n: np.asarray(v, dtype=float).ravel() for n, v in ref['cov'].items()}
    if sorted(gcov) != sorted(rcov):
        ctx.ev()
        ctx.violation(mech + ':covariance-names', {'what': what, 'got': sorted(gcov), 'exp': sorted(rcov)})
        return False
    for n in sorted(rcov):
        ok &= ctx.close(gcov[n][1], rcov[n], mech + ':covariance-gradient', what + ' cov ' + n, rtol=0.0, atol=cov_tol[n])
    return bool(ok)


def judge_observables(ctx, params, ins, errs, Srows, sigma, rt, mech, what, Serr=None):
    """View (ii), whole observables: expected = dense propagation with the reference sensitivities.  Serr (same shape as Srows) is the
    reference's own error estimate of its sensitivities (ref.implicit.sensitivity_error); twice that is admitted on top of rt."""
    nontriv = False
    dmax = [max([float(np.max(np.abs(d))) for (_, d, _) in s_['chains'].values() if len(d)] or [0.0]) for s_ in ins]
    for k, p in enumerate(params):
        extra = 0.0 if Serr is None else 2.0 * float(np.sum(np.asarray(Serr)[k] * np.asarray(dmax)))
        grads = list(Srows[k])
        ref = dense.propagate(ins, grads, lambda v: 0.0)
        scale = dense.delta_scale(ins, grads)
        bud = float(np.sum(np.abs(Srows[k]) * np.asarray(errs)))
        ratios = [float(np.max(np.abs(d))) / e for s_, e in zip(ins, errs) for (_, d, _) in s_['chains'].values() if len(d)]
        floor = bud * max(ratios) if ratios else 0.0
        cov_tol = {}
        for n in ref['cov']:
            sg = 0.0
            cvs = None
            for s_, g_ in zip(ins, grads):
                if n in s_['cov']:
                    sg = sg + abs(g_) * np.abs(s_['cov'][n][1])
                    cvs = s_['cov'][n][0]
            sd = np.sqrt(np.abs(np.diag(np.atleast_2d(cvs))))
            ce = 0.0 if Serr is None else 2.0 * float(sum(np.asarray(Serr)[k][j_] * float(np.max(np.abs(s_['cov'][n][1]))) for j_, s_ in enumerate(ins) if n in s_['cov']))
            cov_tol[n] = rt * float(np.max(sg + bud / sd)) + ce
        compare_param(ctx, p, ref, mech, rt * max(scale, floor) + extra + 1e-300, cov_tol, '%s p[%d]' % (what, k))
        if any(np.any(v[1] != 0) for v in ref['chains'].values()):
            nontriv = True
    return nontriv


def judge_matrix(ctx, Sext, Sref, sigma, errs, rt, mech, what, Serr=None):
    """Entry (k, i) against rt * (|S_ki| + sigma_k / error_i): sigma_k / error_i is the size the entry would have if
    datum i alone produced the error of parameter k."""
    tol = rt * (np.abs(Sref) + np.outer(sigma, 1.0 / np.asarray(errs)))
    if Serr is not None:
        tol = tol + 2.0 * np.asarray(Serr)
    bad = np.abs(Sext - Sref) > tol
    ctx.ev(Sref.size)
    note(mech, np.abs(Sext - Sref) / tol, ctx.case)
    if np.any(bad):
        k, i = np.argwhere(bad)[0]
        ctx.violation(mech, {'what': what, 'parameter': int(k), 'datum': int(i), 'got': Sext[k, i], 'exp': Sref[k, i], 'tol': tol[k, i],
                             'worst_ratio': float(np.max(np.abs(Sext - Sref) / tol))})
        return False
    return True


LS_EPS = (0.1, 0.05)
TLS_EPS = (0.4, 0.2)


def odr_tol(chi2):
    """ODRPACK stops when the relative change of the sum of squares falls below sstol = sqrt(machine eps) = 1.5e-8, i.e.
    within about sqrt(1.5e-8 chi2) parameter errors of the minimum; a factor 4 is allowed on top."""
    return 1e-5 + 4.0 * float(np.sqrt(1.5e-8 * max(1.0, chi2)))


def refit_derivative(refit, err, eps_pair, p0=None, sigma=None):
    """Central differences of the re-fitted parameters for shifts +-eps*err with two step sizes, Richardson-extrapolated.
    Returns (derivative, |difference of the two estimates|); (None, None) when a re-fit did not converge; (None, 'jump') when the
    midpoint of the two re-fits lies away from the original solution by more than max(5%, eps^2) of a parameter error although the
    shifts are first-order small: the re-fits ended in another minimum (several minima: outside the quantifier)."""
    est = []
    for eps in eps_pair:
        out = []
        for sgn in (+1, -1):
            r = refit(sgn * eps * err)
            if r is None:
                return None, None
            out.append(np.array([float(p.value) for p in r.fit_parameters]))
        if p0 is not None and np.any(np.abs(0.5 * (out[0] + out[1]) - p0) > max(0.05, eps ** 2) * sigma):
            return None, 'jump'
        est.append((out[0] - out[1]) / (2 * eps * err))
    return (4 * est[1] - est[0]) / 3, np.abs(est[1] - est[0])


def usable(ctx, a):
    if not np.isfinite(a['cond']) or a['cond'] > 1e8:
        ctx.count('discarded_ill_conditioned')
        raise Skip()
    if not a['posdef']:
        ctx.count('discarded_indefinite_hessian')
        raise Skip()
    if a['richardson_disagreement'] > 1e-4 or a['asym'] > 1e-7 or a['cond'] * a['richardson_disagreement'] > 10.0:
        # the extrapolated Hessian is good to a small fraction of the disagreement of the two step sizes; the sensitivities inherit that
        # error times cond(H): beyond cond * disagreement = 10 the reference cannot promise 1e-5
        ctx.count('discarded_reference_unreliable')
        raise Skip()


def smooth_for_numerical_differentiation(ctx, name, p, x):
    """num_grad: numdifftools probes steps from 0.1% to beyond 100% of every argument and extrapolates; next to a singularity of
    the model its accuracy degrades gradually (rational model, measured: < 2e-7 for |denominator| >= 0.5, 1e-5 at 0.25, useless at
    0.17).  Rational models fitted with num_grad are therefore only judged where every denominator lies in [0.5, 10]."""
    den = None
    if name == 'rat':
        den = 1 + p[2] * np.asarray(x, dtype=float)
    elif name == 'ratxy':
        den = 1 + p[1] * np.asarray(x, dtype=float)[1]
    if den is not None and not (np.min(np.abs(den)) >= 0.5 and np.max(np.abs(den)) <= 10.0):
        ctx.count('discarded_num_grad_next_to_a_pole')
        raise Skip()


# ------------------------------------------------------------------------------------------
# ordinary least squares
def ls_options(idx, rng):
    o = {}
    o['method'] = ['Levenberg-Marquardt', 'Levenberg-Marquardt', 'Levenberg-Marquardt', 'migrad', 'Levenberg-Marquardt', 'Nelder-Mead',
                   'Levenberg-Marquardt', 'Powell'][idx % 8]
    o['num_grad'] = (idx // 8) % 4 == 3
    o['weights'] = ['diag', 'estimated', 'diag', 'supplied', 'diag', 'estimated'][(idx // 32) % 6]
    o['priors'] = ['none', 'obs', 'none', 'str', 'none', 'mixed'][(idx // 2) % 6]
    o['shared'] = o['weights'] == 'estimated' or bool(rng.integers(0, 2))
    names = list(MODELS) + ['pair']
    o['model'] = names[(idx // 3) % len(names)]
    return o


def run_ls(ctx, idx, rng):
    pe = PE
    o = ls_options(idx, rng)
    pair = o['model'] == 'pair'
    if pair:
        k = 3
        ptrue = np.array([rng.uniform(1, 3), rng.uniform(0.2, 0.6), rng.uniform(0.5, 2)])
    else:
        M = MODELS[o['model']]
        k = M['k']
        ptrue = np.array(M['ptrue'](rng))
    n = k + int(rng.integers(1, 7))
    if not pair and o['weights'] != 'estimated' and rng.random() < 0.06:
        n = int(rng.integers(12, 31))                # more than 10 points
    if pair:
        na = int(rng.integers(2, n - 1)) if n > 3 else 2
        n = max(n, na + 2)
        xa = np.sort(rng.uniform(0.5, 5.0, na))
        xb = np.sort(rng.uniform(0.5, 5.0, n - na))
        fa = lambda p, x: p[0] * ANP.exp(-p[1] * x)
        fb = lambda p, x: p[2] * ANP.exp(-p[1] * x)

        def model(p, _):
            return np.concatenate([p[0] * np.exp(-p[1] * xa), p[2] * np.exp(-p[1] * xb)])
        means = np.real(model(ptrue, None))
    else:
        x = M['x'](rng, n)

        def model(p, _):
            return M['ref'](p, x)
        means = np.real(model(ptrue, None))
    rel = float(rng.choice([1e-3, 1e-2, 3e-2]))
    nconf = int(rng.integers(max(40, 6 * n), max(80, 6 * n) + 1))
    tau = float(rng.choice([0, 0, 2]))
    names = [str(e) for e in rng.permutation(ENS_NAMES + ['Q%d' % i for i in range(max(0, n - len(ENS_NAMES)))])[:n]]
    ys = make_obs_list(rng, means, rel, o['shared'], names, nconf, tau)
    S = analyse(rng, ys)
    # priors
    spec = []
    if o['priors'] != 'none':
        mask = rng.permutation(k)[:int(rng.integers(1, k + 1))].tolist()
        for m in mask:
            err = abs(ptrue[m]) * float(rng.uniform(0.02, 0.3))
            val = ptrue[m] + err * float(rng.normal())
            as_str = {'obs': False, 'str': True}.get(o['priors'], rng.random() < 0.5)
            if as_str:
                spec.append((int(m), 'str', '%.4f(%.4f)' % (val, max(err, 2e-4))))
            else:
                nn = int(rng.integers(25, 60))
                po = pe.Obs([val + err * np.sqrt(nn) * rng.normal(size=nn)], ['pr%d' % m])
                spec.append((int(m), 'obs', po))
        S.update(analyse(rng, [v for _, kind, v in spec if kind == 'obs']))
    priors = {m: v for m, _, v in spec} if spec else None
    if spec and len(spec) == k and rng.random() < 0.5:
        spec = sorted(spec, key=lambda t: t[0])
        priors = [v for _, _, v in spec]
    dy = np.array([float(y.dvalue) for y in ys])
    snaps = [snap(y) for y in ys]
    yv = np.array([s['value'] for s in snaps])
    # weights
    kw = {}
    if o['weights'] == 'diag':
        L = np.diag(1.0 / dy)
    elif o['weights'] == 'estimated':
        corr = gls.corr_from_snapshots(snaps)
        if not np.all(np.isfinite(corr)) or np.linalg.cond(corr) > 1e8 or not np.linalg.eigvalsh(corr)[0] > 1e-9:
            raise Skip()
        L = np.linalg.cholesky(gls.weights_from_corr(corr, dy)).T
        kw['correlated_fit'] = True
    else:
        a_ = rng.normal(size=(n, n + 2))
        c = a_ @ a_.T
        d = 1 / np.sqrt(np.diag(c))
        corr = 0.5 * c * d[:, None] * d[None, :] + 0.5 * np.eye(n)
        err = dy * rng.uniform(0.7, 1.5, size=n)
        L = np.tril(np.linalg.inv(np.linalg.cholesky(corr * np.outer(err, err))))
        kw['correlated_fit'] = True
        kw['inv_chol_cov_matrix'] = [L, ['a', 'b'] if pair else ['']]
    if o['method'] != 'Levenberg-Marquardt':
        kw['method'] = o['method']
    if o['num_grad']:
        kw['num_grad'] = True
    guess = (ptrue * (1 + 0.03 * rng.normal(size=k))).tolist()
    kw['initial_guess'] = guess
    if pair:
        xarg, yarg, farg = {'b': xb, 'a': xa}, {'a': ys[:len(xa)], 'b': ys[len(xa):]}, {'a': fa, 'b': fb}
    else:
        xarg, yarg, farg = x, ys, M['lib']

    def fit(yarg_, priors_, guess_, values_only=False):
        kw_ = dict(kw, initial_guess=list(guess_))
        if values_only:
            kw_.pop('num_grad', None)    # the central values do not depend on how the error propagation differentiates
        try:
            return pe.fits.least_squares(xarg, yarg_, farg, priors=priors_, silent=True, **kw_)
        except Exception as e:
            if 'did not converge' in str(e):
                return None
            if 'Cannot invert hessian matrix' in str(e):
                # the library refuses a singular Hessian: cond(H) = inf, outside the quantifier
                ctx.count('discarded_ill_conditioned')
                ctx.count('library_refused_singular_hessian')
                raise Skip() from None
            raise
    res = guarded(ctx, list(ys) + [v for _, kind_, v in spec if kind_ == 'obs'], 'ls', bool((idx // 5) % 2), lambda: fit(yarg, priors, guess))
    if res is None:
        ctx.count('not_converged:' + o['method'])
        raise Skip()
    pv = np.array([float(p.value) for p in res.fit_parameters])
    # priors as the library saw them
    pidx, pval, perr, psnaps = [], [], [], []
    got_pr = getattr(res, 'priors', None)
    for j, (m, kind, v) in enumerate(spec):
        pidx.append(m)
        if kind == 'obs':
            pval.append(float(v.value))
            perr.append(float(v.dvalue))
            psnaps.append(snap(v))
        else:
            val, err = gls.parse_prior(v)
            pval.append(val)
            perr.append(err)
            lp = got_pr[m] if isinstance(got_pr, dict) else got_pr[j]
            nm = [q for q in lp.cov_names if q.startswith('#prior%d_' % m)]
            if not ctx.require(len(nm) == 1, 'ls:prior-string:name', {'names': list(lp.names), 'parameter': m}):
                return
            psnaps.append(dict(value=val, chains={}, idl_form={}, rew=False, cov={nm[0]: (np.array([[err ** 2]]), np.array([1.0]))}))
    a = implicit.ls_analysis(model, pv, None, yv, L, pidx, pval, perr, dy=dy)
    usable(ctx, a)
    if o['num_grad'] and not pair:
        smooth_for_numerical_differentiation(ctx, o['model'], pv, x)
    cell = (o['model'], 'shared' if o['shared'] else 'indep', o['weights'] if o['priors'] == 'none' else o['weights'] + '+priors',
            'least_squares', 'num' if o['num_grad'] else 'auto')
    ctx.cell(*cell)
    ctx.cell('method', o['method'][:2], o['weights'])
    what = '/'.join(cell) + '/' + o['method'][:2]
    # (i) stationarity
    if o['method'] == 'Levenberg-Marquardt':
        stol = 1e-6 + 2e-7 * float(np.sqrt(a['cond'] * max(1.0, a['chi2'])))
    else:
        stol = LS_VAL_TOL[o['method']]
    step = np.abs(a['newton']) / a['sigma']
    ctx.ev(k)
    note('ls:not-stationary:' + o['method'], step / stol, ctx.case)
    if np.any(step > stol):
        ctx.violation('ls:not-stationary', {'what': what, 'newton_step_in_sigma': step, 'tol': stol, 'grad': a['grad'], 'cond': a['cond']})
    ctx.count('stationarity_judged')
    # reported numbers
    ctx.close(res.chisquare, a['chi2'], 'ls:chisquare-at-returned-parameters', what, rtol=1e-10, scale=max(1.0, a['chi2']))
    ctx.equal(int(res.dof), n - k + len(spec), 'ls:dof', what)
    ctx.close(res.p_value, gls.chi2_sf(float(res.chisquare), n - k + len(spec)), 'ls:p_value', what, rtol=0.0, atol=1e-13)
    # (ii) sensitivities
    rt = (2e-4 if o['num_grad'] else 1e-8) + 1e-13 * a['cond']
    ins = snaps + psnaps
    errs = list(dy) + list(perr)
    Sref = np.hstack([a['Sy'], a['Sp']])
    nontriv = judge_observables(ctx, res.fit_parameters, ins, errs, Sref, a['sigma'], rt, 'ls:implicit-function', what, Serr=a['S_err'])
    inputs = list(ys) + [got_pr[m] if isinstance(got_pr, dict) else got_pr[j] for j, (m, kind, v) in enumerate(spec)]
    Sext, rel = extract_sensitivities(ctx, res.fit_parameters, inputs, 'ls:extraction')
    if Sext is not None:
        ctx.require(rel < 1e-8, 'ls:fluctuations-outside-span-of-data', {'what': what, 'relative_residual': rel})
        judge_matrix(ctx, Sext, Sref, a['sigma'], errs, rt, 'ls:implicit-function:sensitivity-matrix', what, Serr=a['S_err'])
        ctx.count('sensitivity_matrices_extracted')
    ctx.count('sensitivities_judged')
    if nontriv and k >= 2:
        ctx.nontrivial.add(digest([obs_digest(y) for y in ys], o['model'], repr(sorted(o.items())), [str(v) for _, _, v in spec]))
    # (iii) re-fit experiment (Levenberg-Marquardt only: the others stop too far from the minimum)
    if o['method'] == 'Levenberg-Marquardt' and Sext is not None:
        cand = [n + j for j, (m, kind, v) in enumerate(spec) if kind == 'obs']
        pick = [int(rng.integers(0, n))] + ([int(rng.choice(cand))] if cand and rng.random() < 0.7 else [int(rng.integers(0, n))])
        noise = 2e-7 * float(np.sqrt(a['cond'] * max(1.0, a['chi2'])))      # distance of an LM result from the minimum (sigma), 10 x measured
        for i in sorted(set(pick)):
            def refit(s_):
                if i < n:
                    yy = list(ys)
                    yy[i] = shifted(ys[i], s_, S)
                    ya = {'a': yy[:len(xa)], 'b': yy[len(xa):]} if pair else yy
                    return fit(ya, priors, pv, values_only=True)
                j = i - n
                m = spec[j][0]
                pn = shifted(spec[j][2], s_, S)
                if isinstance(priors, dict):
                    pr = dict(priors)
                    pr[m] = pn
                else:
                    pr = list(priors)
                    pr[[q[0] for q in spec].index(m)] = pn
                return fit(yarg, pr, pv, values_only=True)
            fd, spread = refit_derivative(refit, errs[i], LS_EPS, pv, a['sigma'])
            if fd is None:
                ctx.count('refit_outside_linear_regime' if spread == 'jump' else 'refit_not_converged')
                continue
            size = np.abs(Sext[:, i]) + a['sigma'] / errs[i]
            if np.any(spread > 0.05 * size):
                # the two step sizes disagree: the shifts leave the linear-response regime (strong curvature or another minimum)
                ctx.count('refit_outside_linear_regime')
                continue
            tol = (2e-4 + 3 * noise / LS_EPS[1]) * size + 0.5 * spread
            ctx.ev(k)
            note('ls:refit-experiment', np.abs(fd - Sext[:, i]) / tol, ctx.case)
            if np.any(np.abs(fd - Sext[:, i]) > tol):
                ctx.violation('ls:refit-experiment', {'what': what, 'datum': int(i), 'finite_difference': fd, 'extracted': Sext[:, i],
                                                      'reference': Sref[:, i], 'tol': tol, 'cond': a['cond']})
            ctx.count('refit_experiments_judged')
    ctx.sample({'options': o, 'points': n, 'returned_p': pv, 'newton_step_in_sigma': step, 'cond_H': a['cond'], 'chi2': a['chi2'],
                'reference_dp_dy_row0': Sref[0], 'extracted_dp_dy_row0': None if Sext is None else Sext[0]})


# ------------------------------------------------------------------------------------------
# total least squares
def tls_problem(ctx, idx, rng, xscale=1.0):
    names = list(MODELS)
    name = names[idx % len(names)]
    M = MODELS[name]
    k, dim = M['k'], M['dim']
    ptrue = np.array(M['ptrue'](rng))
    n = k + int(rng.integers(1, 5))
    xt = M['x'](rng, n)
    means = np.real(M['ref'](ptrue, xt))
    rel = float(rng.choice([1e-3, 1e-2, 3e-2]))
    relx = float(rng.choice([3e-3, 1e-2, 3e-2]))
    layout = ['separate', 'same-ensemble-per-point', 'shared'][(idx // len(names)) % 3]
    nconf = int(rng.integers(max(40, 8 * n), max(90, 8 * n) + 1))
    tau = float(rng.choice([0, 0, 2]))
    perm = [str(e) for e in rng.permutation(ENS_NAMES)]
    xs = []
    if layout == 'shared':
        ys = make_obs_list(rng, means, rel, True, None, nconf, tau)
        for r_ in np.atleast_2d(xt):
            xs.append(make_obs_list(rng, r_, relx, True, None, nconf, tau))
    elif layout == 'separate':
        if (dim + 1) * n > len(perm):
            perm = perm + ['Z%d' % i for i in range((dim + 1) * n)]
        ys = make_obs_list(rng, means, rel, False, perm[:n], nconf, tau)
        for d_, r_ in enumerate(np.atleast_2d(xt)):
            xs.append(make_obs_list(rng, r_, relx, False, perm[(d_ + 1) * n:(d_ + 2) * n], nconf, tau))
    else:
        # x_i and y_i of a point live on the same ensemble, different points on different ones
        ys, xs = [], [[] for _ in range(dim)]
        for i in range(n):
            grp = make_obs_list(rng, [means[i]] + [np.atleast_2d(xt)[d_][i] for d_ in range(dim)], 1.0, True, None, nconf, tau, ens=perm[i])
            # make_obs_list uses one relative error: rescale the fluctuations
            yo = (grp[0] - means[i]) * rel + means[i]
            ys.append(yo)
            for d_ in range(dim):
                v = np.atleast_2d(xt)[d_][i]
                xs[d_].append((grp[1 + d_] - v) * relx + v)
    if xscale != 1.0:
        xs = [[(o_ - o_.value) * xscale + o_.value for o_ in row] for row in xs]
    S = analyse(rng, ys + [o_ for row in xs for o_ in row])
    xarg = xs[0] if dim == 1 else xs
    return dict(name=name, M=M, k=k, dim=dim, n=n, ptrue=ptrue, xs=xs, ys=ys, xarg=xarg, S=S, layout=layout)


def tls_fit(P, xarg, yarg, guess, num_grad):
    kw = {'initial_guess': list(guess)}
    if num_grad:
        kw['num_grad'] = True
    try:
        return PE.fits.total_least_squares(xarg, yarg, P['M']['lib'], silent=True, **kw)
    except Exception as e:
        if 'did not converge' in str(e):
            return None
        if 'Cannot invert hessian matrix' in str(e):
            raise Skip() from None      # singular Hessian refused by the library: outside the quantifier
        raise


def run_tls(ctx, idx, rng):
    P = tls_problem(ctx, idx, rng)
    k, dim, n, M = P['k'], P['dim'], P['n'], P['M']
    num_grad = (idx // 5) % 4 == 3
    guess = P['ptrue'] * (1 + 0.03 * rng.normal(size=k))
    res = guarded(ctx, [o_ for row in P['xs'] for o_ in row] + list(P['ys']), 'tls', bool((idx // 3) % 2), lambda: tls_fit(P, P['xarg'], P['ys'], guess, num_grad))
    if res is None:
        ctx.count('not_converged:ODR')
        raise Skip()
    beta = np.array([float(p.value) for p in res.fit_parameters])
    xflat = [o_ for row in P['xs'] for o_ in row]
    xv = np.array([[float(o_.value) for o_ in row] for row in P['xs']])
    dx = np.array([[float(o_.dvalue) for o_ in row] for row in P['xs']])
    if dim == 1:
        xv, dx = xv[0], dx[0]
    yv = np.array([float(o_.value) for o_ in P['ys']])
    dy = np.array([float(o_.dvalue) for o_ in P['ys']])
    xplus = np.asarray(res.xplus, dtype=float).reshape(xv.shape)
    a = implicit.tls_analysis(M['ref'], beta, xplus, xv, dx, yv, dy)
    usable(ctx, a)
    if num_grad:
        smooth_for_numerical_differentiation(ctx, P['name'], beta, xplus)
    cell = (P['name'], P['layout'], 'uncorrelated', 'total_least_squares', 'num' if num_grad else 'auto')
    ctx.cell(*cell)
    what = '/'.join(cell)
    # (i) stationarity in parameters and fitted abscissae
    step = np.abs(a['newton']) / a['sigma']
    stol = odr_tol(a['chi2'])
    ctx.ev(len(step))
    note('tls:not-stationary', step / stol, ctx.case)
    if np.any(step > stol):
        ctx.violation('tls:not-stationary', {'what': what, 'newton_step_in_sigma': step, 'grad': a['grad'], 'cond': a['cond']})
    ctx.count('stationarity_judged')
    ctx.close(res.odr_chisquare, a['chi2'], 'tls:odr_chisquare-at-returned-point', what, rtol=1e-10, scale=max(1.0, a['chi2']))
    ctx.equal(int(res.dof), n - k, 'tls:dof', what)
    ctx.close(res.p_value, gls.chi2_sf(float(res.odr_chisquare), n - k), 'tls:p_value', what, rtol=0.0, atol=1e-13)
    # (ii)
    rt = (2e-4 if num_grad else 1e-8) + 1e-13 * a['cond']
    inputs = xflat + list(P['ys'])
    ins = [snap(o_) for o_ in inputs]
    errs = list(np.asarray(dx).ravel()) + list(dy)
    Sref = np.hstack([a['Sx'][:k], a['Sy'][:k]])
    sig = a['sigma'][:k]
    nontriv = judge_observables(ctx, res.fit_parameters, ins, errs, Sref, sig, rt, 'tls:implicit-function', what, Serr=a['S_err'][:k])
    Sext, rel = extract_sensitivities(ctx, res.fit_parameters, inputs, 'tls:extraction')
    if Sext is not None:
        ctx.require(rel < 1e-8, 'tls:fluctuations-outside-span-of-data', {'what': what, 'relative_residual': rel})
        judge_matrix(ctx, Sext, Sref, sig, errs, rt, 'tls:implicit-function:sensitivity-matrix', what, Serr=a['S_err'][:k])
        ctx.count('sensitivity_matrices_extracted')
    ctx.count('sensitivities_judged')
    if nontriv and k >= 2:
        ctx.nontrivial.add(digest([obs_digest(o_) for o_ in inputs], P['name'], P['layout'], num_grad))
    # (iii) re-fit: one x datum and one y datum
    if Sext is not None:
        m = len(xflat)
        both = (int(rng.integers(0, m)), m + int(rng.integers(0, n)))
        for i in (both if idx % 2 == 0 else both[(idx // 2) % 2:][:1]):
            def refit(s_):
                xs2 = [list(row) for row in P['xs']]
                ys2 = list(P['ys'])
                if i < m:
                    xs2[i // n][i % n] = shifted(xflat[i], s_, P['S'])
                else:
                    ys2[i - m] = shifted(P['ys'][i - m], s_, P['S'])
                return tls_fit(P, xs2[0] if dim == 1 else xs2, ys2, beta, False)
            fd, spread = refit_derivative(refit, errs[i], TLS_EPS, beta, sig)
            if fd is None:
                ctx.count('refit_outside_linear_regime' if spread == 'jump' else 'refit_not_converged')
                continue
            size = np.abs(Sext[:, i]) + sig / errs[i]
            if np.any(spread > 0.05 * size):
                ctx.count('refit_outside_linear_regime')
                continue
            tol = (1e-3 + 3 * stol / TLS_EPS[1]) * size + 0.5 * spread
            ctx.ev(k)
            note('tls:refit-experiment', np.abs(fd - Sext[:, i]) / tol, ctx.case)
            if np.any(np.abs(fd - Sext[:, i]) > tol):
                ctx.violation('tls:refit-experiment', {'what': what, 'datum': int(i), 'is_x': bool(i < m), 'finite_difference': fd,
                                                       'extracted': Sext[:, i], 'reference': Sref[:, i], 'tol': tol})
            ctx.count('refit_experiments_judged')
    ctx.sample({'model': P['name'], 'layout': P['layout'], 'points': n, 'num_grad': num_grad, 'returned_beta': beta, 'newton_step_in_sigma': step,
                'cond_H': a['cond'], 'odr_chisquare': a['chi2'], 'reference_dp_dx_row0': Sref[0][:len(xflat)]})


def run_tls_limit(ctx, idx, rng):
    """x errors scaled by 1e-6: total least squares must coincide with the ordinary fit on the x values."""
    P = tls_problem(ctx, idx, rng, xscale=1e-6)
    k, dim, M = P['k'], P['dim'], P['M']
    guess = P['ptrue'] * (1 + 0.03 * rng.normal(size=k))
    rt = tls_fit(P, P['xarg'], P['ys'], guess, False)
    if rt is None:
        ctx.count('not_converged:ODR')
        raise Skip()
    xv = np.array([[float(o_.value) for o_ in row] for row in P['xs']])
    xnum = xv[0] if dim == 1 else xv
    try:
        ro = PE.fits.least_squares(xnum, P['ys'], M['lib'], silent=True, initial_guess=list(guess))
    except Exception as e:
        if 'did not converge' in str(e) or 'Cannot invert hessian matrix' in str(e):
            ctx.count('not_converged:Levenberg-Marquardt')
            raise Skip() from None
        raise
    yv = np.array([float(o_.value) for o_ in P['ys']])
    dy = np.array([float(o_.dvalue) for o_ in P['ys']])
    po = np.array([float(p.value) for p in ro.fit_parameters])
    pt = np.array([float(p.value) for p in rt.fit_parameters])
    a = implicit.ls_analysis(lambda p, _: M['ref'](p, xnum), po, None, yv, np.diag(1.0 / dy), dy=dy)
    usable(ctx, a)
    what = '%s/%s' % (P['name'], P['layout'])
    ctx.cell('tls_limit', P['name'], P['layout'])
    d = np.abs(pt - po) / a['sigma']
    vtol = odr_tol(float(ro.chisquare)) + 1e-6 + 2e-7 * float(np.sqrt(a['cond'] * max(1.0, a['chi2'])))
    ctx.ev(k)
    note('tls-limit:values', d / vtol, ctx.case)
    if np.any(d > vtol):
        # different points: a violation unless both are minima of the ordinary chi-square (several minima: outside the quantifier)
        ap = implicit.ls_analysis(lambda p, _: M['ref'](p, xnum), pt, None, yv, np.diag(1.0 / dy), dy=dy)
        if ap['posdef'] and np.all(np.abs(ap['newton']) / ap['sigma'] <= odr_tol(ap['chi2'])) \
                and np.all(np.abs(a['newton']) / a['sigma'] <= 1e-6 + 2e-7 * float(np.sqrt(a['cond'] * max(1.0, a['chi2'])))):
            ctx.count('discarded_several_minima')
            raise Skip()
        ctx.violation('tls-limit:values', {'what': what, 'difference_in_sigma': d, 'tls': pt, 'ordinary': po,
                                           'newton_step_of_tls_point_in_ordinary_chisquare': np.abs(ap['newton']) / ap['sigma'] if ap['posdef'] else None})
    ctx.close(rt.odr_chisquare, ro.chisquare, 'tls-limit:chisquare', what, rtol=1e-5, scale=max(1.0, float(ro.chisquare)))
    ctx.equal(int(rt.dof), int(ro.dof), 'tls-limit:dof', what)
    # y-sensitivities: the y part of the TLS fluctuations against (a) the implicit-function matrix of the ordinary chi-square at
    # the point total least squares returned, (b) the library's ordinary fit (the two minimisers stop at slightly different points:
    # the change of the reference matrix between the two points is allowed on top)
    xflat = [o_ for row in P['xs'] for o_ in row]
    St, rel = extract_sensitivities(ctx, rt.fit_parameters, xflat + list(P['ys']), 'tls-limit:extraction')
    So, rel2 = extract_sensitivities(ctx, ro.fit_parameters, list(P['ys']), 'tls-limit:extraction')
    if St is not None and So is not None:
        at = implicit.ls_analysis(lambda p, _: M['ref'](p, xnum), pt, None, yv, np.diag(1.0 / dy), dy=dy)
        judge_matrix(ctx, St[:, len(xflat):], at['Sy'], a['sigma'], list(dy), 1e-4 + 1e-13 * a['cond'], 'tls-limit:y-sensitivities-vs-ordinary-chisquare', what)
        drift = np.abs(at['Sy'] - a['Sy'])
        tol = 5e-3 * (np.abs(a['Sy']) + np.outer(a['sigma'], 1.0 / dy)) + 2 * drift
        ctx.ev(So.size)
        note('tls-limit:y-sensitivities', np.abs(St[:, len(xflat):] - So) / tol, ctx.case)
        if np.any(np.abs(St[:, len(xflat):] - So) > tol):
            kk, ii = np.argwhere(np.abs(St[:, len(xflat):] - So) > tol)[0]
            ctx.violation('tls-limit:y-sensitivities', {'what': what, 'parameter': int(kk), 'datum': int(ii), 'tls': St[kk, len(xflat) + ii],
                                                        'ordinary': So[kk, ii], 'tol': tol[kk, ii]})
        ctx.count('tls_limit_judged')
        if k >= 2:
            ctx.nontrivial.add(digest([obs_digest(o_) for o_ in P['ys']], P['name'], 'limit'))
    ctx.sample({'tls_limit': P['name'], 'tls': pt, 'ordinary': po, 'difference_in_sigma': d})


# ------------------------------------------------------------------------------------------
# hardening kinds: the same object in several slots, histories, units, options / representation, boundaries
AMP = {'exp2': [0], 'expc': [0, 2], 'cosh': [0], 'rat': [0, 1], 'dexp': [0, 2], 'xy': [0, 2], 'ratxy': [0]}     # parameters that scale with y


def lm_tol(a, cond=None):
    return 1e-6 + 2e-7 * float(np.sqrt((a['cond'] if cond is None else cond) * max(1.0, a['chi2'])))


def build_ls(ctx, rng, name, method='Levenberg-Marquardt', num_grad=False, weights='diag', priors='none', shared=None, n=None, near_duplicate=False):
    """A least_squares problem as a dictionary (data, priors, options); nothing is fitted here."""
    M = MODELS[name]
    k = M['k']
    ptrue = np.array(M['ptrue'](rng))
    n = n or k + int(rng.integers(1, 6))
    x = np.array(M['x'](rng, n), dtype=float)
    dup = None
    if near_duplicate and n >= 3:
        i, j = [int(v) for v in rng.choice(n, size=2, replace=False)]
        x[..., j] = x[..., i] * (1 + 1e-4)                  # the same Obs will be used for both points
        dup = (i, j)
    means = np.real(M['ref'](ptrue, x))
    shared = bool(rng.integers(0, 2)) if shared is None else shared
    if weights == 'estimated':
        shared = True
    names = [str(e) for e in rng.permutation(ENS_NAMES)[:n]]
    nconf = int(rng.integers(max(40, 6 * n), max(80, 6 * n) + 1))
    ys = make_obs_list(rng, means, float(rng.choice([1e-3, 1e-2, 3e-2])), shared, names, nconf, float(rng.choice([0, 0, 2])))
    S = analyse(rng, ys)
    if dup:
        ys[dup[1]] = ys[dup[0]]
    spec = []
    if priors == 'obs':
        for m in rng.permutation(k)[:int(rng.integers(1, k + 1))].tolist():
            err = abs(ptrue[m]) * float(rng.uniform(0.02, 0.3))
            nn = int(rng.integers(25, 60))
            po = PE.Obs([ptrue[m] + err * float(rng.normal()) + err * np.sqrt(nn) * rng.normal(size=nn)], ['pr%d' % m])
            spec.append((int(m), 'obs', po))
        S.update(analyse(rng, [v for _, _, v in spec]))
    Lsup = None
    if weights == 'supplied':
        dy = np.array([float(v.dvalue) for v in ys])
        a_ = rng.normal(size=(n, n + 2))
        c = a_ @ a_.T
        d = 1 / np.sqrt(np.diag(c))
        corr = 0.5 * c * d[:, None] * d[None, :] + 0.5 * np.eye(n)
        err = dy * rng.uniform(0.7, 1.5, size=n)
        Lsup = np.tril(np.linalg.inv(np.linalg.cholesky(corr * np.outer(err, err))))
    return dict(kind='ls', name=name, M=M, k=k, n=n, x=x, ys=ys, spec=spec, S=S, ptrue=ptrue, method=method, num_grad=num_grad, weights=weights,
                Lsup=Lsup, guess=ptrue * (1 + 0.03 * rng.normal(size=k)), pscale=np.ones(k), extra_kw={}, xform='ndarray')


def ls_args(P):
    """(x, y, func, priors, keyword arguments) exactly as handed to least_squares; built once so that the same objects can be used twice."""
    kw = dict(P['extra_kw'])
    if P['weights'] != 'diag':
        kw['correlated_fit'] = True
    if P['weights'] == 'supplied':
        kw['inv_chol_cov_matrix'] = [P['Lsup'], ['']]
    if P['method'] != 'Levenberg-Marquardt':
        kw['method'] = P['method']
    if P['num_grad']:
        kw['num_grad'] = True
    kw['initial_guess'] = [float(v) for v in P['guess']]
    kw.setdefault('silent', True)
    priors = {m: v for m, _, v in P['spec']} if P['spec'] else None
    x = np.array(P['x'], dtype=float)
    if P['xform'] == 'list':
        x = x.tolist()
    elif P['xform'] == 'tuple':
        x = tuple(x.tolist()) if x.ndim == 1 else tuple(tuple(r) for r in x.tolist())
    y = list(P['ys'])
    if P['xform'] == 'tuple':
        arr = np.empty(2 * len(y), dtype=object)
        arr[::2] = list(y)
        y = arr[::2]
    return [x, y, P['M']['lib'], priors, kw]


def ls_run(a):
    x, y, f, priors, kw = a
    try:
        return PE.fits.least_squares(x, y, f, priors=priors, **kw)
    except Exception as e:
        if 'did not converge' in str(e) or 'Cannot invert hessian matrix' in str(e):
            return None
        raise


def finite_result(ctx, res, mech, what):
    """A fit result with a non-finite central value or fluctuation is a violation by itself (and cannot be analysed further)."""
    ok = all(np.isfinite(float(v.value)) and all(np.all(np.isfinite(d_)) for d_ in v.deltas.values()) for v in res.fit_parameters)
    ctx.require(ok, mech + ':non-finite-result', {'what': what, 'values': [float(v.value) for v in res.fit_parameters]})
    return ok


def hard_ls(ctx, P, mech, what, perturb=False, cond_ref=None, args=None):
    """Fit (with the stored-state monitors) and judge views (i) and (ii) of a least_squares problem."""
    ys, spec, k, n = P['ys'], P['spec'], P['k'], P['n']
    dy = np.array([float(v.dvalue) for v in ys])                         # weights present at call time
    perr = [float(v.dvalue) for _, _, v in spec]
    args = args if args is not None else ls_args(P)
    res = guarded(ctx, list(ys) + [v for _, _, v in spec], mech, perturb, lambda: ls_run(args), args=args)
    if res is None:
        ctx.count('not_converged:' + P['method'])
        return None
    if not finite_result(ctx, res, mech, what):
        return None
    pv = np.array([float(p.value) for p in res.fit_parameters])
    snaps = [snap(v) for v in ys]
    yv = np.array([s_['value'] for s_ in snaps])
    if P['weights'] == 'diag':
        L = np.diag(1.0 / dy)
    elif P['weights'] == 'estimated':
        corr = gls.corr_from_snapshots(snaps)
        if not np.all(np.isfinite(corr)) or np.linalg.cond(corr) > 1e8 or not np.linalg.eigvalsh(corr)[0] > 1e-9:
            raise Skip()
        L = np.linalg.cholesky(gls.weights_from_corr(corr, dy)).T
    else:
        L = P['Lsup']
    x = P['x']
    a = implicit.ls_analysis(lambda p, _: P['M']['ref'](p, x), pv, None, yv, L, [m for m, _, _ in spec], [float(v.value) for _, _, v in spec], perr,
                             dy=dy, pfloor=0.1 * P['pscale'])
    if cond_ref is None:
        usable(ctx, a)
    else:
        if not a['posdef'] or a['richardson_disagreement'] > 1e-4 or a['asym'] > 1e-7 or not a['cond_scaled'] < 1e8 or a['cond_scaled'] * a['richardson_disagreement'] > 10.0:
            ctx.count('discarded_reference_unreliable')
            raise Skip()
    cond = a['cond'] if cond_ref is None else cond_ref
    if P['num_grad']:
        smooth_for_numerical_differentiation(ctx, P['name'], pv, x)
    stol = lm_tol(a, cond) if P['method'] == 'Levenberg-Marquardt' else LS_VAL_TOL[P['method']]
    step = np.abs(a['newton']) / a['sigma']
    ctx.ev(k)
    if np.any(step > stol):
        ctx.violation(mech + ':not-stationary', {'what': what, 'newton_step_in_sigma': step, 'tol': stol, 'cond': a['cond']})
    ctx.count('stationarity_judged')
    ctx.close(res.chisquare, a['chi2'], mech + ':chisquare-at-returned-parameters', what, rtol=1e-10, scale=max(1.0, a['chi2']))
    ctx.equal(int(res.dof), n - k + len(spec), mech + ':dof', what)
    ctx.close(res.p_value, gls.chi2_sf(float(res.chisquare), n - k + len(spec)), mech + ':p_value', what, rtol=0.0, atol=1e-13)
    rt = (2e-4 if P['num_grad'] else 1e-8) + 1e-13 * cond
    ins = snaps + [snap(v) for _, _, v in spec]
    errs = list(dy) + perr
    Sref = np.hstack([a['Sy'], a['Sp']])
    nontriv = judge_observables(ctx, res.fit_parameters, ins, errs, Sref, a['sigma'], rt, mech + ':implicit-function', what, Serr=a['S_err'])
    ctx.count('sensitivities_judged')
    return dict(res=res, a=a, pv=pv, Sref=Sref, nontriv=nontriv, rt=rt)


def build_tls(ctx, rng, name, layout=None, n=None):
    M = MODELS[name]
    k, dim = M['k'], M['dim']
    ptrue = np.array(M['ptrue'](rng))
    n = n or k + int(rng.integers(1, 5))
    xt = np.array(M['x'](rng, n), dtype=float)
    return dict(kind='tls', name=name, M=M, k=k, dim=dim, n=n, ptrue=ptrue, xt=xt, layout=layout or str(rng.choice(['separate', 'shared'])),
                guess=ptrue * (1 + 0.03 * rng.normal(size=k)), pscale=np.ones(k), extra_kw={}, num_grad=False, xform='list')


def tls_data(rng, P):
    """Observables for the abscissae and ordinates of a TLS problem description."""
    n, xt = P['n'], P['xt']
    means = np.real(P['M']['ref'](P['ptrue'], xt))
    rel = float(rng.choice([1e-3, 1e-2, 3e-2]))
    relx = float(rng.choice([3e-3, 1e-2, 3e-2]))
    nconf = int(rng.integers(max(40, 8 * n), max(90, 8 * n) + 1))
    perm = [str(e) for e in rng.permutation(ENS_NAMES)] + ['Z%d' % i for i in range(3 * n)]
    shared = P['layout'] == 'shared'
    ys = make_obs_list(rng, means, rel, shared, perm[:n], nconf, 0)
    xs = [make_obs_list(rng, r_, relx, shared, perm[(d_ + 1) * n:(d_ + 2) * n], nconf, 0) for d_, r_ in enumerate(np.atleast_2d(xt))]
    P['xs'], P['ys'] = xs, ys
    P['S'] = analyse(rng, ys + [o_ for row in xs for o_ in row])
    return P


def tls_args(P):
    kw = dict(P['extra_kw'])
    kw['initial_guess'] = [float(v) for v in P['guess']]
    if P['num_grad']:
        kw['num_grad'] = True
    kw.setdefault('silent', True)
    xs = P['xs']
    xarg = list(xs[0]) if P['dim'] == 1 else [list(r) for r in xs]
    if P['xform'] == 'tuple':
        xarg = tuple(xs[0]) if P['dim'] == 1 else tuple(list(r) for r in xs)          # 'a tuple of lists of Obs'
    elif P['xform'] == 'ndarray':
        xarg = np.array(xarg, dtype=object)
    yarg = np.array(list(P['ys']), dtype=object) if P['xform'] == 'ndarray' else list(P['ys'])
    return [xarg, yarg, P['M']['lib'], kw]


def tls_run(a):
    xarg, yarg, f, kw = a
    try:
        return PE.fits.total_least_squares(xarg, yarg, f, **kw)
    except Exception as e:
        if 'did not converge' in str(e) or 'Cannot invert hessian matrix' in str(e):
            return None
        raise


def hard_tls(ctx, P, mech, what, perturb=False, cond_ref=None, args=None):
    k, dim, n, M = P['k'], P['dim'], P['n'], P['M']
    xflat = [o_ for row in P['xs'] for o_ in row]
    xv = np.array([[float(o_.value) for o_ in row] for row in P['xs']])
    dx = np.array([[float(o_.dvalue) for o_ in row] for row in P['xs']])
    if dim == 1:
        xv, dx = xv[0], dx[0]
    yv = np.array([float(o_.value) for o_ in P['ys']])
    dy = np.array([float(o_.dvalue) for o_ in P['ys']])
    args = args if args is not None else tls_args(P)
    res = guarded(ctx, xflat + list(P['ys']), mech, perturb, lambda: tls_run(args), args=args)
    if res is None:
        ctx.count('not_converged:ODR')
        return None
    if not finite_result(ctx, res, mech, what):
        return None
    beta = np.array([float(p.value) for p in res.fit_parameters])
    xplus = np.asarray(res.xplus, dtype=float).reshape(xv.shape)
    a = implicit.tls_analysis(M['ref'], beta, xplus, xv, dx, yv, dy, pfloor=0.1 * P['pscale'])
    if cond_ref is None:
        usable(ctx, a)
    elif not a['posdef'] or a['richardson_disagreement'] > 1e-4 or a['asym'] > 1e-7 or not a['cond_scaled'] < 1e8 or a['cond_scaled'] * a['richardson_disagreement'] > 10.0:
        ctx.count('discarded_reference_unreliable')
        raise Skip()
    cond = a['cond'] if cond_ref is None else cond_ref
    if P['num_grad']:
        smooth_for_numerical_differentiation(ctx, P['name'], beta, xplus)
    step = np.abs(a['newton']) / a['sigma']
    stol = odr_tol(a['chi2'])
    ctx.ev(len(step))
    if np.any(step > stol):
        tag = mech + ':not-stationary'
        if n == k and 'Sum of squares convergence' in ' '.join(str(m_) for m_ in res.message) and a['chi2'] > 1e-6:
            # witness: exactly determined problem (the minimum is chi-square = 0), ODRPACK reports sum-of-squares convergence at a point
            # with chi-square > 0 and a non-zero gradient; restarting ODR from that point reaches the minimum (scipy.odr, not the model)
            tag = 'tls:dof-0:ODR-reports-convergence-away-from-the-minimum'
        ctx.violation(tag, {'what': what, 'newton_step_in_sigma': step, 'tol': stol, 'cond': a['cond'], 'chisquare_at_returned_point': a['chi2'],
                            'message': [str(m_) for m_ in res.message]})
    ctx.count('stationarity_judged')
    ctx.close(res.odr_chisquare, a['chi2'], mech + ':odr_chisquare-at-returned-point', what, rtol=1e-10, scale=max(1.0, a['chi2']))
    ctx.equal(int(res.dof), n - k, mech + ':dof', what)
    ctx.close(res.p_value, gls.chi2_sf(float(res.odr_chisquare), n - k), mech + ':p_value', what, rtol=0.0, atol=1e-13)
    rt = (2e-4 if P['num_grad'] else 1e-8) + 1e-13 * cond
    ins = [snap(o_) for o_ in xflat + list(P['ys'])]
    errs = list(np.asarray(dx).ravel()) + list(dy)
    Sref = np.hstack([a['Sx'][:k], a['Sy'][:k]])
    nontriv = judge_observables(ctx, res.fit_parameters, ins, errs, Sref, a['sigma'][:k], rt, mech + ':implicit-function', what, Serr=a['S_err'][:k])
    ctx.count('sensitivities_judged')
    return dict(res=res, a=a, pv=beta, Sref=Sref, nontriv=nontriv, rt=rt)


def record(res):
    chi = res.chisquare if hasattr(res, 'chisquare') else res.odr_chisquare
    return dict(params=[snap(o) for o in res.fit_parameters], chisquare=float(chi), dof=int(res.dof))


def same_record(ctx, a, b, mech, what, rtol=1e-12):
    ctx.close(a['chisquare'], b['chisquare'], mech + ':chisquare', what, rtol=rtol, scale=max(1.0, abs(b['chisquare'])))
    ctx.equal(a['dof'], b['dof'], mech + ':dof', what)
    for i, (pa, pb) in enumerate(zip(a['params'], b['params'])):
        ctx.close(pa['value'], pb['value'], mech + ':value', '%s p[%d]' % (what, i), rtol=rtol)
        ctx.equal(sorted(pa['chains']), sorted(pb['chains']), mech + ':chain-names', what)
        for c in pa['chains']:
            if c in pb['chains']:
                ctx.close(pa['chains'][c][1], pb['chains'][c][1], mech + ':fluctuations', '%s p[%d] chain %s' % (what, i, c), rtol=rtol)


def clone_obs(rng, o, S):
    """Same chains, same configuration lists, same length, same analysis parameters - other numbers."""
    names = [n_ for n_ in o.names if n_ not in o.cov_names]
    samples = [o.r_values[n_] + rng.permutation(np.asarray(o.deltas[n_])) * float(rng.uniform(0.7, 1.3)) + float(rng.normal()) * o.dvalue for n_ in names]
    c = PE.Obs(samples, names, idl=[o.idl[n_] for n_ in names])
    c.gamma_method(**S[id(o)])
    S[id(c)] = S[id(o)]
    return c


def clone_problem(rng, P):
    Q = dict(P)
    mp = {}

    def cl(o):
        if id(o) not in mp:
            mp[id(o)] = clone_obs(rng, o, P['S'])
        return mp[id(o)]
    Q['ys'] = [cl(v) for v in P['ys']]
    if P['kind'] == 'ls':
        Q['spec'] = [(m, kind, cl(v)) for m, kind, v in P['spec']]
    else:
        Q['xs'] = [[cl(v) for v in row] for row in P['xs']]
    return Q


def run_alias(ctx, idx, rng):
    """Checklist item 4: the same Obs as two data points (least squares), as the abscissa of two points, and as abscissa of one
    point and ordinate of another (total least squares). Contributions must add up."""
    variant = ['ls-same-object-two-points', 'tls-same-x-two-points', 'tls-object-is-x-and-y', 'ls-spectator-parameter'][idx % 4]
    if variant == 'ls-spectator-parameter':
        # checklist item 14: a parameter every call touches (0 * p[m]) but the model ignores; fixed by its prior, in the first / last / a
        # middle slot; sensitivity exactly 0 to every datum, nothing else may change
        name = ['exp2', 'expc', 'cosh', 'rat', 'xy', 'ratxy'][(idx // 4) % 6]
        P = build_ls(ctx, rng, name, method=['Levenberg-Marquardt', 'migrad', 'Levenberg-Marquardt', 'Nelder-Mead'][(idx // 8) % 4],
                     weights=['diag', 'estimated', 'supplied'][(idx // 4) % 3], priors=['none', 'obs'][(idx // 12) % 2])
        k0 = P['k']
        m = [0, k0, int(rng.integers(0, k0 + 1))][(idx // 4) % 3]
        M0 = P['M']
        pick = [i for i in range(k0 + 1) if i != m]
        P['M'] = dict(M0, k=k0 + 1, lib=lambda p, x, M0=M0, pick=pick, m=m: M0['lib']([p[i] for i in pick], x) + 0 * p[m],
                      ref=lambda p, x, M0=M0, pick=pick: M0['ref'](np.asarray(p)[pick], x))
        val = float(rng.uniform(0.5, 2.0))
        err = val * float(rng.uniform(0.05, 0.3))
        po = PE.Obs([val + err * np.sqrt(40) * rng.normal(size=40)], ['prSpect'])
        P['S'].update(analyse(rng, [po]))
        P['spec'] = [(i + (i >= m), kind, v) for i, kind, v in P['spec']] + [(m, 'obs', po)]
        for key, ins in (('ptrue', val), ('guess', val * 1.02), ('pscale', 1.0)):
            P[key] = np.insert(np.asarray(P[key], dtype=float), m, ins)
        P['k'] = k0 + 1
        P['name'] = name + '+spectator'
        out = hard_ls(ctx, P, 'alias:' + variant, '%s %s slot %d' % (variant, name, m), perturb=bool(idx % 2))
        objs = P['ys']
        if out is not None:
            got = out['res'].fit_parameters[m]
            ctx.close(got.value, po.value, 'alias:ls-spectator-parameter:not-equal-to-its-prior', 'slot %d' % m, rtol=0.0,
                      atol=2 * (lm_tol(out['a']) if P['method'] == 'Levenberg-Marquardt' else LS_VAL_TOL[P['method']]) * float(po.dvalue))
            unit = float(po.dvalue) * max(float(np.max(np.abs(d_))) / float(v.dvalue) for v in P['ys'] for d_ in v.deltas.values())
            leak = max([float(np.max(np.abs(got.deltas[n_]))) for n_ in got.deltas if n_ != 'prSpect'] or [0.0]) / unit
            ctx.require(leak <= 1e-8, 'alias:ls-spectator-parameter:depends-on-data', {'slot': m, 'relative_fluctuation': leak})
            ctx.count('spectator_parameters_judged')
    elif variant.startswith('ls'):
        name = ['exp2', 'expc', 'cosh', 'rat', 'xy', 'ratxy'][(idx // 4) % 6]
        P = build_ls(ctx, rng, name, method=['Levenberg-Marquardt', 'migrad'][(idx // 8) % 2], weights=['diag', 'supplied'][(idx // 4) % 2],
                     priors=['none', 'obs'][(idx // 16) % 2], near_duplicate=True)
        out = hard_ls(ctx, P, 'alias:' + variant, '%s %s' % (variant, name), perturb=bool(idx % 2))
        objs = P['ys']
    else:
        name = ['exp2', 'expc', 'cosh', 'rat'][(idx // 4) % 4]
        P = build_tls(ctx, rng, name)
        n, xt = P['n'], P['xt']
        i, j = [int(v) for v in rng.choice(n, size=2, replace=False)]
        if variant == 'tls-same-x-two-points':
            xt[j] = xt[i]
            tls_data(rng, P)
            P['xs'][0][j] = P['xs'][0][i]
        else:
            # abscissa i takes the value of ordinate j, so that one object can play both roles
            target = float(np.real(P['M']['ref'](P['ptrue'], xt))[j])
            lo, hi = (0.0, 6.0) if name == 'cosh' else (0.2, 6.0)
            if not lo <= target <= hi or abs(target - xt[j]) < 1e-3:
                raise Skip()
            xt[i] = target
            tls_data(rng, P)
            P['ys'][j] = P['xs'][0][i]
        out = hard_tls(ctx, P, 'alias:' + variant, '%s %s %s' % (variant, name, P['layout']), perturb=bool(idx % 2))
        objs = [o_ for row in P['xs'] for o_ in row] + list(P['ys'])
    if out is None:
        raise Skip()
    ctx.cell('alias', variant, name)
    ctx.count('alias_cases_judged')
    if out['nontriv'] and P['k'] >= 2:
        ctx.nontrivial.add(digest([obs_digest(v) for v in objs], variant, name))
    ctx.sample({'alias': variant, 'model': name, 'slots': len(objs), 'distinct_objects': len(unique(objs)), 'returned_p': out['pv']})


def run_history(ctx, idx, rng):
    """Checklist items 3, 5, 7: problems A and B agree in shapes, abscissae, ensemble names, configuration lists and options and differ
    in the numbers only; fitted A, B, A (or B, A, B) in one process, each judged, the repetition must reproduce the first result and the
    first result object must not change when the other problem is fitted."""
    tls = idx % 3 == 2
    if tls:
        name = ['exp2', 'expc', 'cosh', 'xy'][(idx // 3) % 4]
        A = tls_data(rng, build_tls(ctx, rng, name))
        A['num_grad'] = (idx // 12) % 3 == 2
    else:
        name = ['exp2', 'expc', 'cosh', 'rat', 'xy', 'ratxy'][(idx // 3) % 6]
        A = build_ls(ctx, rng, name, method=['Levenberg-Marquardt', 'migrad', 'Levenberg-Marquardt', 'Nelder-Mead'][(idx // 2) % 4],
                     weights=['diag', 'estimated', 'supplied'][(idx // 6) % 3], priors=['none', 'obs'][(idx // 18) % 2], num_grad=(idx // 4) % 4 == 3)
    B = clone_problem(rng, A)
    engine = hard_tls if tls else hard_ls
    order = [('A', A), ('B', B), ('A', A)] if idx % 2 == 0 else [('B', B), ('A', A), ('B', B)]
    what = 'history %s %s' % ('total_least_squares' if tls else 'least_squares', name)
    first = None
    for step, (nm, P) in enumerate(order):
        out = engine(ctx, P, 'history:%d' % step, '%s step %d (%s)' % (what, step, nm), perturb=(step == 1))
        if out is None:
            raise Skip()
        if step == 0:
            first = (out['res'], record(out['res']))
        elif step == 1:
            same_record(ctx, record(first[0]), first[1], 'history:earlier-result-changed-by-later-fit', what, rtol=1e-15)
        else:
            same_record(ctx, record(out['res']), first[1], 'history:refit-after-other-data-differs', what, rtol=1e-12)
    ctx.cell('history', 'tls' if tls else 'ls', name)
    ctx.count('histories_judged')
    if A['k'] >= 2:
        ctx.nontrivial.add(digest([obs_digest(v) for v in A['ys']], [obs_digest(v) for v in B['ys']], name, tls))
    ctx.sample({'history': [n_ for n_, _ in order], 'fit': 'total_least_squares' if tls else 'least_squares', 'model': name})


SCALES = [1e-8, 1e-4, 1e-2, 1e2, 1e4, 1e8]


def scaled_problem(P, c):
    """y (and the priors on the amplitudes) times c; the amplitudes scale with c, the other parameters do not."""
    Q = dict(P)
    S = P['S']

    def sc(o):
        w = o * c
        w.gamma_method(**S[id(o)])
        S[id(w)] = S[id(o)]
        return w
    amp = AMP[P['name']]
    Q['ys'] = [sc(v) for v in P['ys']]
    ps = np.ones(P['k'])
    ps[amp] = c
    Q['pscale'] = ps
    Q['guess'] = P['guess'] * ps
    Q['ptrue'] = P['ptrue'] * ps
    if P['kind'] == 'ls':
        Q['spec'] = [(m, kind, sc(v) if m in amp else v) for m, kind, v in P['spec']]
        if P['Lsup'] is not None:
            Q['Lsup'] = P['Lsup'] / c
    return Q


def run_scale(ctx, idx, rng):
    """Checklist item 6: a change of the units of y. chi-square, dof and p-value must not change, amplitudes and their fluctuations scale,
    the other parameters stay; all tolerances are in units of the parameter errors."""
    c = SCALES[idx % 6]
    tls = (idx // 6) % 3 == 2
    names = sorted(AMP)
    name = names[(idx // 18) % len(names)]
    # Powell for small and num_grad for large units are judged (and fire) in C07's sweep: same code path, not repeated here
    num_grad = (idx // 7) % 3 == 2 and c <= 1e2
    if tls:
        P = tls_data(rng, build_tls(ctx, rng, name))
        P['num_grad'] = num_grad
        engine = hard_tls
    else:
        P = build_ls(ctx, rng, name, method=['Levenberg-Marquardt', 'migrad', 'Levenberg-Marquardt', 'Nelder-Mead'][(idx // 6) % 4],
                     weights=['diag', 'estimated', 'supplied'][(idx // 36) % 3], priors=['none', 'obs'][(idx // 12) % 2], num_grad=num_grad)
        engine = hard_ls
    what = 'scale %g %s %s' % (c, 'tls' if tls else P['method'][:2], name)
    u = engine(ctx, P, 'scale:unit', what + ' unit')
    if u is None:
        raise Skip()
    Q = scaled_problem(P, c)
    v = engine(ctx, Q, 'scale:scaled', what + ' scaled', cond_ref=u['a']['cond'])
    if v is None:
        raise Skip()
    ps = Q['pscale']
    k = P['k']
    sig = u['a']['sigma'][:k]
    vt = 2 * (odr_tol(u['a']['chi2']) if tls else (lm_tol(u['a']) if P['method'] == 'Levenberg-Marquardt' else LS_VAL_TOL[P['method']]))
    d = np.abs(v['pv'] / ps - u['pv']) / sig
    ctx.ev(k)
    if np.any(d > vt):
        ctx.violation('scale:not-covariant:value', {'what': what, 'difference_in_sigma': d, 'tol': vt})
    cu = u['res'].odr_chisquare if tls else u['res'].chisquare
    cv = v['res'].odr_chisquare if tls else v['res'].chisquare
    ctx.close(cv, cu, 'scale:not-covariant:chisquare', what, rtol=1e-5 if (tls or P['method'] != 'Levenberg-Marquardt') else 1e-8, scale=max(1.0, float(cu)))
    ctx.equal(int(v['res'].dof), int(u['res'].dof), 'scale:not-covariant:dof', what)
    ctx.cell('scale', '%g' % c, 'tls' if tls else P['method'][:2])
    ctx.count('scale_pairs_judged')
    if k >= 2:
        ctx.nontrivial.add(digest([obs_digest(o_) for o_ in P['ys']], c, name, tls))
    ctx.sample({'scale': c, 'model': name, 'fit': 'tls' if tls else 'ls', 'unit_p': u['pv'], 'scaled_p_over_units': v['pv'] / ps, 'chi2': [float(cu), float(cv)]})


def run_options(ctx, idx, rng):
    """Checklist items 1 and 2: other containers for x and y, output switched on, expected_chisquare, tighter tol: the numbers stay."""
    # the two variants with a judgement of their own (attribute present, tol forwarded) are drawn five times as often (item 13)
    variant = (['tls-tuple', 'tls-ndarray', 'ls-tuple', 'ls-list', 'tls-verbose', 'ls-same-arguments-twice', 'tls-same-arguments-twice']
               + 5 * ['tls-expected-chisquare'] + 5 * ['ls-tol'])[idx % 17]
    tls = variant.startswith('tls')
    if tls:
        name = ['exp2', 'xy', 'cosh', 'ratxy'][(idx // 9) % 4]
        P = tls_data(rng, build_tls(ctx, rng, name))
        engine = hard_tls
    else:
        name = ['exp2', 'xy', 'rat', 'ratxy', 'expc'][(idx // 9) % 5]
        P = build_ls(ctx, rng, name, method=['migrad', 'Nelder-Mead', 'Powell'][(idx // 9) % 3] if variant == 'ls-tol' else 'Levenberg-Marquardt',
                     weights=['diag', 'estimated', 'supplied'][(idx // 18) % 3], priors=['none', 'obs'][(idx // 9) % 2])
        engine = hard_ls
    what = 'options %s %s' % (variant, name)
    twice = variant.endswith('same-arguments-twice')
    shared_args = (tls_args(P) if tls else ls_args(P)) if twice else None      # checklist item 15: the same argument objects in two calls
    base = engine(ctx, P, 'options:base', what + ' base', args=shared_args)
    if base is None:
        raise Skip()
    Q = dict(P)
    Q['extra_kw'] = dict(P['extra_kw'])
    if variant in ('tls-tuple', 'ls-tuple'):
        Q['xform'] = 'tuple'
    elif variant == 'tls-ndarray':
        Q['xform'] = 'ndarray'
    elif variant == 'ls-list':
        Q['xform'] = 'list'
    elif variant == 'tls-expected-chisquare':
        Q['extra_kw'].update(expected_chisquare=True, silent=False)
    elif variant == 'tls-verbose':
        Q['extra_kw'].update(silent=False)
    elif variant == 'ls-tol':
        Q['extra_kw'].update(tol=1e-6 if P['method'] == 'migrad' else 1e-13)
    var = engine(ctx, Q, 'options:' + variant, what, args=shared_args)
    if var is None:
        raise Skip()
    if variant == 'ls-tol':
        d = np.abs(var['pv'] - base['pv']) / base['a']['sigma'][:P['k']]
        ctx.require(np.all(d <= 2 * LS_VAL_TOL[P['method']]), 'options:tol-changes-result', {'what': what, 'difference_in_sigma': d})
    else:
        same_record(ctx, record(var['res']), record(base['res']), 'options:%s-changes-result' % variant, what, rtol=1e-12)
    if variant == 'tls-expected-chisquare':
        ctx.require(hasattr(var['res'], 'chisquare_by_expected_chisquare'), 'options:expected-chisquare-missing', what)
    ctx.cell('options', variant, name)
    ctx.count('options_judged')
    if P['k'] >= 2:
        ctx.nontrivial.add(digest([obs_digest(o_) for o_ in P['ys']], variant, name))


def run_boundary(ctx, idx, rng):
    """Checklist item 9: as many points as parameters (dof 0, chi-square 0, undefined p-value) and one point more."""
    tls = idx % 2 == 1
    extra = (idx // 2) % 2
    if tls:
        name = ['exp2', 'exp1', 'cosh', 'ratxy'][(idx // 4) % 4]
        k = MODELS[name]['k']
        P = tls_data(rng, build_tls(ctx, rng, name, n=k + extra))
        out = hard_tls(ctx, P, 'boundary', 'boundary tls %s n=k+%d' % (name, extra))
    else:
        name = ['exp2', 'exp1', 'expc', 'cosh', 'rat', 'xy'][(idx // 4) % 6]
        k = MODELS[name]['k']
        P = build_ls(ctx, rng, name, n=k + extra, weights=['diag', 'supplied'][(idx // 8) % 2])
        out = hard_ls(ctx, P, 'boundary', 'boundary ls %s n=k+%d' % (name, extra))
    if out is None:
        raise Skip()
    if extra == 0:
        ctx.require(np.isnan(out['res'].p_value), 'boundary:p-value-defined-for-zero-dof', {'p_value': out['res'].p_value})
    ctx.cell('boundary', 'tls' if tls else 'ls', 'n=k+%d' % extra)
    ctx.count('boundary_cases_judged')
    ctx.nontrivial.add(digest([obs_digest(o_) for o_ in P['ys']], name, extra, tls))



# ------------------------------------------------------------------------------------------
# third hardening pass: result interface and printing, the `covariance` keyword, functions outside autograd.numpy, rejections,
# degenerate values, copies
def star_args(M):
    """The model written as f(p, x) = g(x, *p) with a fixed number of positional parameters: probing it with too few / too many
    parameters raises TypeError (the other branch of the library's count of the parameters)."""
    k = M['k']
    src = 'lambda x, %s: body([%s], x)' % (', '.join('a%d' % i for i in range(k)), ', '.join('a%d' % i for i in range(k)))
    g = eval(src, {'body': M['lib']})
    return dict(M, lib=lambda p, x: g(x, *p))


def variance_at_window_zero(o):
    sn = snap(o)
    tot, ens = 0.0, {}
    for n, (idl, d, _) in sn['chains'].items():
        e = n.split('|')[0]
        a_, b_ = ens.get(e, (0.0, 0))
        ens[e] = (a_ + float(np.sum(np.asarray(d) ** 2)), b_ + len(idl))
    for a_, b_ in ens.values():
        tot += a_ / (b_ * (b_ - 1.0))
    for n, (cov, g) in sn['cov'].items():
        tot += float(np.asarray(g) @ np.atleast_2d(cov) @ np.asarray(g))
    return tot


def judge_interface(ctx, res, k, what, tls):
    import re
    ctx.equal(len(res), k, 'Fit_result:len', what)
    ctx.require(all(res[i] is res.fit_parameters[i] for i in range(k)) and [id(v) for v in res] == [id(v) for v in res.fit_parameters], 'Fit_result:indexing', what)
    for v in res.fit_parameters:
        v._dvalue = -1.0
    res.gamma_method(S=0)
    for i, v in enumerate(res.fit_parameters):
        ctx.close(v.dvalue, np.sqrt(variance_at_window_zero(v)), 'Fit_result:gamma_method', '%s p[%d]' % (what, i), rtol=1e-10, atol=1e-300)
    text = str(res)
    lines = text.splitlines()

    def printed(label):
        m = [ln for ln in lines if ln.startswith(label)]
        return float(m[0].split('=')[1]) if len(m) == 1 else None
    if tls:
        got = printed('residual variance')
        ctx.require(got is not None and abs(got - float(res.residual_variance)) <= 0.51e-6 + 1e-12 * abs(got), 'Fit_result:str:residual_variance', {'printed': got, 'attribute': float(res.residual_variance)})
    elif int(res.dof) > 0:
        got = printed('χ²/d.o.f.')
        ctx.require(got is not None and abs(got - float(res.chisquare_by_dof)) <= 0.51e-6 + 1e-12 * abs(got), 'Fit_result:str:chisquare_by_dof', {'printed': got, 'attribute': float(res.chisquare_by_dof)})
    if int(res.dof) > 0:
        got = printed('p-value')
        ctx.require(got is not None and abs(got - float(res.p_value)) <= 0.51e-4, 'Fit_result:str:p_value', {'printed': got, 'attribute': float(res.p_value)})
    if hasattr(res, 'chisquare_by_expected_chisquare'):
        got = printed('χ²/χ²exp')
        ctx.require(got is not None and abs(got - float(res.chisquare_by_expected_chisquare)) <= 0.51e-6 + 1e-12 * abs(got), 'Fit_result:str:chisquare_by_expected_chisquare',
                    {'printed': got, 'attribute': float(res.chisquare_by_expected_chisquare)})
    at = lines.index('Fit parameters:') if 'Fit parameters:' in lines else None
    ok = at is not None and len(lines) - at - 1 == k
    if ok:
        for i in range(k):
            m = re.match(r'^(\d+)\t\s*(\S+)', lines[at + 1 + i])
            ok &= bool(m) and int(m.group(1)) == i
            if ok:
                v = float(m.group(2).split('(')[0])
                ok &= abs(v - float(res[i].value)) <= max(2.0 * float(res[i].dvalue), 1e-12 * abs(v))
    ctx.require(ok, 'Fit_result:str:parameter-lines', text)
    rp = repr(res)
    ctx.require(all(('%s: ' % key) in rp for key in (('odr_chisquare', 'residual_variance', 'xplus') if tls else ('chisquare', 'chisquare_by_dof')) + ('dof', 'p_value', 'fit_parameters', 'method')),
                'Fit_result:repr', rp[:400])
    ctx.count('result_interfaces_judged')


def run_interface(ctx, idx, rng):
    """Fit_result as a sequence, its gamma_method, the numbers in str() / repr(); models written as g(x, *p); for total least squares the
    `covariance` keyword of expected_chisquare (the same matrix explicitly, twice the matrix, minus the matrix)."""
    tls = idx % 2 == 1
    if tls:
        name = ['exp2', 'expc', 'cosh', 'xy', 'ratxy'][(idx // 2) % 5]
        P = tls_data(rng, build_tls(ctx, rng, name))
        if (idx // 2) % 2 == 0:
            P['M'] = star_args(P['M'])
        P['extra_kw'] = {'expected_chisquare': True, 'silent': bool(idx % 4 == 1)}
        try:
            out = hard_tls(ctx, P, 'interface', 'interface tls %s' % name)
        except TypeError as e:
            ctx.ev()
            ctx.violation('interface:function-with-positional-parameters-refused', {'message': str(e)[:200], 'fit': 'total_least_squares'})
            return
        if out is None:
            raise Skip()
        res = out['res']
        judge_interface(ctx, res, P['k'], 'tls ' + name, True)
        # `covariance` keyword: the matrix the library would estimate itself, handed over explicitly / doubled / with the opposite sign
        xflat = [o_ for row in P['xs'] for o_ in row]
        cov = PE.covariance(np.concatenate((np.array(P['ys'], dtype=object), np.array(xflat, dtype=object))))
        base = float(res.chisquare_by_expected_chisquare)
        for fac, exp, label in ((1.0, base, 'same-matrix'), (2.0, base / 2.0, 'doubled-matrix'), (-1.0, base, 'negated-matrix')):
            Q = dict(P, extra_kw={'expected_chisquare': True, 'covariance': fac * cov})
            r2 = tls_run(tls_args(Q))
            if r2 is None:
                continue
            ctx.close(r2.chisquare_by_expected_chisquare, exp, 'tls:expected-chisquare:covariance-keyword:' + label, name, rtol=1e-9)
            ctx.close([float(v.value) for v in r2.fit_parameters], [float(v.value) for v in res.fit_parameters], 'tls:expected-chisquare:covariance-keyword:changes-fit', name, rtol=1e-12)
            ctx.count('covariance_keyword_judged')
    else:
        name = ['exp2', 'expc', 'cosh', 'rat', 'xy', 'ratxy'][(idx // 2) % 6]
        P = build_ls(ctx, rng, name, weights=['diag', 'estimated', 'supplied'][(idx // 4) % 3], priors=['none', 'obs'][(idx // 12) % 2])
        if (idx // 2) % 2 == 0:
            P['M'] = star_args(P['M'])
        if P['weights'] == 'diag' and not P['spec']:
            P['extra_kw'] = {'expected_chisquare': True}
        try:
            out = hard_ls(ctx, P, 'interface', 'interface ls %s' % name)
        except TypeError as e:
            ctx.ev()
            ctx.violation('interface:function-with-positional-parameters-refused', {'message': str(e)[:200], 'fit': 'least_squares'})
            return
        if out is None:
            raise Skip()
        judge_interface(ctx, out['res'], P['k'], 'ls ' + name, False)
    ctx.cell('interface', 'tls' if tls else 'ls', name)
    if out['nontriv'] and P['k'] >= 2:
        ctx.nontrivial.add(digest([obs_digest(o_) for o_ in P['ys']], name, tls, 'interface'))


def bessel_model():
    """a K0(b x): scipy.special is not part of autograd.numpy - automatic differentiation is refused (documented), num_grad works."""
    import scipy.special as sp
    return dict(k=2, dim=1, lib=lambda p, x: p[0] * sp.k0(p[1] * x), ref=lambda p, x: p[0] * sp.kv(0, p[1] * x),
                ptrue=lambda rng: [float(rng.uniform(1, 3)), float(rng.uniform(0.3, 0.9))], x=lambda rng, n: np.sort(rng.uniform(0.4, 3.0, n)))


def expect_rejection(ctx, row, exc_types, call, inputs, message=None):
    before = [analysis_digest(v) for v in inputs]
    try:
        out = call()
    except exc_types as e:
        ctx.require(message is None or message in str(e), 'rejection:%s:other-message' % row, {'message': str(e)[:200], 'expected': message})
    except Exception as e:
        ctx.ev()
        ctx.violation('rejection:%s:other-exception' % row, {'raised': type(e).__name__, 'message': str(e)[:200]})
    else:
        ctx.ev()
        ctx.violation('rejection:%s:accepted' % row, {'returned': type(out).__name__})
    ctx.require(before == [analysis_digest(v) for v in inputs], 'rejection:%s:inputs-changed' % row, None)
    ctx.count('rejections_judged')
    ctx.count('judged:rejection:' + row)


def run_rejection(ctx, idx, rng):
    """Functions outside autograd.numpy (refused with the documented message by automatic differentiation, fitted and judged with
    num_grad=True) and the rejections of total_least_squares, each next to its valid twin."""
    rows = ['ls-function-outside-autograd', 'tls-function-outside-autograd', 'tls-func-not-callable', 'tls-x-without-error', 'tls-y-without-error',
            'tls-initial-guess-wrong-length', 'tls-function-not-differentiable-by-autograd']
    row = rows[idx % len(rows)]
    pe = PE
    if row == 'tls-function-not-differentiable-by-autograd':
        # float(p[0]) passes the count of the parameters and the minimiser but cannot be traced: automatic differentiation must refuse with
        # the documented message, numerical differentiation fits (valid twin, judged)
        MODELS['lin-float'] = dict(k=2, dim=1, lib=lambda p, x: float(p[0]) * x + p[1], ref=lambda p, x: p[0] * x + p[1],
                                   ptrue=lambda rng_: [float(rng_.uniform(0.5, 2)), float(rng_.uniform(-1, 1))], x=lambda rng_, n: np.sort(rng_.uniform(0.5, 5.0, n)))
        try:
            P = tls_data(rng, build_tls(ctx, rng, 'lin-float'))
            P['num_grad'] = True
            out = hard_tls(ctx, P, 'rejection:valid-twin', 'float(p[0]) x + p[1] with num_grad')
            if out is not None:
                a_ = tls_args(dict(P, num_grad=False))
                expect_rejection(ctx, row, (Exception,), lambda: pe.fits.total_least_squares(a_[0], a_[1], a_[2], **a_[3]),
                                 [o_ for r_ in P['xs'] for o_ in r_] + list(P['ys']), 'It is required to use autograd.numpy')
                ctx.count('functions_outside_autograd_judged_with_num_grad')
        finally:
            MODELS.pop('lin-float', None)
    elif row.endswith('outside-autograd'):
        MODELS['bessel'] = bessel_model()
        try:
            tls = row.startswith('tls')
            if tls:
                # total_least_squares counts the parameters by calling the function on the abscissa observables: a function from
                # scipy.special cannot be evaluated there for any number of parameters - refused as 'not valid', with or without num_grad
                P = tls_data(rng, build_tls(ctx, rng, 'bessel'))
                P['num_grad'] = bool((idx // 6) % 2)
                a_ = tls_args(P)
                expect_rejection(ctx, row, (RuntimeError,), lambda: PE.fits.total_least_squares(a_[0], a_[1], a_[2], **a_[3]),
                                 [o_ for r_ in P['xs'] for o_ in r_] + list(P['ys']), 'Fit function is not valid')
                out = None
            else:
                P = build_ls(ctx, rng, 'bessel', weights=['diag', 'estimated'][(idx // 6) % 2])
                P['num_grad'] = True
                out = hard_ls(ctx, P, 'rejection:valid-twin', 'a K0(b x) with num_grad, least squares')
                Q = dict(P, num_grad=False)
                if out is not None:
                    a_ = ls_args(Q)
                    expect_rejection(ctx, row, (Exception,), lambda: PE.fits.least_squares(a_[0], a_[1], a_[2], priors=a_[3], **a_[4]), list(P['ys']),
                                     'It is required to use autograd.numpy')
        finally:
            MODELS.pop('bessel', None)
        if out is not None:
            ctx.count('functions_outside_autograd_judged_with_num_grad')
    else:
        name = ['exp2', 'xy', 'cosh'][(idx // len(rows)) % 3]
        P = tls_data(rng, build_tls(ctx, rng, name))
        out = hard_tls(ctx, P, 'rejection:valid-twin', 'valid twin of ' + row)
        if out is None:
            raise Skip()
        xarg, yarg, f, kw = tls_args(P)
        inputs = [o_ for r_ in P['xs'] for o_ in r_] + list(P['ys'])

        def fresh(v):
            return pe.Obs([v.deltas[n] + v.r_values[n] for n in v.names], list(v.names), idl=[v.idl[n] for n in v.names])
        if row == 'tls-func-not-callable':
            expect_rejection(ctx, row, (TypeError,), lambda: pe.fits.total_least_squares(xarg, yarg, 'f', **kw), inputs, 'func has to be a function')
        elif row == 'tls-x-without-error':
            x2 = [fresh(xarg[0])] + list(xarg[1:]) if P['dim'] == 1 else [[fresh(xarg[0][0])] + list(xarg[0][1:])] + [list(r_) for r_ in xarg[1:]]
            expect_rejection(ctx, row, (Exception,), lambda: pe.fits.total_least_squares(x2, yarg, f, **kw), inputs, 'No x errors available')
        elif row == 'tls-y-without-error':
            y2 = list(yarg[:-1]) + [fresh(yarg[-1])]
            expect_rejection(ctx, row, (Exception,), lambda: pe.fits.total_least_squares(xarg, y2, f, **kw), inputs, 'No y errors available')
        else:
            kw2 = dict(kw, initial_guess=list(kw['initial_guess']) + [1.0] if idx % 2 else list(kw['initial_guess'])[:-1])
            expect_rejection(ctx, row, (Exception,), lambda: pe.fits.total_least_squares(xarg, yarg, f, **kw2), inputs, 'Initial guess does not have the correct length')
    ctx.cell('rejection', row)


def run_degenerate(ctx, idx, rng):
    """Checklist items 16 / 17: the first ordinate / abscissa exactly 0.0 with non-zero fluctuations, falsy but valid options, and a copy
    of a data point (equal for the library's ==, another object, optionally shifted by 1e-12) next to the original."""
    variant = ['ls-first-y-exactly-zero', 'tls-first-x-exactly-zero', 'tls-first-y-exactly-zero', 'ls-copy-next-to-original', 'ls-falsy-options'][idx % 5]
    S_ = None
    if variant == 'ls-first-y-exactly-zero':
        # a e^(-b x) + c with c chosen such that the model vanishes at the first point
        P = build_ls(ctx, rng, 'expc', method=['Levenberg-Marquardt', 'migrad'][(idx // 5) % 2], weights=['diag', 'estimated', 'supplied'][(idx // 10) % 3])
        # rebuild the data around the shifted constant
        x = P['x']
        pt = P['ptrue'].copy()
        pt[2] = -pt[0] * np.exp(-pt[1] * x[0])
        shift = pt[2] - P['ptrue'][2]
        S_ = P['S']
        new = []
        for v in P['ys']:
            w = v + shift
            w.gamma_method(**S_[id(v)])
            S_[id(w)] = S_[id(v)]
            new.append(w)
        z = new[0] - new[0].value
        z.gamma_method(**S_[id(new[0])])
        S_[id(z)] = S_[id(new[0])]
        new[0] = z
        P['ys'], P['ptrue'], P['guess'] = new, pt, pt * (1 + 0.02 * rng.normal(size=3))
        out = hard_ls(ctx, P, 'degenerate:' + variant, variant)
        first = P['ys'][0]
    elif variant.startswith('tls'):
        name = 'expc' if variant == 'tls-first-y-exactly-zero' else ['exp2', 'expc', 'xy'][(idx // 5) % 3]
        P = build_tls(ctx, rng, name)
        if variant == 'tls-first-x-exactly-zero':
            if P['dim'] == 1:
                P['xt'][0] = 0.0
            else:
                P['xt'][0][0] = 0.0
        tls_data(rng, P)
        S_ = P['S']
        if variant == 'tls-first-x-exactly-zero':
            v = P['xs'][0][0]
        else:
            v = P['ys'][0]
        z = v - v.value
        z.gamma_method(**S_[id(v)])
        S_[id(z)] = S_[id(v)]
        if variant == 'tls-first-x-exactly-zero':
            P['xs'][0][0] = z
        else:
            if name != 'expc':
                raise Skip()
            # move all ordinates so that the model vanishes at the first point (c = -a e^(-b x0))
            pt = P['ptrue'].copy()
            pt[2] = -pt[0] * np.exp(-pt[1] * np.atleast_2d(P['xt'])[0][0])
            shift = pt[2] - P['ptrue'][2]
            new = []
            for w0 in P['ys']:
                w = w0 + shift
                w.gamma_method(**S_[id(w0)])
                S_[id(w)] = S_[id(w0)]
                new.append(w)
            z = new[0] - new[0].value
            z.gamma_method(**S_[id(new[0])])
            S_[id(z)] = S_[id(new[0])]
            new[0] = z
            P['ys'], P['ptrue'], P['guess'] = new, pt, pt * (1 + 0.02 * rng.normal(size=3))
        out = hard_tls(ctx, P, 'degenerate:' + variant, '%s %s' % (variant, name))
        first = z
    elif variant == 'ls-copy-next-to-original':
        name = ['exp2', 'expc', 'cosh', 'xy'][(idx // 5) % 4]
        P = build_ls(ctx, rng, name, weights=['diag', 'supplied'][(idx // 20) % 2], near_duplicate=True)
        ys = P['ys']
        dup = [(i, j) for i in range(len(ys)) for j in range(i + 1, len(ys)) if ys[i] is ys[j]]
        if not dup:
            raise Skip()
        i, j = dup[0]
        v = ys[i]
        c = PE.Obs([v.deltas[n] + v.r_values[n] + ((idx // 10) % 2) * 1e-12 * abs(v.value) for n in v.names], list(v.names), idl=[v.idl[n] for n in v.names])
        c.tag = 'copy'
        c.gamma_method(**P['S'][id(v)])
        P['S'][id(c)] = P['S'][id(v)]
        ys[j] = c
        out = hard_ls(ctx, P, 'degenerate:' + variant, '%s %s' % (variant, name))
        first = c
    else:
        name = ['exp2', 'cosh', 'rat'][(idx // 5) % 3]
        P = build_ls(ctx, rng, name, weights=['diag', 'estimated'][(idx // 15) % 2])
        P['extra_kw'] = dict(correlated_fit=(P['weights'] != 'diag'), num_grad=False, expected_chisquare=False, resplot=False, qqplot=False, silent=0)
        out = hard_ls(ctx, P, 'degenerate:' + variant, '%s %s' % (variant, name))
        first = P['ys'][0]
    if out is None:
        raise Skip()
    if 'exactly-zero' in variant:
        ctx.require(float(first.value) == 0.0 and float(first.dvalue) > 0, 'degenerate:harness-zero-not-exact', None)
        ctx.require(all(np.isfinite(float(v.value)) and all(np.all(np.isfinite(d_)) for d_ in v.deltas.values()) and all(np.isfinite(float(r_)) for r_ in v.r_values.values())
                        for v in out['res'].fit_parameters), 'degenerate:zero-central-value:non-finite-result', variant)
    ctx.cell('degenerate', variant)
    ctx.count('degenerate_cases_judged')
    if out['nontriv'] and P['k'] >= 2:
        ctx.nontrivial.add(digest([obs_digest(o_) for o_ in P['ys']], variant))



def run_fit_lin(ctx, idx, rng):
    """fit_lin dispatches on the type of x: numbers -> least_squares, observables -> total_least_squares (same results as the
    direct calls with the model n + m x, which the other kinds judge); a mixture is refused."""
    pe = PE
    n = int(rng.integers(3, 9))
    xt = np.sort(rng.uniform(0.5, 5.0, n))
    pt = [float(rng.uniform(0.5, 2)), float(rng.uniform(-1, 1))]
    names = [str(e) for e in rng.permutation(ENS_NAMES)]
    shared = bool(rng.integers(0, 2))
    ys = make_obs_list(rng, pt[0] + pt[1] * xt, float(rng.choice([1e-3, 1e-2, 3e-2])), shared, names[:n], 50, 0)
    analyse(rng, ys)
    f = lambda a, x: a[0] + a[1] * x
    mode = ['float-list', 'ndarray', 'int-list', 'obs', 'obs', 'mixed'][idx % 6]
    ctx.cell('fit_lin', mode, 'shared' if shared else 'indep')
    if mode == 'obs':
        xs = make_obs_list(rng, xt, float(rng.choice([3e-3, 1e-2])), shared, names[n:2 * n], 50, 0)
        analyse(rng, xs)
        got = pe.fits.fit_lin(xs, ys, silent=True)
        ref = pe.fits.total_least_squares(xs, ys, f, silent=True).fit_parameters
    elif mode == 'mixed':
        xs = make_obs_list(rng, xt, 1e-2, shared, names[n:2 * n], 50, 0)
        analyse(rng, xs)
        xm = list(xs)
        xm[int(rng.integers(0, n))] = float(xt[0])
        try:
            pe.fits.fit_lin(xm, ys, silent=True)
        except TypeError:
            ctx.ev()
            ctx.count('fit_lin_judged')
            return
        ctx.ev()
        ctx.violation('fit_lin:mixed-x-accepted', {'x_types': [type(v).__name__ for v in xm]})
        return
    else:
        if mode == 'int-list':
            xarg = [int(v) for v in range(1, n + 1)]
            ys = make_obs_list(rng, pt[0] + pt[1] * np.arange(1, n + 1), 1e-2, shared, names[:n], 50, 0)
            analyse(rng, ys)
        else:
            xarg = xt if mode == 'ndarray' else [float(v) for v in xt]
        got = pe.fits.fit_lin(xarg, ys, silent=True)
        ref = pe.fits.least_squares(xarg, ys, f, silent=True).fit_parameters
    ctx.equal(len(got), 2, 'fit_lin:number-of-results', mode)
    for k_, (g_, r_) in enumerate(zip(got, ref)):
        ctx.close(g_.value, r_.value, 'fit_lin:%s:value' % ('total_least_squares' if mode == 'obs' else 'least_squares'), '%s p[%d]' % (mode, k_), rtol=1e-12)
        sg, sr = snap(g_), snap(r_)
        ctx.equal(sorted(sg['chains']), sorted(sr['chains']), 'fit_lin:chain-names', mode)
        for c in sr['chains']:
            if c in sg['chains']:
                ctx.close(sg['chains'][c][1], sr['chains'][c][1], 'fit_lin:%s:fluctuations' % ('total_least_squares' if mode == 'obs' else 'least_squares'),
                          '%s p[%d] chain %s' % (mode, k_, c), rtol=1e-10)
    ctx.count('fit_lin_judged')
    ctx.nontrivial.add(digest([obs_digest(y) for y in ys], mode))


def run_case(ctx, kind, idx, rng):
    if kind == 'fit_lin':
        try:
            return run_fit_lin(ctx, idx, rng)
        except Exception as e:
            if type(e) is Exception and 'did not converge' in str(e):
                ctx.count('not_converged:fit_lin')
                raise Skip() from None
            raise
    hard = {'alias': run_alias, 'history': run_history, 'scale': run_scale, 'options': run_options, 'boundary': run_boundary,
            'spectator': lambda c_, i_, r_: run_alias(c_, 4 * i_ + 3, r_), 'interface': run_interface, 'rejection': run_rejection, 'degenerate': run_degenerate}
    if kind in hard:
        return hard[kind](ctx, idx, rng)
    if kind == 'ls':
        run_ls(ctx, idx, rng)
    elif kind == 'tls':
        run_tls(ctx, idx, rng)
    else:
        run_tls_limit(ctx, idx, rng)
