"""C03 - the error analysis is invariant under relabelling, rescaling and call history.

  * trace checker over every gamma_method call (tap): T1 data digest unchanged, T2 results are a
    function of (data digest, effective parameters, fft), T3 stored parameters follow the precedence
    rule, T4 finiteness / signs / tau_int >= 1/2;
  * metamorphic pairs: fft on/off, i -> a*i+b, replica renaming / argument permutation, + const, * c;
  * histories over a pool of objects with a shadow model of the class-level parameter state; every
    analysis is also judged by the C02 reference; derived objects from analysed vs fresh twins.
"""
import math
import copy

import numpy as np

from .. import taps, gen
from ..ctx import digest, Skip
from ..snap import snap, obs_digest
from ..gm_monitor import GammaMonitor, results_of, results_digest
from ..ref import gamma as gref

ID = 'C03'
LEVEL = 'exploration'
DECIDING = ['tap:Obs.gamma_method', 'trace_events_checked', 'metamorphic_pairs', 'histories']
RULE = ('cases: (a) metamorphic pairs of analyses (fft on/off; configuration numbers i -> a*i+b per ensemble; replica renaming with and '
        'without change of sort order; permuted constructor arguments; data + const; data * c) on 1-2 ensembles x 1-3 replicas with '
        'contiguous / strided / gapped lists; (b) histories of <= 12 steps over a pool of 3 objects and their never-analysed twins mixing '
        'changes of the global / per-ensemble parameters, gm(args), gm(), arithmetic and re-analysis; non-trivial: a pair whose '
        'transformation is not the identity and whose errors are non-zero, or a history with >= 2 analyses under different effective '
        'parameters; distinct = digest of (relation, data) or of the history script')
ASSUMPTIONS = ['window decisions within rounding of zero may flip under a transformation: such pairs are counted as borderline, not judged',
               'equality across transformations is judged with rtol 1e-8 (errors) / atol 1e-9 (rho); identical inputs must give bit-identical results']
BUDGET = {'quick': 45, 'thorough': 540}

PE = None
MON = None
TRACE = []


def setup(ctx):
    global PE, MON
    import pyerrors as pe
    PE = pe
    MON = GammaMonitor(ctx, pe.Obs, judge=True, trace=TRACE)
    taps.tap_method(pe.Obs, 'gamma_method', MON)


def teardown(ctx):
    taps.report(ctx)
    taps.remove_all()


def plan(tier):
    m = 3 if tier == 'quick' else 120
    p = []
    for rel in ('fft', 'affine', 'rename_ordered', 'rename_reordering', 'permute_args', 'add_const', 'multiply'):
        p.append(('pair:' + rel, 90 * m))
    p.append(('history', 150 * m))
    p.append(('history_siblings', 40 * m))
    p.append(('containers', 40 * m))
    return p


class saved_class_state:
    def __enter__(self):
        O = PE.Obs
        self.s = (O.S_global, dict(O.S_dict), O.tau_exp_global, dict(O.tau_exp_dict), O.N_sigma_global, dict(O.N_sigma_dict))

    def __exit__(self, *a):
        O = PE.Obs
        O.S_global, sd, O.tau_exp_global, td, O.N_sigma_global, nd = self.s
        O.S_dict.clear(); O.S_dict.update(sd)
        O.tau_exp_dict.clear(); O.tau_exp_dict.update(td)
        O.N_sigma_dict.clear(); O.N_sigma_dict.update(nd)


# ------------------------------------------------------------------------------------------
def rand_spec(rng, tier, nens=None, data=None, loose=False):
    """{ensemble: {chain: {cfg: value}}} with a common spacing per ensemble.
    loose=True: irregular lists whose spacings are NOT all multiples of the smallest one (the library
    accepts them and bins them on the grid of the smallest spacing; the reference estimator is not
    defined there, but the invariance relations of C03 - relabelling, renaming, rescaling - are)."""
    nmax = 50 if tier == 'quick' else int(rng.choice([50, 120, 300]))
    nens = int(rng.choice([1, 1, 2])) if nens is None else nens
    spec = {}
    for e in rng.choice(gen.ENS_POOL, size=nens, replace=False):
        g = int(rng.choice([1, 1, 2, 3]))
        if loose:
            g = int(rng.choice([2, 3, 4]))
        tab = {}
        for r in gen.rand_reps(rng, 3, allow_bare=True):
            name = str(e) if r is None else '%s|%s' % (e, r)
            n = int(rng.integers(8, nmax + 1))
            kind = str(rng.choice(['contig', 'strided', 'gapped']))
            start = int(rng.integers(1, 60))
            if loose:
                # every replica has smallest spacing g (so the replicas are compatible) and some spacing g + 1 .. 2g + 1
                steps = rng.choice([g, g, g + 1, 2 * g + 1, g + 2], size=n - 1).tolist()
                steps[int(rng.integers(0, n - 1))] = g
                steps[int(rng.integers(0, n - 1))] = g + 1
                if g not in steps:
                    steps[0] = g
                idl = [start]
                for st in steps:
                    idl.append(idl[-1] + int(st))
            elif kind == 'contig':
                idl = list(range(start, start + n * g, g))
            elif kind == 'strided':
                k = int(rng.choice([2, 4]))
                idl = list(range(start, start + n * g * k, g * k))
            else:
                idl = list(gen.rand_idl(rng, n, 'gapped', start=start, step=g, as_type='list'))
            x = gen.rand_data(rng, len(idl), str(rng.choice(data or ['white', 'ar', 'ar', 'alt', 'counts'])), mean=float(rng.choice([0.0, 1.0, -2.5])))
            tab[name] = {int(c): float(v) for c, v in zip(idl, x)}
        spec[str(e)] = tab
    return spec


def build(spec, forms=None, order=None):
    o = None
    for e in sorted(spec):
        tab = spec[e]
        names = sorted(tab) if order is None else [n for n in order if n in tab]
        samples, idls = [], []
        for n in names:
            cfgs = sorted(tab[n])
            samples.append(np.array([tab[n][c] for c in cfgs], dtype=float))
            f = (forms or {}).get(n, 'list')
            if f == 'ndarray':
                idls.append(np.array(cfgs))
            elif f == 'native' and all(b - a == cfgs[1] - cfgs[0] for a, b in zip(cfgs, cfgs[1:])):
                idls.append(range(cfgs[0], cfgs[-1] + 1, cfgs[1] - cfgs[0]))
            else:
                idls.append(list(cfgs))
        oo = PE.Obs(samples, names, idl=idls)
        o = oo if o is None else o + oo
    return o


def rand_params(rng):
    kw = {}
    if rng.random() < 0.8:
        kw['S'] = float(rng.choice([0, 0.5, 1, 2, 3]))
    if rng.random() < 0.4:
        kw['tau_exp'] = float(rng.choice([0, 1.5, 5, 20]))
    if rng.random() < 0.4:
        kw['N_sigma'] = float(rng.choice([0, 1, 2]))
    return kw


def analyse(o, kw):
    try:
        o.gamma_method(**kw)
    except ValueError as e:
        if 'at least 8 samples' in str(e) or 'common spacing' in str(e):
            return None   # requests the library documents as not analysable: outside the quantifier
        raise
    return results_of(o)


def admissible_windows(o, kw):
    params = {}
    for e in sorted(set(n.split('|')[0] for n in o.names if n not in o.covobs)):
        params[e] = (kw.get('S', PE.Obs.S_dict.get(e, PE.Obs.S_global)), kw.get('tau_exp', PE.Obs.tau_exp_dict.get(e, PE.Obs.tau_exp_global)),
                     kw.get('N_sigma', PE.Obs.N_sigma_dict.get(e, PE.Obs.N_sigma_global)))
    try:
        ref = gref.analyse(snap(o), params)
    except Exception:
        return None
    return {e: r['admissible'] for e, r in ref['per'].items()}


def compare_results(ctx, r1, r2, mech, emap=None, factor=1.0, rtol=1e-8, o1=None, kw=None):
    """r2 must equal r1 (ensemble names mapped by emap, errors scaled by factor)."""
    emap = emap or {e: e for e in r1['e_dvalue']}
    if sorted(emap.values()) != sorted(r2['e_dvalue']):
        ctx.ev()
        ctx.violation(mech + ':ensembles', {'a': sorted(r1['e_dvalue']), 'b': sorted(r2['e_dvalue'])})
        return False
    # window first: borderline rule
    for e1, e2 in emap.items():
        if r1['e_windowsize'].get(e1) != r2['e_windowsize'].get(e2):
            adm = admissible_windows(o1, kw) if o1 is not None else None
            if adm is not None and e1 in adm and r2['e_windowsize'].get(e2) in adm[e1] and r1['e_windowsize'].get(e1) in adm[e1]:
                ctx.count('borderline_pairs_skipped')
                return None
            ctx.ev()
            ctx.violation(mech + ':window', {'ensemble': e1, 'a': r1['e_windowsize'].get(e1), 'b': r2['e_windowsize'].get(e2),
                                             'len_rho_a': len(r1['e_rho'].get(e1, [])), 'len_rho_b': len(r2['e_rho'].get(e2, []))})
            return False
    ok = True
    for e1, e2 in emap.items():
        for k in ('e_dvalue', 'e_ddvalue'):
            ok &= ctx.close(r2[k][e2], r1[k][e1] * factor, mech + ':' + k, e1, rtol=rtol, atol=1e-300)
        for k in ('e_tauint', 'e_dtauint'):
            if e1 in r1[k]:
                ok &= ctx.close(r2[k][e2], r1[k][e1], mech + ':' + k, e1, rtol=rtol, atol=1e-300)
        for k in ('e_rho', 'e_drho'):
            if e1 in r1[k]:
                a, b = r1[k][e1], r2[k].get(e2, np.zeros(0))
                if len(a) != len(b):
                    ctx.ev()
                    ctx.violation(mech + ':' + k + '-length', {'a': len(a), 'b': len(b), 'ensemble': e1})
                    ok = False
                else:
                    ok &= ctx.close(b, a, mech + ':' + k, e1, rtol=0, atol=1e-8)
    ok &= ctx.close(r2['dvalue'], r1['dvalue'] * factor, mech + ':dvalue', 'total', rtol=rtol, atol=1e-300)
    ok &= ctx.close(r2['ddvalue'], r1['ddvalue'] * factor, mech + ':ddvalue', 'total', rtol=rtol, atol=1e-300)
    return ok


# ------------------------------------------------------------------------------------------
def case_pair(ctx, rng, rel):
    loose = rel in ('affine', 'rename_ordered', 'rename_reordering', 'permute_args') and rng.random() < 0.3
    spec = rand_spec(rng, ctx.tier, loose=loose)
    if loose:
        ctx.count('pairs_on_lists_without_common_spacing')
    kw = rand_params(rng)
    if rng.random() < 0.3:
        kw['fft'] = False
    forms = {n: str(rng.choice(['list', 'ndarray', 'native'])) for e in spec for n in spec[e]}
    o1 = build(spec, forms)
    emap = None
    factor = 1.0
    rtol = 1e-8
    kw2 = dict(kw)
    if rel == 'fft':
        o2 = build(spec, forms)
        kw2['fft'] = not (kw.get('fft') is not False)
        if kw2['fft']:
            kw2.pop('fft')
    elif rel == 'affine':
        spec2 = {}
        for e, tab in spec.items():
            a = int(rng.choice([1, 2, 3, 7]))
            b = int(rng.integers(-1, 1000))
            lo = min(min(d) for d in tab.values())
            if a * lo + b < 0:
                b = b - (a * lo + b)
            spec2[e] = {n: {a * c + b: v for c, v in d.items()} for n, d in tab.items()}
        o2 = build(spec2, forms)
    elif rel in ('rename_ordered', 'rename_reordering'):
        spec2 = {}
        for e, tab in spec.items():
            names = sorted(tab)
            if rel == 'rename_ordered':
                new = ['%s|s%02d' % (e, i) for i in range(len(names))]
            else:
                new = ['%s|z%02d' % (e, len(names) - i) for i in range(len(names))]
            if len(names) == 1 and rng.random() < 0.5:
                new = [e]  # bare chain name
            spec2[e] = {nn: tab[n] for n, nn in zip(names, new)}
        o2 = build(spec2)
    elif rel == 'permute_args':
        order = [n for e in spec for n in spec[e]]
        order = [order[i] for i in rng.permutation(len(order))]
        o2 = build(spec, forms, order=order)
    elif rel == 'add_const':
        sig = max(1e-300, max(np.std(list(d.values())) for tab in spec.values() for d in tab.values()))
        c = float(rng.choice([-3.0, 0.5, 10.0])) * max(sig, 1.0)
        spec2 = {e: {n: {k: v + c for k, v in d.items()} for n, d in tab.items()} for e, tab in spec.items()}
        o2 = build(spec2, forms)
        rtol = 1e-7
    elif rel == 'multiply':
        c = float(rng.choice([-4.0, 0.125, 3.0, 1e-6, 1e6]))
        spec2 = {e: {n: {k: v * c for k, v in d.items()} for n, d in tab.items()} for e, tab in spec.items()}
        o2 = build(spec2, forms)
        factor = abs(c)
    else:
        raise ValueError(rel)
    with saved_class_state():
        r1 = analyse(o1, kw)
        r2 = analyse(o2, kw2)
    ctx.count('metamorphic_pairs')
    ctx.cell('pair', rel, 'reps%d' % max(len(t) for t in spec.values()), 'ens%d' % len(spec))
    if (r1 is None) != (r2 is None):
        ctx.ev()
        ctx.violation('pair:%s:exception-on-one-side' % rel, {'kw': kw})
        return
    if r1 is None:
        return
    ok = compare_results(ctx, r1, r2, 'pair:' + rel, emap=emap, factor=factor, rtol=rtol, o1=o1, kw=kw)
    if ok is not None and r1['dvalue'] > 0:
        ctx.nontrivial.add(digest('pair', rel, obs_digest(o1), sorted(kw.items())))
    ctx.sample({'relation': rel, 'kwargs': kw, 'chains': {n: len(d) for e in spec for n, d in spec[e].items()},
                'dvalue_a': r1['dvalue'], 'dvalue_b': r2['dvalue']})


# ------------------------------------------------------------------------------------------
class Shadow:
    """Model of the class-level parameter state."""

    def __init__(self):
        self.g = {'S': 2.0, 'tau_exp': 0.0, 'N_sigma': 1.0}
        self.d = {'S': {}, 'tau_exp': {}, 'N_sigma': {}}

    def effective(self, ens, kw):
        out = {}
        for e in ens:
            out[e] = tuple(kw[k] if k in kw else self.d[k].get(e, self.g[k]) for k in ('S', 'tau_exp', 'N_sigma'))
        return out


def sibling_specs(rng):
    """Three specs that agree in everything a cache key could be built from (chain names, first / last
    configuration, number of configurations, spacing) but have their holes and data elsewhere."""
    e = str(rng.choice(gen.ENS_POOL))
    g = int(rng.choice([1, 2, 3]))
    layout = {}
    for r in gen.rand_reps(rng, 2, allow_bare=True):
        name = e if r is None else '%s|%s' % (e, r)
        n = int(rng.integers(12, 40))
        layout[name] = (int(rng.integers(1, 40)), n, n + int(rng.integers(3, n)))
    specs = []
    for k in range(3):
        tab = {}
        for name, (first, n, span) in layout.items():
            inner = sorted(rng.choice(np.arange(1, span - 1), size=n - 2, replace=False).tolist())
            grid = [0] + inner + [span - 1]
            if not any(b - a == 1 for a, b in zip(grid, grid[1:])):
                grid[1] = 1
                grid = sorted(set(grid))
            x = gen.rand_data(rng, len(grid), str(rng.choice(['ar', 'white'])), mean=1.0)
            tab[name] = {int(first + g * i): float(v) for i, v in zip(grid, x)}
        specs.append({e: tab})
    return specs


def case_history(ctx, rng, siblings=False):
    O = PE.Obs
    pool_spec = sibling_specs(rng) if siblings else [rand_spec(rng, ctx.tier, nens=int(rng.choice([1, 1, 2]))) for _ in range(3)]
    # objects 1 and 2 share an ensemble name with object 0 with probability 1/2 (shared dictionary entries)
    pool = [build(s) for s in pool_spec]
    twins = [build(s) for s in pool_spec]
    derived = []
    sh = Shadow()
    script = []
    n_an = 0
    param_sets = set()
    start = len(TRACE)
    with saved_class_state():
        O.S_global, O.tau_exp_global, O.N_sigma_global = 2.0, 0.0, 1.0
        O.S_dict.clear(); O.tau_exp_dict.clear(); O.N_sigma_dict.clear()
        nsteps = int(rng.integers(4, 13))
        for step in range(nsteps):
            act = str(rng.choice(['set_global', 'set_dict', 'unset_dict', 'gm_args', 'gm_plain', 'gm_plain', 'arith', 'twin_gm']))
            i = int(rng.integers(0, 3))
            ens = sorted(set(n.split('|')[0] for n in pool[i].names))
            if act == 'set_global':
                k = str(rng.choice(['S', 'tau_exp', 'N_sigma']))
                v = float(rng.choice({'S': [0, 1, 2, 3], 'tau_exp': [0, 0, 2.0, 8.0], 'N_sigma': [0, 1, 2]}[k]))
                setattr(O, k + '_global', v)
                sh.g[k] = v
                script.append(('set_global', k, v))
            elif act == 'set_dict':
                k = str(rng.choice(['S', 'tau_exp', 'N_sigma']))
                e = str(rng.choice(ens))
                v = float(rng.choice({'S': [0, 1, 2.5, 4], 'tau_exp': [0, 3.0], 'N_sigma': [0, 1, 2]}[k]))
                getattr(O, k + '_dict')[e] = v
                sh.d[k][e] = v
                script.append(('set_dict', k, e, v))
            elif act == 'unset_dict':
                k = str(rng.choice(['S', 'tau_exp', 'N_sigma']))
                if sh.d[k]:
                    e = sorted(sh.d[k])[0]
                    del getattr(O, k + '_dict')[e]
                    del sh.d[k][e]
                    script.append(('unset_dict', k, e))
            elif act in ('gm_args', 'gm_plain', 'twin_gm'):
                kw = rand_params(rng) if act == 'gm_args' else {}
                if rng.random() < 0.2:
                    kw['fft'] = False
                target = twins[i] if act == 'twin_gm' else pool[i]
                before = len(TRACE)
                r = analyse(target, kw)
                exp = sh.effective(ens, kw)
                script.append((act, i, sorted(kw.items())))
                if r is None:
                    continue
                n_an += 1
                param_sets.add(repr(sorted(exp.items())))
                # T3 against the shadow model (not against the class state the monitor read)
                for e in ens:
                    ctx.equal((float(target.S[e]), float(target.tau_exp[e]), float(target.N_sigma[e])), tuple(float(x) for x in exp[e]),
                              'history:stored-parameters-vs-precedence', e, detail={'script': script[-6:]})
                ev = TRACE[-1] if len(TRACE) > before else None
                if ev is not None:
                    got = {e: tuple(float(x) for x in ev['params'][e]) for e in ens}
                    ctx.equal(got, {e: tuple(float(x) for x in exp[e]) for e in ens}, 'history:class-state-drift', 'parameters in force',
                              detail={'script': script[-6:]})
            elif act == 'arith':
                j = int(rng.integers(0, 3))
                f = [lambda a, b: a + b, lambda a, b: a * b - 1.5, lambda a, b: np.sin(a) * 2 + b, lambda a, b: a / (b * b + 1.0)][int(rng.integers(0, 4))]
                d1 = f(pool[i], pool[j])
                d2 = f(twins[i], twins[j])
                ctx.equal(obs_digest(d1), obs_digest(d2), 'history:derived-depends-on-analysis-state', 'arithmetic on analysed vs fresh objects',
                          detail={'script': script[-6:]})
                ctx.equal(float(getattr(d1, '_dvalue', 0.0)), 0.0, 'history:derived-inherits-error', 'fresh result carries an error')
                derived.append(d1)
                script.append(('arith', i, j))
                if rng.random() < 0.5:
                    analyse(d1, {})
    ctx.count('histories')
    check_trace(ctx, TRACE[start:])
    del TRACE[:]
    if n_an >= 2 and len(param_sets) >= 2:
        ctx.nontrivial.add(digest('history', repr(script)))
    ctx.cell('history', 'analyses%d' % min(n_an, 6))
    ctx.sample({'history': [list(map(str, s)) for s in script]})


def case_containers(ctx, rng):
    """The module-level gamma_method / gm applied to a container, and the wrappers of CObs and Corr: every member must end up analysed
    with the effective parameters of THIS call, whatever else the container holds - members that are distinct objects with equal
    content (a copy, 1.0 * o, the same data built twice), the same object several times, members analysed before with other
    parameters - and the numbers must equal those of a direct analysis of an equal object."""
    import copy
    pe = PE
    spec = rand_spec(rng, ctx.tier, nens=1)
    o1 = build(spec)
    spec2 = rand_spec(rng, ctx.tier, nens=1)
    o2 = build(spec2)
    members = [('base', o1), ('built-again', build(spec)), ('deepcopy', copy.deepcopy(o1)), ('times-one', 1.0 * o1), ('other', o2), ('same-object', o1)]
    k = int(rng.integers(2, len(members) + 1))
    pick = [members[i] for i in rng.permutation(len(members))[:k]]
    kw_old = {'S': float(rng.choice([0.5, 1.0]))}
    kw = rand_params(rng)
    if kw.get('S') == kw_old['S'] or 'S' not in kw:
        kw['S'] = float(rng.choice([2.0, 3.0]))
    if not bool(rng.integers(0, 2)):
        kw['fft'] = False
    # some members carry an earlier analysis with other parameters
    for tag, o in pick:
        if rng.random() < 0.5:
            analyse(o, kw_old)
    form = str(rng.choice(['list', 'array', 'array2d', 'Corr', 'CObs']))
    fn = pe.gamma_method if rng.random() < 0.5 else pe.gm
    objs = [o for _, o in pick]
    try:
        with saved_class_state():
            if form == 'list':
                fn(objs, **kw)
            elif form == 'array':
                fn(np.array(objs, dtype=object), **kw)
            elif form == 'array2d':
                arr = np.empty((2, len(objs)), dtype=object)
                for i_, o in enumerate(objs):
                    arr[0, i_] = o
                    arr[1, i_] = objs[-1 - i_]
                fn(arr, **kw)
            elif form == 'Corr':
                # the entries of a correlator must live on the same chains and configurations: the unrelated member stays out
                objs = [o for tag, o in pick if tag != 'other'] or [o1]
                pe.Corr(objs).gamma_method(**kw)
            else:
                objs = objs[:2] if len(objs) >= 2 else [objs[0], objs[0]]
                pe.CObs(objs[0], objs[1]).gamma_method(**kw)
    except ValueError as e:
        if 'at least 8 samples' in str(e) or 'common spacing' in str(e):
            ctx.count('gm_calls_outside_quantifier')
            return
        raise
    ctx.count('container_calls')
    ctx.cell('container', form, len(objs))
    with saved_class_state():
        for tag, o in [(t_, o_) for t_, o_ in pick if any(o_ is x for x in objs)]:
            twin = copy.deepcopy(o)
            for a_ in ('S', 'tau_exp', 'N_sigma'):
                setattr(twin, a_, {})
            exp = analyse(twin, kw)
            if exp is None:
                continue
            ctx.count('container_members_judged')
            if not ctx.require(hasattr(o, 'e_dvalue') and len(o.e_dvalue) > 0, 'container:member-not-analysed', {'member': tag, 'form': form}):
                continue
            ctx.equal(results_digest(results_of(o)), results_digest(exp), 'container:member-differs-from-direct-analysis-with-the-same-parameters',
                      '%s in %s' % (tag, form), detail={'kw': kw, 'got_S': dict(o.S), 'exp_S': exp['S'], 'got_dvalue': float(o._dvalue), 'exp_dvalue': exp['dvalue']})
    ctx.nontrivial.add(digest('container', form, [t_ for t_, _ in pick], obs_digest(o1), sorted(kw.items())))


def check_trace(ctx, events):
    """T1, T2, T4 over a slice of the event log."""
    by_key = {}
    for ev in events:
        ctx.count('trace_events_checked')
        ctx.equal(ev['dig_before'], ev['dig_after'], 'trace:T1-analysis-changed-the-data', 'seq %d' % ev['seq'])
        if ev['exc'] is not None:
            continue
        key = (ev['dig_before'], repr(sorted((e, tuple(float(x) for x in p)) for e, p in ev['params'].items())), ev['fft'])
        if key in by_key:
            ctx.equal(ev['rdig'], by_key[key]['rdig'], 'trace:T2-result-depends-on-history', 'same data and parameters, different result',
                      detail={'first_seq': by_key[key]['seq'], 'second_seq': ev['seq'], 'params': ev['params'],
                              'dvalue_first': by_key[key]['results']['dvalue'], 'dvalue_second': ev['results']['dvalue']})
            ctx.count('trace_T2_pairs')
        else:
            by_key[key] = ev
        r = ev['results']
        vals = [r['dvalue'], r['ddvalue']] + list(r['e_dvalue'].values()) + list(r['e_ddvalue'].values()) + list(r['e_dtauint'].values())
        ctx.require(all(math.isfinite(v) and v >= 0 for v in vals), 'trace:T4-error-not-finite-or-negative', {'values': vals})
        ctx.require(all(v >= 0.5 for v in r['e_tauint'].values()), 'trace:T4-tauint-below-half', {'tauint': r['e_tauint']})


def run_case(ctx, kind, idx, rng):
    if kind.startswith('pair:'):
        start = len(TRACE)
        case_pair(ctx, rng, kind.split(':')[1])
        check_trace(ctx, TRACE[start:])
        del TRACE[:]
    elif kind == 'containers':
        start = len(TRACE)
        case_containers(ctx, rng)
        check_trace(ctx, TRACE[start:])
        del TRACE[:]
    else:
        case_history(ctx, rng, siblings=(kind == 'history_siblings'))
