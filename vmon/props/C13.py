"""C13 - jackknife and bootstrap export / import are exact resampling transforms.

Monitors (taps, judge every call made anywhere in the workload, from boundary-visible data only):
  Obs.export_jackknife   entry 0 = central value, entry i = (N value - x_i)/(N-1) with x = replica mean + fluctuations
  Obs.export_bootstrap   entry 0 = central value, entry k = mean of x over row k of the supplied table, or of the table
                         numpy's default generator produces from the low 32 bits of md5(chain name) (recomputed in ref.resample)
  import_jackknife       samples x_i = sum(J) - (N-1) J_i, value = J[0], configuration list as passed
  import_bootstrap       value = B[0]; refuses fewer samples than configurations; with a full-column-rank table the
                         restored samples reproduce every supplied bootstrap mean
Workload-level relations: table-based leave-one-out means, jackknife variance = squared S=0 error, round trips
export -> import (value, fluctuations, replica mean, configuration list), seeding consistency between different
observables of one chain, repeatability, rejection of under-determined tables.
"""
import numpy as np

from .. import taps, gen
from ..ctx import digest, Skip
from ..snap import snap
from ..ref import resample as R

ID = 'C13'
LEVEL = 'exploration'
DECIDING = ['tap:Obs.export_jackknife', 'tap:Obs.export_bootstrap', 'tap:import_jackknife', 'tap:import_bootstrap',
            'export_jk_judged', 'export_bs_judged', 'import_jk_judged', 'import_bs_judged', 'seeded_tables_recomputed',
            'import_bs_rejections_required', 'jackknife_variance_identities', 'held_results_rechecked', 'history_requests',
            'scale_relations', 'saved_tables_fed_back', 'imports_with_entry0_different_from_the_sample_mean', 'jackknife_matrix_products', 'export_refusals_required', 'indistinguishable_copies_exported']
RULE = ('cases: single-chain observables (names with and without replica part, non-ASCII name), length 5 / 6-30 / 31-500 (quick: import_bootstrap up to 120), '
        'configuration lists contiguous / strided / gapped / irregular given as range, list or ndarray, data white / AR(1) / constant / alternating / counts with exact zeros / '
        '1e-8 / 1e8 / distinct / magnitudes mixed over 12 decades; primary observables and derived ones (same chain, different lists); resampling tables: random, '
        'rank-deficient (repeated rows, fewer rows than configurations, a configuration never drawn, one row) for export, full column rank with condition <= 1e5 for import, '
        'int64 / int32 / int16 / intp / uint8 / nested lists / tuples, C / Fortran / transposed / strided memory layout; sample, jackknife and bootstrap arrays also as strided and negative-stride views; '
        'configuration numbers starting at 0 and above 1e7; seeded export with 1..500 samples, with save_rng and the saved numbers fed back; histories (same name and sample number but other length, same length other name '
        'out of a prefix family, same name / length / first / last configuration but other interior and data; seeded, explicit-table and jackknife requests and re-analyses in random order, every result held and re-requested); '
        'the same chain multiplied by 2^+-27, 2^+-60, 1e+-8, 1e+-15; every exported array is kept and re-checked after later calls; second hardening: observable and table compared with their state before every export (monitors), bootstrap arrays that do not belong to the table (one sample too few / too many) must be rejected, spectator observables with weight exactly zero in derived observables, int16 / uint16 tables for more than 255 configurations, imports with lists of equal length / first / last configuration but other members; counters judged:<mechanism> give the number of evaluations of every judgement; kind biased: arrays whose entry 0 is not the mean of the other entries (jackknife / bootstrap samples of non-linear functions, arbitrary entry 0), observables whose central value is not their replica mean (imported ones, observables derived from them, entries of jack_matmul / einsum products), imported, exported and re-imported twice. third hardening: exports of observables that are not on one chain (two replicas, two ensembles, chain + covariance input, covariance only) must be refused; chains with central value exactly 0.0; copies that the == and hash of the library cannot tell apart (shifted by 2^-40 of the scale, tagged) exported next to the original in both orders. non-trivial: the chain has non-zero variance (or a rejection was required); '
        'distinct = digest of (function, chain name, configuration list, data, table)')
ASSUMPTIONS = ['default resampling table = numpy.random.default_rng(md5(chain name) & 0xFFFFFFFF).integers(0, N, (samples, N)) - the documented convention (docstring: "based on the md5 hash of the ensemble name"), adopted by the reference',
               'direct arithmetic compared at 1e-11 of max|sample|; import_jackknife (sum of N numbers minus (N-1) J_i) at 1e-12 N max|sample|; import_bootstrap (least squares) at 1e-11 cond max|sample|, tables with cond > 1e5 are not judged',
               'import_bootstrap has no configuration-list argument: the list is not part of what it can restore',
               'export_bootstrap is always called with samples = number of table rows (an inconsistent pair is a usage error outside the quantifier)',
               'rejection = ValueError / TypeError / LookupError']
BUDGET = {'quick': 45, 'thorough': 420}

PE = None
CTX = None
REJECT = (ValueError, TypeError, LookupError)
NAMES = ['A', 'AB', 'A1', 'A|r1', 'A|r2', 'ens|r10', 'B|r1', 'test', 'long_ensemble_name_b3.40_k0.1366|r001', 'Ä|r1', 'x y']
DATA = gen.DATA_KINDS + ['mixedmag', 'zero-mean']


EPS = 2.3e-16


def loo_tol(n):
    """(N mean - x_i) / (N - 1) from fluctuations + mean: a handful of roundings of numbers of the size of the samples"""
    return 64 * EPS


def boot_tol(n):
    """a scalar product of N terms of the size of the samples: at most ~N roundings (worst case), plus those of the inputs"""
    return (2 * n + 32) * EPS


def var_rtol(n, sc, var, from_jackknife):
    """relative accuracy of a sum of squares of differences: the differences x_i - mean lose sc / sigma digits, those of the
    jackknife samples (spread sigma / (N - 1) around the mean) N times more"""
    sigma = (max(var, 0.0) * n) ** 0.5
    if sigma == 0.0:
        return 1e-8
    kappa = sc / sigma * (n if from_jackknife else 1)
    return min(1e-8, 64 * EPS * (16 + kappa))


def sample_scale(x, value=0.0):
    return max(max((abs(v) for v in x), default=0.0), abs(value), 1e-300)


# ------------------------------------------------------------------------------------------
# monitors
def chain_view(o):
    """(name, value, x) for an observable on exactly one Monte-Carlo chain, else None"""
    if len(o.names) != 1 or o.names[0] in o.covobs:
        return None
    n = o.names[0]
    return n, float(o.value), [float(v) for v in (np.asarray(o.deltas[n], dtype=float) + o.r_values[n])]


class ExportJK(taps.Monitor):
    def before(self, args, kwargs):
        return chain_view(args[0])

    def after(self, token, args, kwargs, result, exc):
        ctx = CTX
        if token is None or exc is not None:
            ctx.count('export_jk_not_judged')
            return
        name, value, x = token
        ctx.count('export_jk_judged')
        n = len(x)
        res = np.asarray(result)
        if not ctx.require(res.shape == (n + 1,) and res.dtype.kind == 'f', 'export_jackknife:shape', lambda: {'shape': res.shape, 'N': n}):
            return
        ctx.close(res[0], value, 'export_jackknife:entry0-not-central-value', 'entry 0', rtol=0.0, atol=0.0)
        exp = R.jackknife(x, central=value)
        ctx.close(res[1:], exp[1:], 'export_jackknife:not-leave-one-out-mean', 'call-level, x = r_value + deltas', rtol=loo_tol(n), scale=sample_scale(x, value),
                  detail={'N': n, 'name': name})
        # the observable the caller holds is what it was before the export
        ctx.equal(chain_view(args[0]), token, 'export_jackknife:observable-modified-by-export', 'argument after the call')


class ExportBS(taps.Monitor):
    def before(self, args, kwargs):
        v = chain_view(args[0])
        if v is None:
            return None
        samples = kwargs.get('samples', args[1] if len(args) > 1 else 500)
        table = kwargs.get('random_numbers', args[2] if len(args) > 2 else None)
        if table is not None:
            table = [[int(j) for j in row] for row in table]
        return v + (samples, table)

    @staticmethod
    def table_now(args, kwargs):
        t = kwargs.get('random_numbers', args[2] if len(args) > 2 else None)
        return None if t is None else [[int(j) for j in row] for row in t]

    def after(self, token, args, kwargs, result, exc):
        ctx = CTX
        if token is None or exc is not None:
            ctx.count('export_bs_not_judged')
            return
        name, value, x, samples, table = token
        n = len(x)
        # the observable and the table the caller holds are what they were before the export
        ctx.equal(chain_view(args[0]), (name, value, x), 'export_bootstrap:observable-modified-by-export', 'argument after the call')
        if table is not None:
            ctx.equal(self.table_now(args, kwargs), table, 'export_bootstrap:table-modified-by-export', 'argument after the call')
        how = 'supplied-table'
        if table is None:
            table = R.default_table(name, int(samples), n)
            ctx.count('seeded_tables_recomputed')
            how = 'name-seeded-table'
        ctx.count('export_bs_judged')
        res = np.asarray(result)
        if not ctx.require(res.shape == (len(table) + 1,) and res.dtype.kind == 'f', 'export_bootstrap:shape', lambda: {'shape': res.shape, 'rows': len(table)}):
            return
        ctx.close(res[0], value, 'export_bootstrap:entry0-not-central-value', 'entry 0', rtol=0.0, atol=0.0)
        exp = R.bootstrap_means(x, table)
        mech = 'export_bootstrap:not-mean-over-resampled-configurations' if how == 'supplied-table' else 'export_bootstrap:seeded-table-differs-from-md5-name-seed'
        ctx.close(res[1:], exp, mech, how, rtol=boot_tol(n), scale=sample_scale(x, value), detail={'N': n, 'rows': len(table), 'name': name})


class ImportJK(taps.Monitor):
    def before(self, args, kwargs):
        try:
            jacks = [float(v) for v in (kwargs['jacks'] if 'jacks' in kwargs else args[0])]
            name = kwargs['name'] if 'name' in kwargs else args[1]
            idl = kwargs.get('idl', args[2] if len(args) > 2 else None)
            return jacks, name, None if idl is None else [int(i) for i in idl[0]]   # same convention as the Obs constructor: one list per chain
        except Exception:
            return None

    def after(self, token, args, kwargs, result, exc):
        ctx = CTX
        if token is None or exc is not None:
            ctx.count('import_jk_not_judged')
            return
        jacks, name, idl = token
        n = len(jacks) - 1
        ctx.count('import_jk_judged')
        # the samples the caller holds are still the exported ones after the import (a second import of the same array must restore the same observable)
        now = [float(v) for v in (kwargs['jacks'] if 'jacks' in kwargs else args[0])]
        ctx.equal(bool(np.array_equal(now, jacks, equal_nan=True)), True, 'import_jackknife:samples-array-modified-by-import', 'argument after the call', detail={'before': jacks[:6], 'after': now[:6]})
        if not ctx.require(list(result.names) == [name] and result.N == n, 'import_jackknife:chain-name-or-length', lambda: {'names': result.names, 'N': result.N}):
            return
        ctx.close(result.value, jacks[0], 'import_jackknife:value-not-entry0', 'value', rtol=0.0, atol=0.0)
        got = [int(i) for i in result.idl[name]]
        ctx.equal(got, idl if idl is not None else list(range(1, n + 1)), 'import_jackknife:configuration-list',
                  'passed list' if idl is not None else 'default list')
        import math
        tot = math.fsum(jacks[1:])
        exp = [tot - (n - 1) * j for j in jacks[1:]]
        x = np.asarray(result.deltas[name], dtype=float) + result.r_values[name]
        sc = max(abs(v) for v in jacks)
        ctx.close(x, exp, 'import_jackknife:samples', 'x_i = sum(J) - (N-1) J_i', rtol=2e-14 * n, scale=sc, atol=1e-300)
        ctx.close(result.r_values[name], tot / n, 'import_jackknife:replica-mean', 'mean', rtol=2e-14 * n, scale=sc, atol=1e-300)
        ctx.close(float(np.sum(result.deltas[name])), 0.0, 'import_jackknife:fluctuations-do-not-sum-to-zero', '', rtol=2e-14 * n * n, scale=sc, atol=1e-300)


class ImportBS(taps.Monitor):
    def before(self, args, kwargs):
        try:
            boots = [float(v) for v in (kwargs['boots'] if 'boots' in kwargs else args[0])]
            name = kwargs['name'] if 'name' in kwargs else args[1]
            table = kwargs['random_numbers'] if 'random_numbers' in kwargs else args[2]
            return boots, name, np.array(table).copy()
        except Exception:
            return None

    def after(self, token, args, kwargs, result, exc):
        ctx = CTX
        if token is None:
            ctx.count('import_bs_not_judged')
            return
        boots, name, table = token
        k, n = table.shape
        if exc is not None:
            if k < n and isinstance(exc, REJECT):
                ctx.count('import_bs_rejected_underdetermined')
            else:
                ctx.count('import_bs_not_judged')
            return
        ctx.count('import_bs_judged')
        now = [float(v) for v in (kwargs['boots'] if 'boots' in kwargs else args[0])]
        ctx.equal(bool(np.array_equal(now, boots, equal_nan=True)), True, 'import_bootstrap:samples-array-modified-by-import', 'argument after the call', detail={'before': boots[:6], 'after': now[:6]})
        tnow = np.array(kwargs['random_numbers'] if 'random_numbers' in kwargs else args[2])
        ctx.equal(bool(tnow.shape == table.shape and np.array_equal(tnow, table)), True, 'import_bootstrap:table-modified-by-import', 'argument after the call')
        ctx.count('judged:import_bootstrap:accepted-fewer-samples-than-configurations/inconsistent-shapes')
        if k < n or len(boots) - 1 != k:
            ctx.ev()
            ctx.violation('import_bootstrap:accepted-fewer-samples-than-configurations' if k < n else 'import_bootstrap:accepted-inconsistent-shapes',
                          {'samples': k, 'configurations': n, 'len_boots': len(boots)})
            return
        if not ctx.require(list(result.names) == [name] and result.N == n, 'import_bootstrap:chain-name-or-length', lambda: {'names': result.names, 'N': result.N}):
            return
        ctx.close(result.value, boots[0], 'import_bootstrap:value-not-entry0', 'value', rtol=0.0, atol=0.0)
        rank, cond = R.rank_and_condition(table, n)
        if rank < n or cond > 1e5:
            ctx.count('import_bs_table_not_unique_or_ill_conditioned')
            return
        x = [float(v) for v in (np.asarray(result.deltas[name], dtype=float) + result.r_values[name])]
        back = R.bootstrap_means(x, table)
        sc = max(abs(v) for v in boots)
        ctx.close(back, boots[1:], 'import_bootstrap:restored-samples-do-not-reproduce-the-bootstrap-means', 'residual', rtol=1e-11 * cond, scale=sc, atol=1e-300)
        # the fluctuations are centred on the mean of the restored samples, whatever entry 0 says (entry 0 is the central value only)
        ctx.close(result.r_values[name], R.mean(x), 'import_bootstrap:replica-mean-is-not-the-mean-of-the-restored-samples', 'mean', rtol=1e-11 * cond, scale=sc, atol=1e-300)
        ctx.close(float(np.sum(result.deltas[name])), 0.0, 'import_bootstrap:fluctuations-do-not-sum-to-zero', '', rtol=1e-11 * cond * n, scale=sc, atol=1e-300)


def count_judgements(ctx, norm=None):
    """evidence: counter 'judged:<mechanism>' = how often each judgement was evaluated (hardening item 13)"""
    for meth in ('close', 'equal', 'require'):
        orig = getattr(ctx, meth)

        def wrapped(*a, _o=orig, _i=(1 if meth == 'require' else 2), **k):
            mech = k['mechanism'] if 'mechanism' in k else a[_i]
            ctx.count('judged:' + (norm(mech) if norm else mech))
            return _o(*a, **k)
        setattr(ctx, meth, wrapped)


def setup(ctx):
    global PE, CTX
    import pyerrors as pe
    PE = pe
    CTX = ctx
    count_judgements(ctx)
    taps.tap_method(pe.Obs, 'export_jackknife', ExportJK())
    taps.tap_method(pe.Obs, 'export_bootstrap', ExportBS())
    taps.tap_function(pe.obs, 'import_jackknife', ImportJK())
    taps.tap_function(pe.obs, 'import_bootstrap', ImportBS())


def teardown(ctx):
    check_held(ctx)
    taps.report(ctx)
    taps.remove_all()


def plan(tier):
    m = 1 if tier == 'quick' else 40
    return [('jk', 900 * m), ('bs_table', 600 * m), ('bs_seed', 450 * m), ('bs_import', 600 * m), ('derived', 300 * m), ('bs_reject', 250 * m),
            ('history', 120 * m), ('scale', 150 * m), ('biased', 330 * m)]


# ------------------------------------------------------------------------------------------
# generators
def length_class(rng, idx, nmax):
    c = idx % 3
    if c == 0:
        return 5, '5'
    if c == 1:
        return int(rng.integers(6, 31)), '6-30'
    return int(rng.integers(31, nmax + 1)), '31-500'


def make_chain(rng, n, lkind=None, dkind=None):
    lkind = lkind or str(rng.choice(gen.IDL_KINDS))
    dkind = dkind or str(rng.choice(DATA))
    u = rng.random()
    # boundary configuration numbers: lists starting at 0, and very large numbers
    start = 0 if u < 0.08 else (10 ** 7 + int(rng.integers(0, 1000)) if u < 0.16 else None)
    idl = gen.rand_idl(rng, n, lkind, start=start)
    cfgs = [int(c) for c in idl]
    if dkind == 'zero-mean':
        # central value exactly 0.0 with non-zero fluctuations: pairs +-d with d a multiple of 2^-10, every partial sum exact
        half = (len(cfgs) + 1) // 2
        d = rng.integers(1, 5000, size=half).astype(float) * 2.0 ** -10
        x = np.empty(2 * half)
        x[0::2] = d
        x[1::2] = -d
        x = x[:len(cfgs)]
        if len(cfgs) % 2:
            x[-1] = 0.0          # the pairs before it are complete: the sum stays exactly zero
    elif dkind == 'mixedmag':
        x = rng.normal(size=len(cfgs)) * 10.0 ** rng.uniform(-6, 6, size=len(cfgs))
    else:
        x = gen.rand_data(rng, len(cfgs), dkind)
    return idl, cfgs, {c: float(v) for c, v in zip(cfgs, x)}, lkind, dkind


def make_obs(rng, n, name=None, lkind=None, dkind=None):
    name = name or str(rng.choice(NAMES))
    idl, cfgs, chain, lkind, dkind = make_chain(rng, n, lkind, dkind)
    x = np.array([chain[c] for c in cfgs])
    o = PE.Obs([array_view(rng, x, allow_list=True)], [name], idl=[idl])
    return o, name, idl, cfgs, chain, lkind, dkind


def array_view(rng, a, allow_list=False):
    """the same numbers in another representation: strided view, negative-stride view, (list)"""
    a = np.asarray(a, dtype=float)
    u = rng.random()
    if u < 0.15:
        big = np.zeros(2 * len(a))
        big[::2] = a
        return big[::2]
    if u < 0.30:
        return a[::-1].copy()[::-1]
    if u < 0.40 and allow_list:
        return [float(v) for v in a]
    return a


HELD = []          # (description, array handed out by the library, copy taken at that moment)


def hold(what, arr):
    if isinstance(arr, np.ndarray):
        HELD.append((what, arr, arr.copy()))
        if len(HELD) > 60:
            del HELD[:20]


def check_held(ctx):
    """results handed out earlier must still be what they were (no shared work buffers)"""
    for what, arr, cp in HELD:
        ctx.count('held_results_rechecked')
        ctx.count('judged:' + what + ':returned-array-changed-by-later-calls')
        ctx.ev()
        if not np.array_equal(arr, cp, equal_nan=True):
            ctx.violation(what + ':returned-array-changed-by-later-calls', {'now_head': arr[:4], 'was_head': cp[:4]})


def nontrivial(ctx, chain, *parts):
    xs = list(chain.values())
    if max(xs) != min(xs):
        ctx.nontrivial.add(digest(*parts, sorted(chain.items())))


def compare_restored(ctx, new, name, cfgs, x, value, mech, tol, check_idl):
    """new: re-imported observable; x: original samples in configuration order"""
    sc = sample_scale(x, value)
    ok = ctx.require(list(new.names) == [name] and new.N == len(x), mech + ':chain-name-or-length', lambda: {'names': new.names, 'N': new.N})
    if not ok:
        return False
    m = R.mean(x)
    ok &= ctx.close(new.value, value, mech + ':value', 'central value', rtol=1e-14, scale=sc, atol=1e-300)
    ok &= ctx.close(new.r_values[name], m, mech + ':replica-mean', 'replica mean', rtol=tol, scale=sc, atol=1e-300)
    ok &= ctx.close(np.asarray(new.deltas[name], dtype=float), [v - m for v in x], mech + ':fluctuations', 'fluctuations', rtol=tol, scale=sc, atol=1e-300)
    if check_idl:
        ok &= ctx.equal([int(i) for i in new.idl[name]], list(cfgs), mech + ':configuration-list', 'configuration list')
    return ok


def rand_table(rng, k, n, how='random'):
    if how == 'random':
        t = rng.integers(0, n, size=(k, n))
    elif how == 'repeated-rows':
        t = np.tile(rng.integers(0, n, size=(1, n)), (k, 1))
    elif how == 'never-drawn':
        t = rng.integers(0, n - 1, size=(k, n))          # the last configuration never occurs
    elif how == 'identity-rows':
        t = np.tile(np.arange(n), (k, 1))                 # every row is the original chain
    elif how == 'single-config':
        t = np.tile(rng.integers(0, n, size=(k, 1)), (1, n))   # every row draws one configuration N times
    else:
        raise ValueError(how)
    return memory_layout(rng, t)


def memory_layout(rng, t):
    """Same logical table, different memory layout: the resampling must not depend on it
    (Fortran order, transposed view of a C array, strided view; added after seeded change seed2-C13)."""
    u = rng.random()
    if u < 0.15:
        return np.asfortranarray(t)
    if u < 0.30:
        return np.ascontiguousarray(t.T).T
    if u < 0.40:
        big = np.zeros((t.shape[0], 2 * t.shape[1]), dtype=t.dtype)
        big[:, ::2] = t
        return big[:, ::2]
    return t


def table_form(rng, t, arrays_only=False):
    n = t.shape[1]
    forms = ['int64', 'int64', 'int32', 'int16', 'intp'] + (['uint8'] if n <= 255 else ['int16', 'int16', 'uint16']) + ([] if arrays_only else ['lists', 'tuples'])
    f = str(rng.choice(forms))
    if f == 'lists':
        return [[int(j) for j in row] for row in t], f
    if f == 'tuples':
        return tuple(tuple(int(j) for j in row) for row in t), f
    return t.astype(getattr(np, f)), f


# ------------------------------------------------------------------------------------------
def case_jk(ctx, idx, rng):
    nmax = 500
    n, lc = length_class(rng, idx, nmax)
    o, name, idl, cfgs, chain, lkind, dkind = make_obs(rng, n, lkind=gen.IDL_KINDS[(idx // 3) % 4])
    x = [chain[c] for c in cfgs]
    sc = sample_scale(x)
    check_held(ctx)
    jk = o.export_jackknife()
    hold('export_jackknife', jk)
    ctx.cell('export_jk', lkind, lc)
    exp = R.jackknife(x)
    ok = ctx.require(np.shape(jk) == (n + 1,), 'export_jackknife:shape', lambda: {'shape': np.shape(jk), 'N': n})
    if not ok:
        return
    ctx.close(jk[0], exp[0], 'export_jackknife:entry0-not-central-value', 'mean of the samples', rtol=1e-14, scale=sc, atol=1e-300)
    ctx.close(jk[1:], exp[1:], 'export_jackknife:not-leave-one-out-mean', 'table-level', rtol=loo_tol(n), scale=sc, atol=1e-300,
              detail={'N': n, 'list': lkind, 'data': dkind})
    # jackknife variance of the exported samples = squared naive error
    o.gamma_method(S=0)
    var_exported = R.jackknife_variance([float(v) for v in jk])
    var_ref = R.naive_error_squared(x)
    noise = (1e-13 * sc) ** 2
    ctx.count('jackknife_variance_identities')
    ctx.close(o.dvalue ** 2, var_ref, 'jackknife-variance-differs-from-squared-S0-error', 'gamma_method(S=0) vs sum (x-mean)^2 / N(N-1)', rtol=var_rtol(n, sc, var_ref, False), atol=noise,
              detail={'N': n, 'list': lkind, 'data': dkind})
    ctx.close(o.dvalue ** 2, var_exported, 'jackknife-variance-differs-from-squared-S0-error', 'exported samples vs gamma_method(S=0)', rtol=var_rtol(n, sc, var_ref, True), atol=noise,
              detail={'N': n, 'list': lkind, 'data': dkind})
    ctx.close(var_exported, var_ref, 'jackknife-variance-differs-from-squared-S0-error', 'exported samples vs sum (x-mean)^2 / N(N-1)', rtol=var_rtol(n, sc, var_ref, True), atol=noise,
              detail={'N': n, 'list': lkind, 'data': dkind})
    # import with the configuration list (in the form it was given) and without
    jv = array_view(rng, jk)
    imp = PE.import_jackknife(jv, name, idl=[idl]) if idx % 2 else PE.import_jackknife(jv, name, [idl])
    ctx.cell('import_jk', lkind, lc)
    compare_restored(ctx, imp, name, cfgs, x, exp[0], 'import_jackknife', 2e-14 * n, True)
    imp2 = PE.import_jackknife(jk, name)
    compare_restored(ctx, imp2, name, list(range(1, n + 1)), x, exp[0], 'import_jackknife', 2e-14 * n, True)
    ctx.close(imp.export_jackknife(), jk, 'import_jackknife:re-export-differs', 'export(import(export))', rtol=2e-14 * n, scale=sc, atol=1e-300)
    imp.gamma_method(S=0)
    ctx.close(imp.dvalue ** 2, var_ref, 'import_jackknife:naive-error-not-restored', '', rtol=var_rtol(n, sc, var_ref, True), atol=noise)
    nontrivial(ctx, chain, 'jk', name, idx % 3)
    ctx.sample({'function': 'export/import_jackknife', 'name': name, 'N': n, 'list': lkind, 'data': dkind, 'cfgs_head': cfgs[:6], 'jack_head': [float(v) for v in jk[:4]],
                'dvalue_S0': float(o.dvalue)})


def case_bs_table(ctx, idx, rng):
    n, lc = length_class(rng, idx, 500)
    o, name, idl, cfgs, chain, lkind, dkind = make_obs(rng, n, lkind=gen.IDL_KINDS[(idx // 3) % 4])
    x = [chain[c] for c in cfgs]
    how = ['random', 'random', 'repeated-rows', 'never-drawn', 'identity-rows', 'single-config'][(idx // 12) % 6]
    k = int(rng.choice([1, 2, 3, max(1, n // 2), n - 1, n, n + 1, 2 * n, 50]))
    if n > 100:
        k = min(k, 150)
    t = rand_table(rng, k, n, how)
    tf, form = table_form(rng, t)
    check_held(ctx)
    bs = o.export_bootstrap(k, random_numbers=tf)
    hold('export_bootstrap', bs)
    ctx.cell('export_bs_table', lkind, lc)
    ctx.cell('table', how, form)
    sc = sample_scale(x)
    if not ctx.require(np.shape(bs) == (k + 1,), 'export_bootstrap:shape', lambda: {'shape': np.shape(bs), 'rows': k}):
        return
    ctx.close(bs[0], R.mean(x), 'export_bootstrap:entry0-not-central-value', 'mean of the samples', rtol=1e-14, scale=sc, atol=1e-300)
    ctx.close(bs[1:], R.bootstrap_means(x, t), 'export_bootstrap:not-mean-over-resampled-configurations', 'table-level ' + how, rtol=boot_tol(n), scale=sc, atol=1e-300,
              detail={'N': n, 'rows': k, 'table': how, 'form': form})
    if how == 'identity-rows':
        ctx.close(bs[1:], [R.mean(x)] * k, 'export_bootstrap:not-mean-over-resampled-configurations', 'identity resampling gives the mean', rtol=boot_tol(n), scale=sc, atol=1e-300)
    nontrivial(ctx, chain, 'bs_table', name, how, k)
    ctx.sample({'function': 'export_bootstrap(table)', 'name': name, 'N': n, 'rows': k, 'table': how, 'form': form, 'boot_head': [float(v) for v in bs[:4]]})


def case_bs_seed(ctx, idx, rng):
    n, lc = length_class(rng, idx, 500)
    o, name, idl, cfgs, chain, lkind, dkind = make_obs(rng, n, lkind=gen.IDL_KINDS[(idx // 3) % 4])
    x = [chain[c] for c in cfgs]
    k = int(rng.choice([1, 2, 17, 100, 500]))
    default = k == 500 and rng.random() < 0.7
    check_held(ctx)
    bs = o.export_bootstrap() if default else o.export_bootstrap(samples=k)
    hold('export_bootstrap', bs)
    ctx.cell('export_bs_seeded', lkind, lc)
    if idx % 5 == 0 and k <= 100:
        # the option that saves the random numbers must not change the export, and feeding the saved numbers back in
        # must reproduce it (that is what makes a seeded export reproducible elsewhere)
        import os
        import tempfile
        fd, path = tempfile.mkstemp(prefix='vmon_c13_', suffix='.txt', dir=os.environ.get('VERIF_WORK', '/var/tmp'))
        os.close(fd)
        try:
            bsv = o.export_bootstrap(samples=k, save_rng=path)
            ctx.require(np.array_equal(bs, bsv), 'export_bootstrap:save_rng-changes-the-export', lambda: {'name': name, 'N': n, 'samples': k})
            saved = np.atleast_2d(np.loadtxt(path, dtype=np.int64))
            if k == 1 or n == 1:
                saved = saved.reshape(k, n)
            back = o.export_bootstrap(k, random_numbers=saved)
            ctx.count('saved_tables_fed_back')
            ctx.close(back, bs, 'export_bootstrap:saved-random-numbers-do-not-reproduce-the-export', 'save_rng file fed back', rtol=1e-13, scale=sample_scale(x), atol=1e-300,
                      detail={'name': name, 'N': n, 'samples': k})
        finally:
            try:
                os.remove(path)
            except OSError:
                pass
    sc = sample_scale(x)
    t = R.default_table(name, k, n)
    if not ctx.require(np.shape(bs) == (k + 1,), 'export_bootstrap:shape', lambda: {'shape': np.shape(bs), 'samples': k}):
        return
    ctx.close(bs[1:], R.bootstrap_means(x, t), 'export_bootstrap:seeded-table-differs-from-md5-name-seed', 'table-level', rtol=boot_tol(n), scale=sc, atol=1e-300,
              detail={'name': name, 'N': n, 'samples': k})
    # repeatable
    bs2 = o.export_bootstrap(samples=k)
    ctx.require(np.array_equal(bs, bs2), 'export_bootstrap:seeded-export-not-repeatable', lambda: {'name': name, 'N': n})
    # a different observable on the same chain (other data, other configuration numbers, same length) uses the same table;
    # the table is recovered from the exports of indicator observables when the chain is short, else through the reference table
    o2, _, _, cfgs2, chain2, _, _ = make_obs(rng, n, name=name)
    x2 = [chain2[c] for c in cfgs2]
    bsb = o2.export_bootstrap(samples=k)
    ctx.close(bsb[1:], R.bootstrap_means(x2, t), 'export_bootstrap:seeded-table-not-chain-consistent', 'second observable, same chain', rtol=boot_tol(n), scale=sample_scale(x2), atol=1e-300,
              detail={'name': name, 'N': n, 'samples': k})
    if n <= 12 and k <= 17:
        # recover the count table actually used, observable-independently: indicator data e_j
        counts = np.zeros((k, n))
        for j in range(n):
            e = np.zeros(n)
            e[j] = 1.0
            oe = PE.Obs([e], [name], idl=[cfgs])
            counts[:, j] = np.asarray(oe.export_bootstrap(samples=k))[1:] * n
        ctx.require(np.allclose(counts, R.count_matrix(t, n), rtol=0, atol=1e-9), 'export_bootstrap:seeded-table-not-chain-consistent',
                    lambda: {'name': name, 'N': n, 'recovered_counts': counts, 'reference_counts': R.count_matrix(t, n)})
        ctx.count('seeded_count_tables_recovered_from_indicators')
    # feeding the reference table back in gives the same numbers
    bs3 = o.export_bootstrap(k, random_numbers=t)
    ctx.close(bs3, bs, 'export_bootstrap:seeded-table-differs-from-md5-name-seed', 'explicit table vs default', rtol=1e-13, scale=sc, atol=1e-300)
    nontrivial(ctx, chain, 'bs_seed', name, k)
    ctx.sample({'function': 'export_bootstrap(seeded)', 'name': name, 'seed': R.name_seed(name), 'N': n, 'samples': k, 'table_row0_head': [int(j) for j in t[0][:6]],
                'boot_head': [float(v) for v in bs[:4]]})


def case_bs_import(ctx, idx, rng):
    nmax = 120 if ctx.tier == 'quick' else int(rng.choice([120, 120, 300, 500]))
    n, lc = length_class(rng, idx, nmax)
    o, name, idl, cfgs, chain, lkind, dkind = make_obs(rng, n, lkind=gen.IDL_KINDS[(idx // 3) % 4])
    x = [chain[c] for c in cfgs]
    k = int(rng.choice([n, n + 1, n + 3, 2 * n, 3 * n]))
    seeded = rng.random() < 0.25
    if seeded:
        t = R.default_table(name, k, n)
        bs = o.export_bootstrap(samples=k)
    else:
        t = rand_table(rng, k, n)
        bs = o.export_bootstrap(k, random_numbers=t)
    rank, cond = R.rank_and_condition(t, n)
    ctx.cell('import_bs', lkind, lc)
    ctx.count('judged:import_bootstrap:rejects-a-determined-table')
    ctx.cell('import_bs', 'samples==configurations' if k == n else 'samples>configurations')
    ti, form = table_form(rng, np.asarray(t), arrays_only=True)
    ctx.cell('import_table', form)
    handed = array_view(rng, bs)
    try:
        imp = PE.import_bootstrap(handed, name, ti)
        if idx % 2 == 0:
            # the same exported array imported a second time restores the same observable
            ctx.count('import_bs_second_import_of_the_same_array')
            imp = PE.import_bootstrap(handed, name, ti)
    except REJECT as e:
        ctx.ev()
        ctx.violation('import_bootstrap:rejects-a-determined-table', {'N': n, 'samples': k, 'rank': rank, 'exception': repr(e)})
        return
    if rank < n:
        ctx.count('rank_deficient_tables_not_judged')
        raise Skip()
    if cond > 1e5:
        ctx.count('discarded_ill_conditioned')
        raise Skip()
    compare_restored(ctx, imp, name, cfgs, x, R.mean(x), 'import_bootstrap', 1e-11 * cond, False)
    nontrivial(ctx, chain, 'bs_import', name, k)
    ctx.sample({'function': 'import_bootstrap', 'name': name, 'N': n, 'samples': k, 'cond': cond, 'seeded_table': bool(seeded)})


def case_bs_reject(ctx, idx, rng):
    n = int(rng.choice([5, 6, 9, 20, 60]))
    o, name, idl, cfgs, chain, lkind, dkind = make_obs(rng, n)
    if idx % 5 == 4:
        # the transforms are defined for one Monte-Carlo chain: an observable on two replicas, on two ensembles, with a covariance
        # input next to the chain, or made of a covariance input only must be refused, not exported as if it were one chain
        what = ['two-replicas', 'two-ensembles', 'chain+covariance', 'covariance-only'][(idx // 5) % 4]
        base = name.split('|')[0]
        if what == 'two-replicas':
            m = PE.Obs([rng.normal(size=n), rng.normal(size=n + 1)], [base + '|r1', base + '|r2'])
        elif what == 'two-ensembles':
            m = o + PE.Obs([rng.normal(size=n)], [base + 'x'])
        elif what == 'chain+covariance':
            m = o + PE.cov_Obs(0.3, 0.01, 'cvR')
        else:
            m = PE.cov_Obs(0.3, 0.01, 'cvR')
        ctx.cell('export', 'refusal', what)
        for fn, call in (('export_jackknife', lambda: m.export_jackknife()), ('export_bootstrap', lambda: m.export_bootstrap(samples=7)),
                         ('export_bootstrap', lambda: m.export_bootstrap(3, random_numbers=np.zeros((3, n), dtype=int)))):
            ctx.ev()
            ctx.count('judged:%s:accepted-an-observable-that-is-not-on-one-chain' % fn)
            ctx.count('export_refusals_required')
            try:
                got = call()
            except REJECT:
                continue
            ctx.violation('%s:accepted-an-observable-that-is-not-on-one-chain' % fn, {'observable': what, 'names': list(m.names), 'returned_head': np.asarray(got)[:4]})
        ctx.nontrivial.add(digest('export-refusal', what, n, name))
        return
    if idx % 3 == 2:
        # as many rows as needed, but one bootstrap sample too few / too many for the table: the pair does not belong together
        k = int(rng.choice([n, n + 2, 2 * n]))
        t = rand_table(rng, k, n)
        bs = o.export_bootstrap(k, random_numbers=t)
        bs = bs[:-1] if idx % 2 else np.concatenate([bs, bs[-1:]])
        ctx.count('import_bs_rejections_required')
        ctx.count('judged:import_bootstrap:accepted-inconsistent-shapes(workload)')
        ctx.cell('import_bs', 'samples-do-not-match-the-table')
        ctx.ev()
        try:
            imp = PE.import_bootstrap(bs, name, t)
        except REJECT:
            ctx.nontrivial.add(digest('reject-shape', name, n, k, sorted(chain.items())))
            return
        ctx.violation('import_bootstrap:accepted-inconsistent-shapes', {'N': n, 'rows': k, 'len_boots': len(bs), 'returned': repr(imp)})
        return
    k = int(rng.choice([1, 2, n // 2, n - 2, n - 1, n - 1]))
    t = rand_table(rng, k, n)
    bs = o.export_bootstrap(k, random_numbers=t)
    ctx.count('import_bs_rejections_required')
    ctx.count('judged:import_bootstrap:accepted-fewer-samples-than-configurations(workload)')
    ctx.cell('import_bs', 'fewer-samples-than-configurations', 'k=N-1' if k == n - 1 else 'k<N-1')
    ctx.ev()
    try:
        imp = PE.import_bootstrap(bs, name, t)
    except REJECT:
        ctx.nontrivial.add(digest('reject', name, n, k, sorted(chain.items())))
        return
    ctx.violation('import_bootstrap:accepted-fewer-samples-than-configurations', {'N': n, 'samples': k, 'returned': repr(imp)})


def case_derived(ctx, idx, rng):
    """single-chain observables that are results of arithmetic (union of different lists, rescaled fluctuations)"""
    n, lc = length_class(rng, idx, 200)
    n = max(n, 8)
    name = str(rng.choice(NAMES))
    a, _, _, cfgs, chain, lkind, dkind = make_obs(rng, n, name=name, dkind=str(rng.choice(['white', 'ar', 'distinct', 'alt'])))
    sub = sorted(set(cfgs[::2] + cfgs[1::3]))
    if len(sub) < 5:
        sub = cfgs
    b = PE.Obs([rng.normal(size=len(sub)) + 2.0], [name], idl=[sub])
    if (idx // 3) % 3 == 1:
        o = a * a + a - b * a          # the same observable in several slots of one operation
        ctx.cell('derived', 'same-object-in-several-slots')
    elif (idx // 3) % 3 == 2:
        # a spectator: an observable on other configurations of the chain that enters with weight exactly zero, first or last
        o = (0.0 * b + a) if idx % 2 else (np.cos(a) + 0.0 * b)
        ctx.cell('derived', 'spectator-with-zero-weight')
    else:
        o = np.sin(a) * b + a / (b * b + 1.0)
    sn = snap(o)
    ucfgs, d, rv = sn['chains'][name]
    x = [float(rv + v) for v in d]
    sc = sample_scale(x, o.value)
    jk = o.export_jackknife()          # judged by the monitor (call-level); here: round trip and variance
    ctx.cell('export_jk', 'derived', lc)
    o.gamma_method(S=0)
    ctx.count('jackknife_variance_identities')
    ctx.close(o.dvalue ** 2, R.jackknife_variance([float(v) for v in jk]), 'jackknife-variance-differs-from-squared-S0-error', 'derived observable', rtol=1e-8, atol=(1e-13 * sc) ** 2)
    imp = PE.import_jackknife(jk, name, idl=[list(ucfgs)])
    ctx.close(np.asarray(imp.deltas[name]), d, 'import_jackknife:fluctuations', 'derived observable', rtol=1e-12 * len(x), scale=sc, atol=1e-300)
    ctx.equal([int(i) for i in imp.idl[name]], [int(i) for i in ucfgs], 'import_jackknife:configuration-list', 'derived observable')
    ctx.close(imp.value, o.value, 'import_jackknife:value', 'derived observable', rtol=1e-14, scale=sc)
    k = int(rng.choice([len(x), 2 * len(x)]))
    t = rand_table(rng, k, len(x))
    bs = o.export_bootstrap(k, random_numbers=t)
    ctx.cell('export_bs_table', 'derived', lc)
    if len(x) <= 120:
        rank, cond = R.rank_and_condition(t, len(x))
        imb = PE.import_bootstrap(bs, name, t)
        if rank == len(x) and cond <= 1e5:
            ctx.close(np.asarray(imb.deltas[name]), d, 'import_bootstrap:fluctuations', 'derived observable', rtol=1e-11 * cond, scale=sc, atol=1e-300)
            ctx.close(imb.value, o.value, 'import_bootstrap:value', 'derived observable', rtol=1e-14, scale=sc)
    if float(np.max(np.abs(d))) > 0:
        ctx.nontrivial.add(digest('derived', name, ucfgs, d))
    ctx.sample({'function': 'derived observable export/import', 'name': name, 'N': len(x), 'union_of': [len(cfgs), len(sub)]})


TRAP_NAMES = ['A', 'A1', 'AB', 'A|r1', 'A|r10', 'A|r2', 'A|r01']


def case_history(ctx, idx, rng):
    """Histories that a cache keyed by a summary would get wrong: observables that agree in name and number of bootstrap
    samples but differ in length, agree in length but differ in name (names sharing prefixes), agree in name, length, first and
    last configuration but differ in the interior and in the data; requested in random order, interleaved with explicit tables,
    jackknife exports and analyses with other parameters; every request is judged by the monitors, every result is kept and
    must equal a later repetition of the same request bit for bit."""
    na, nb = [str(v) for v in rng.choice(TRAP_NAMES, size=2, replace=False)]
    n1 = int(rng.integers(5, 14))
    n2 = n1 + int(rng.integers(1, 4))
    pool = []
    o, _, _, cfgs, chain, _, _ = make_obs(rng, n1, name=na, lkind='contig')
    pool.append((o, na))
    pool.append((make_obs(rng, n2, name=na)[0], na))                      # same name, other length
    pool.append((make_obs(rng, n1, name=nb)[0], nb))                      # same length, other name
    # same name, length, first and last configuration as the first one - other interior, other data
    span = list(range(cfgs[0], cfgs[0] + 3 * n1))
    inner = sorted(rng.choice(span[1:-1], size=n1 - 2, replace=False).tolist())
    twin_cfgs = [span[0]] + inner + [span[-1]]
    pool.append((PE.Obs([rng.normal(size=n1) * 3 + 1], [na], idl=[twin_cfgs]), na))
    first = PE.Obs([rng.normal(size=n1)], [na], idl=[list(range(span[0], span[0] + n1 - 1)) + [span[-1]]])
    pool.append((first, na))
    # copies the library's own == and hash cannot tell apart from pool[0]: every sample shifted by 1e-12 of the scale, and an identical copy with a tag
    x0 = np.array([chain[c] for c in cfgs])
    shift = 2.0 ** -40 * max(1.0, float(np.max(np.abs(x0))))
    shifted = PE.Obs([x0 + shift], [na], idl=[cfgs])
    tagged = PE.Obs([x0.copy()], [na], idl=[cfgs])
    tagged.tag = 'copy'
    t_eq = rng.integers(0, n1, size=(4, n1))
    for first_ in ((pool[0][0], shifted, tagged), (shifted, tagged, pool[0][0]))[idx % 2]:
        first_.export_jackknife()
        first_.export_bootstrap(4, random_numbers=t_eq)          # whatever a cache would remember, in both orders
    for fn in (lambda q: q.export_jackknife(), lambda q: q.export_bootstrap(4, random_numbers=t_eq), lambda q: q.export_bootstrap(samples=4)):
        a0, a1, a2 = fn(pool[0][0]), fn(shifted), fn(tagged)
        ctx.count('indistinguishable_copies_exported')
        ctx.close(a1 - a0, np.full(len(a0), shift), 'export:copy-shifted-by-1e-12-exported-as-the-original', 'difference of the exports', rtol=1e-3, scale=shift, atol=0.0)
        ctx.require(np.array_equal(a2, a0), 'export:tagged-copy-exported-differently', None)
    ks = [3, 17]
    requests = []
    for _ in range(14):
        j = int(rng.integers(0, len(pool)))
        mode = str(rng.choice(['seeded', 'seeded', 'seeded', 'table', 'jackknife', 'analyse']))
        requests.append((j, mode, int(rng.choice(ks))))
    held = {}
    tables = {}
    for j, mode, k in requests + requests[::-1]:
        o, name = pool[j]
        ctx.count('history_requests')
        if mode == 'analyse':
            o.gamma_method(S=float(rng.choice([0, 1, 2, 3])))       # state stored on the object must not matter
            continue
        if mode == 'seeded':
            res = o.export_bootstrap(samples=k)
        elif mode == 'table':
            key = (j, k)
            if key not in tables:
                tables[key] = rng.integers(0, o.N, size=(k, o.N))
            res = o.export_bootstrap(k, random_numbers=tables[key])      # an explicit table wins over the seeding, whatever came before
        else:
            res = o.export_jackknife()
        key = (j, mode, k if mode != 'jackknife' else 0)
        if key in held:
            ctx.ev()
            ctx.count('judged:history:same-request-gives-different-samples-later')
            if not np.array_equal(held[key][0], res):
                ctx.violation('history:same-request-gives-different-samples-later', {'request': [name, o.N, mode, k]})
        else:
            held[key] = (res, res.copy())
    # two lists with equal length, first and last configuration but other members: each import must carry the list it was given
    for j, cf in ((0, cfgs), (3, twin_cfgs)):
        jk = pool[j][0].export_jackknife()
        imp = PE.import_jackknife(jk, pool[j][1], [list(cf)])
        ctx.equal([int(i) for i in imp.idl[pool[j][1]]], [int(i) for i in cf], 'import_jackknife:configuration-list', 'equal summary, other members')
    for key, (res, cp) in held.items():
        ctx.ev()
        ctx.count('held_results_rechecked')
        ctx.count('judged:history:returned-array-changed-by-later-calls')
        if not np.array_equal(res, cp):
            ctx.violation('history:returned-array-changed-by-later-calls', {'request': list(key)})
    ctx.cell('history', 'names', 'prefix' if na.split('|')[0] in nb or nb.split('|')[0] in na else 'other')
    ctx.nontrivial.add(digest('history', na, nb, n1, n2, requests))
    ctx.sample({'history': [[pool[j][1], pool[j][0].N, mode, k] for j, mode, k in requests]})


def case_scale(ctx, idx, rng):
    """the same chain multiplied by c: every exported number is multiplied by c, the import restores c x (absolute
    tolerances inside the library would show up as scale dependence)"""
    n = int(rng.choice([5, 9, 30, 80]))
    name = str(rng.choice(NAMES))
    idl, cfgs, chain, lkind, dkind = make_chain(rng, n, dkind=str(rng.choice(['white', 'ar', 'distinct', 'counts', 'alt'])))
    x = np.array([chain[c] for c in cfgs])
    c = float([2.0 ** -27, 2.0 ** 27, 1e-8, 1e8, 2.0 ** -60, 2.0 ** 60, 1e-15, 1e15][idx % 8])
    k = int(rng.choice([n, 2 * n]))
    t = rand_table(rng, k, n)
    base = PE.Obs([x], [name], idl=[idl])
    scaled = PE.Obs([c * x], [name], idl=[idl])
    jb, js = base.export_jackknife(), scaled.export_jackknife()
    bb, bs = base.export_bootstrap(k, random_numbers=t), scaled.export_bootstrap(k, random_numbers=t)
    sb, ss = base.export_bootstrap(samples=k), scaled.export_bootstrap(samples=k)
    sc = sample_scale(x) * abs(c)
    ctx.count('scale_relations')
    ctx.cell('scale', 'c=%g' % c)
    ctx.close(js, c * jb, 'export_jackknife:not-homogeneous-in-the-data', 'c = %g' % c, rtol=1e-13, scale=sc, atol=0.0)
    ctx.close(bs, c * bb, 'export_bootstrap:not-homogeneous-in-the-data', 'c = %g, table' % c, rtol=1e-13, scale=sc, atol=0.0)
    ctx.close(ss, c * sb, 'export_bootstrap:not-homogeneous-in-the-data', 'c = %g, seeded' % c, rtol=1e-13, scale=sc, atol=0.0)
    xs = [float(v) for v in c * x]
    imp = PE.import_jackknife(js, name, [idl])
    compare_restored(ctx, imp, name, cfgs, xs, R.mean(xs), 'import_jackknife', 1e-12 * n, True)
    rank, cond = R.rank_and_condition(t, n)
    if rank == n and cond <= 1e5:
        imb = PE.import_bootstrap(bs, name, t)
        compare_restored(ctx, imb, name, cfgs, xs, R.mean(xs), 'import_bootstrap', 1e-11 * cond, False)
    scaled.gamma_method(S=0)
    base.gamma_method(S=0)
    ctx.close(scaled.dvalue, abs(c) * base.dvalue, 'jackknife-variance-differs-from-squared-S0-error', 'scaled chain', rtol=1e-12, atol=0.0)
    ctx.close(scaled.dvalue ** 2, R.jackknife_variance([float(v) for v in js]), 'jackknife-variance-differs-from-squared-S0-error', 'scaled chain, exported samples', rtol=1e-8,
              atol=(1e-13 * sc) ** 2)
    nontrivial(ctx, chain, 'scale', name, c)


NONLINEAR = [('square', lambda m: m * m), ('exp', lambda m: np.exp(0.7 * m)), ('ratio', lambda m: np.exp(2.5 * m) / (1.0 + m * m)),
             ('inverse', lambda m: 1.0 / (3.0 + m * m)), ('sin', lambda m: np.sin(1.3 * m))]


def judge_biased_import(ctx, imp, name, jk, cfgs, what, vtol=0.0):
    """imported observable against the array it came from, when entry 0 is NOT the mean of the other entries:
    value = entry 0; fluctuations = (N-1) (mean(J) - J_i), centred on their own mean; squared S=0 error = jackknife variance"""
    from fractions import Fraction
    n = len(jk) - 1
    f = [Fraction(float(v)) for v in jk[1:]]
    jb = sum(f) / n
    exp = [float((n - 1) * (jb - v)) for v in f]
    sc = max(abs(float(v)) for v in jk)
    dsc = max(max(abs(v) for v in exp), 1e-300)
    ctx.count('imports_with_entry0_different_from_the_sample_mean')
    ctx.close(imp.value, float(jk[0]), 'import_jackknife:value-not-entry0', what, rtol=0.0, atol=vtol * sc)
    tol = 4e-14 * n * sc
    ctx.close(np.asarray(imp.deltas[name], dtype=float), exp, 'import_jackknife:fluctuations-not-centred-on-the-mean-of-the-samples', what, rtol=0.0, atol=tol,
              detail={'entry0_minus_mean_of_samples': float(Fraction(float(jk[0])) - jb), 'fluctuation_scale': dsc, 'N': n})
    ctx.close(float(np.sum(imp.deltas[name])), 0.0, 'import_jackknife:fluctuations-do-not-sum-to-zero', what, rtol=0.0, atol=tol * n)
    ctx.equal([int(i) for i in imp.idl[name]], [int(i) for i in cfgs], 'import_jackknife:configuration-list', what)
    imp.gamma_method(S=0)
    var = R.jackknife_variance([float(v) for v in jk])
    ctx.count('jackknife_variance_identities')
    ctx.close(imp.dvalue ** 2, var, 'jackknife-variance-differs-from-squared-S0-error', what + ' (entry 0 differs from the mean of the samples)', rtol=var_rtol(n, sc, var, True), atol=(1e-13 * sc) ** 2)


def judge_roundtrip_of(ctx, o, name, what):
    """export -> import of an observable whose central value is not its replica mean: value, fluctuations and configuration
    list come back (the replica mean cannot: the exported array carries one number for both)"""
    d0 = np.array(o.deltas[name], dtype=float)
    cf = [int(i) for i in o.idl[name]]
    jk = o.export_jackknife()                       # call-level judgement by the monitor
    back = PE.import_jackknife(jk, name, [cf])
    sc = max(float(np.max(np.abs(jk))), 1e-300)
    n = len(cf)
    ctx.close(back.value, o.value, 'import_jackknife:value', what, rtol=0.0, atol=0.0)
    ctx.close(np.asarray(back.deltas[name], dtype=float), d0, 'import_jackknife:fluctuations', what, rtol=0.0, atol=4e-14 * n * sc)
    ctx.equal([int(i) for i in back.idl[name]], cf, 'import_jackknife:configuration-list', what)
    back.gamma_method(S=0)
    o.gamma_method(S=0)
    vj = R.jackknife_variance([float(v) for v in jk])
    ctx.close(back.dvalue ** 2, o.dvalue ** 2, 'import_jackknife:naive-error-not-restored', what, rtol=var_rtol(n, sc, vj, True), atol=(1e-13 * sc) ** 2)
    ctx.close(back.dvalue ** 2, vj, 'jackknife-variance-differs-from-squared-S0-error', what, rtol=var_rtol(n, sc, vj, True), atol=(1e-13 * sc) ** 2)
    return back


def case_biased(ctx, idx, rng):
    """Inputs in which two numbers that coincide for a plain observable differ: entry 0 of the array is not the mean of the
    other entries (jackknife / bootstrap samples of a non-linear function, arbitrary central value), the central value of an
    observable is not its replica mean (imported ones, things derived from them, jackknife matrix products)."""
    how = ['nonlinear', 'nonlinear', 'arbitrary-entry0', 'derived-from-imported', 'jack_matmul', 'bootstrap-nonlinear'][idx % 6]
    n = [5, 6, 12, 30, 80, 200][(idx // 6) % 6]
    name = str(rng.choice(NAMES))
    idl, cfgs, chain, lkind, dkind = make_chain(rng, n, dkind=str(rng.choice(['white', 'ar', 'distinct', 'alt'])))
    x = np.array([chain[c] for c in cfgs]) * 0.5 + 0.8
    fname, f = NONLINEAR[(idx // 36) % len(NONLINEAR)]
    ctx.cell('biased', how, lkind)
    loo = (np.sum(x) - x) / (n - 1)
    if how in ('nonlinear', 'arbitrary-entry0', 'derived-from-imported'):
        jk = np.concatenate([[f(np.mean(x))], f(loo)])
        if how == 'arbitrary-entry0':
            jk[0] = float(np.mean(jk[1:]) + rng.normal() * (np.std(jk[1:]) + 1e-3))
        jin = array_view(rng, jk)
        imp = PE.import_jackknife(jin, name, [idl])          # call-level: monitor (samples, replica mean, sum of fluctuations, argument unchanged)
        judge_biased_import(ctx, imp, name, jk, cfgs, how + ' ' + fname)
        # second use of the same array
        imp2 = PE.import_jackknife(jin, name, [idl])
        ctx.close(np.asarray(imp2.deltas[name]), np.asarray(imp.deltas[name]), 'import_jackknife:second-import-of-the-same-array-differs', how, rtol=0.0, atol=0.0)
        o = imp
        if how == 'derived-from-imported':
            o = 3.0 * imp + imp * imp - np.sin(imp)
        back = judge_roundtrip_of(ctx, o, name, how + ' ' + fname)
        judge_roundtrip_of(ctx, back, name, how + ' ' + fname + ', second round trip')
        ctx.nontrivial.add(digest('biased', how, fname, name, sorted(chain.items())))
        ctx.sample({'how': how, 'function': fname, 'N': n, 'entry0': float(jk[0]), 'mean_of_samples': float(np.mean(jk[1:])), 'jack_head': [float(v) for v in jk[:4]]})
    elif how == 'jack_matmul':
        # jackknife matrix products export every entry, multiply sample by sample and import the products: entry 0 is a
        # product of means, not the mean of the products.  Every internal export / import is judged by the monitors.
        dim = 2
        mk = lambda: np.array([[PE.Obs([rng.normal(size=n) * 0.4 + 1.0 + i + j], [name], idl=[idl]) for j in range(dim)] for i in range(dim)])   # noqa: E731
        A, B = mk(), mk()
        C = PE.linalg.jack_matmul(A, B) if idx % 12 < 6 else PE.linalg.einsum('ij,jk', A, B)
        ctx.count('jackknife_matrix_products')
        for i in range(dim):
            for j in range(dim):
                c = C[i, j]
                # entry (i,j) sample by sample, recomputed from the operands' exported samples; the entry of the product is
                # the import of these numbers (entry 0 = product of the central values, not the mean of the products)
                ref = sum(A[i, k].export_jackknife() * B[k, j].export_jackknife() for k in range(dim))
                judge_biased_import(ctx, c, name, ref, cfgs, 'entry of a jackknife matrix product', vtol=1e-14)      # the library sums the products in another order
                judge_biased_import(ctx, PE.import_jackknife(ref, name, [idl]), name, ref, cfgs, 'product of jackknife samples')
                judge_roundtrip_of(ctx, c, name, 'jack_matmul entry')
        ctx.nontrivial.add(digest('biased', how, name, sorted(chain.items())))
    else:
        # bootstrap samples of a non-linear function: entry 0 = f(mean), entry k = f(mean over the resampled configurations)
        n = min(n, 80)
        x = x[:n]
        k = int(rng.choice([n, n + 2, 2 * n]))
        t = rand_table(rng, k, n)
        rank, cond = R.rank_and_condition(t, n)
        if rank < n or cond > 1e5:
            ctx.count('discarded_ill_conditioned')
            raise Skip()
        means = np.array(R.bootstrap_means([float(v) for v in x], t))
        if k == n:
            bs = np.concatenate([[f(np.mean(x))], f(means)])          # square table: any right-hand side determines the samples
        else:
            bs = np.concatenate([[f(np.mean(x))], means])             # more samples than configurations: a consistent system, entry 0 is not its mean
        imb = PE.import_bootstrap(array_view(rng, bs), name, t)          # call-level: monitor (value, residual, centring)
        # reference solution of the linear system counts/N * y = B[1:] (numpy least squares on the reference count matrix)
        cm = R.count_matrix(t, n) / n
        y = np.linalg.lstsq(cm, bs[1:], rcond=None)[0]
        sc = float(np.max(np.abs(bs)))
        ctx.count('imports_with_entry0_different_from_the_sample_mean')
        ctx.close(imb.value, bs[0], 'import_bootstrap:value', 'non-linear function', rtol=0.0, atol=0.0)
        ctx.close(np.asarray(imb.deltas[name], dtype=float), y - np.mean(y), 'import_bootstrap:fluctuations-not-centred-on-the-mean-of-the-samples', 'non-linear function ' + fname,
                  rtol=0.0, atol=1e-10 * cond * sc, detail={'entry0_minus_mean': float(bs[0] - np.mean(y)), 'cond': cond})
        ctx.close(float(np.sum(imb.deltas[name])), 0.0, 'import_bootstrap:fluctuations-do-not-sum-to-zero', 'non-linear function', rtol=0.0, atol=1e-10 * cond * sc * n)
        ctx.nontrivial.add(digest('biased', how, fname, name, [float(v) for v in x]))


def run_case(ctx, kind, idx, rng):
    if kind == 'jk':
        case_jk(ctx, idx, rng)
    elif kind == 'bs_table':
        case_bs_table(ctx, idx, rng)
    elif kind == 'bs_seed':
        case_bs_seed(ctx, idx, rng)
    elif kind == 'bs_import':
        case_bs_import(ctx, idx, rng)
    elif kind == 'bs_reject':
        case_bs_reject(ctx, idx, rng)
    elif kind == 'derived':
        case_derived(ctx, idx, rng)
    elif kind == 'history':
        case_history(ctx, idx, rng)
    elif kind == 'scale':
        case_scale(ctx, idx, rng)
    elif kind == 'biased':
        case_biased(ctx, idx, rng)
    else:
        raise ValueError(kind)
