"""C02 - Gamma-method numbers equal Wolff's estimator on every chain layout.

A reference-model monitor is tapped on Obs.gamma_method: every analysis performed anywhere in the
workload is recomputed by ref.gamma (pair-count formulation, no FFT) from a snapshot of the object
and from the effective parameters in force at call time, and compared field by field.
"""
import numpy as np

from .. import taps, gen
from ..gm_monitor import GammaMonitor

ID = 'C02'
LEVEL = 'exploration'
DECIDING = ['tap:Obs.gamma_method', 'gm_calls_judged']
RULE = ('cases: observables on 1-3 ensembles x 1-3 replicas with contiguous / strided / gapped lists (common spacing), lengths 5-60 '
        '(quick) or up to 500 (thorough), white / AR(1) / constant / alternating / count data, S in {0,.5,1,2,3,6}, tau_exp in {0,1.5,5,20}, '
        'N_sigma in {0,1,2}, parameters via argument / per-ensemble dictionary / global, fft on/off, with and without covariance inputs; '
        'non-trivial: Gamma(0) > 0 and window >= 1, or the tail / S=0 branch was taken, or the expected exception occurred; '
        'distinct = digest of (observable data, effective parameters, fft)')
ASSUMPTIONS = ['maximal lag and tail cap follow the documented conventions (DESIGN C02)',
               'window decisions within 1e-9 relative (1e-12 absolute) of zero are borderline: the outcome taken by the code is followed',
               'FFT vs direct summation compared with rtol 1e-8 (rho: atol 1e-9)']
BUDGET = {'quick': 45, 'thorough': 540}

PE = None
MON = None


def setup(ctx):
    global PE, MON
    import pyerrors as pe
    PE = pe
    MON = GammaMonitor(ctx, pe.Obs, judge=True)
    taps.tap_method(pe.Obs, 'gamma_method', MON)


def teardown(ctx):
    taps.report(ctx)
    taps.remove_all()


def plan(tier):
    m = 3 if tier == 'quick' else 80
    return [('analysis', 1400 * m), ('short', 150 * m), ('long', 40 * m), ('derived', 150 * m), ('siblings', 60 * m), ('unequal', 120 * m)]


class saved_class_state:
    def __enter__(self):
        O = PE.Obs
        self.s = (O.S_global, dict(O.S_dict), O.tau_exp_global, dict(O.tau_exp_dict), O.N_sigma_global, dict(O.N_sigma_dict))

    def __exit__(self, *a):
        O = PE.Obs
        O.S_global, sd, O.tau_exp_global, td, O.N_sigma_global, nd = self.s
        O.S_dict.clear(); O.S_dict.update(sd)
        O.tau_exp_dict.clear(); O.tau_exp_dict.update(td)
        O.N_sigma_dict.clear(); O.N_sigma_dict.update(nd)


def make_obs(rng, nmin, nmax, kinds=None, data=None, nens=None):
    pe = PE
    nens = int(rng.choice([1, 1, 1, 2, 3])) if nens is None else nens
    o = None
    for e in rng.choice(gen.ENS_POOL, size=nens, replace=False):
        reps = gen.rand_reps(rng, 3, allow_bare=True)
        # per ensemble one spacing g; replicas may use multiples of it
        g = int(rng.choice([1, 1, 2, 3, 5]))
        tab = {}
        forms = {}
        for r in reps:
            name = str(e) if r is None else '%s|%s' % (e, r)
            n = int(rng.integers(nmin, nmax + 1))
            kind = str(rng.choice(kinds or ['contig', 'strided', 'gapped']))
            start = int(rng.integers(1, 80))
            if kind == 'contig':
                idl = list(range(start, start + n * g, g))
            elif kind == 'strided':
                k = int(rng.choice([2, 4]))  # every replica spacing is a multiple of the smallest one
                idl = list(range(start, start + n * g * k, g * k))
                # the ensemble gap is the smallest replica spacing: fine, all are multiples of g
            else:
                idl = list(gen.rand_idl(rng, n, 'gapped', start=start, step=g, as_type='list'))
            x = gen.rand_data(rng, len(idl), str(rng.choice(data or ['white', 'ar', 'ar', 'const', 'alt', 'counts', 'large', 'small'])))
            tab[name] = {int(c): float(v) for c, v in zip(idl, x)}
            forms[name] = str(rng.choice(['list', 'ndarray', 'native']))
        oo = gen.table_to_obs(pe, tab, forms)
        o = oo if o is None else o + oo
    if rng.random() < 0.2:
        dim = int(rng.integers(1, 4))
        cv = pe.cov_Obs(rng.normal(size=dim).tolist(), gen.cov_matrix(rng, dim), 'cvG')
        cv = [cv] if dim == 1 else cv
        o = o + sum(float(rng.normal()) * c for c in cv)
    return o


def analyse(ctx, rng, o):
    O = PE.Obs
    S = float(rng.choice([0, 0.5, 1, 2, 3, 6]))
    te = float(rng.choice([0, 0, 0, 1.5, 5, 20]))
    ns = float(rng.choice([0, 1, 1, 2]))
    fft = bool(rng.integers(0, 2))
    source = str(rng.choice(['argument', 'dictionary', 'global', 'mixed']))
    kw = {}
    with saved_class_state():
        ens = sorted(set(n.split('|')[0] for n in o.names))
        if source == 'argument':
            kw = dict(S=S, tau_exp=te, N_sigma=ns)
            if rng.random() < 0.3:
                kw['S'] = int(S) if float(int(S)) == S else S
        elif source == 'dictionary':
            for e in ens:
                O.S_dict[e] = float(rng.choice([0, 0.5, 1, 2, 3, 6]))
                O.tau_exp_dict[e] = float(rng.choice([0, 0, 1.5, 5]))
                O.N_sigma_dict[e] = float(rng.choice([0, 1, 2]))
        elif source == 'global':
            O.S_global, O.tau_exp_global, O.N_sigma_global = S, te, ns
        else:
            O.S_global = S
            O.tau_exp_dict[ens[0]] = te
            kw = dict(N_sigma=ns)
            O.S_dict['unrelated'] = 0.1
        if not fft:
            kw['fft'] = False
        ctx.cell('source', source)
        try:
            route = rng.random()
            ctx.cell('route', 'gm' if route < 0.15 else 'vectorised' if route < 0.25 else 'CObs' if route < 0.32 else 'Corr' if route < 0.38 else 'method')
            if route < 0.15:
                o.gm(**kw)
            elif route < 0.25:
                # the module-level vectorised entry points
                (PE.gamma_method if rng.random() < 0.5 else PE.gm)([o] if rng.random() < 0.5 else np.array([o]), **kw)
            elif route < 0.32:
                PE.CObs(o, 0.5 * o).gamma_method(**kw)
            elif route < 0.38:
                PE.Corr([o, 2.0 * o]).gamma_method(**kw)
            else:
                o.gamma_method(**kw)
        except ValueError as e:
            if 'at least 8 samples' not in str(e):
                raise
    return dict(S=S, tau_exp=te, N_sigma=ns, fft=fft, source=source)


def case_siblings(ctx, rng):
    """Several observables that share everything a cache key might be built from - chain names, first and
    last configuration, number of configurations, spacing, window range - but have their holes at
    different places and different data; analysed one after the other in this process with the same
    parameters.  Each must equal the reference for ITS OWN pairs (added after seeded change seed3-C02)."""
    pe = PE
    e = str(rng.choice(gen.ENS_POOL))
    reps = gen.rand_reps(rng, 2, allow_bare=True)
    g = int(rng.choice([1, 2, 3]))
    layout = {}
    for r in reps:
        name = e if r is None else '%s|%s' % (e, r)
        n = int(rng.integers(12, 50))
        span = n + int(rng.integers(3, n))          # grid points between first and last
        layout[name] = (int(rng.integers(1, 40)), n, span)
    kw = dict(S=float(rng.choice([0.5, 1, 2, 3])), fft=bool(rng.integers(0, 2)))
    if rng.random() < 0.3:
        kw['tau_exp'] = float(rng.choice([1.5, 5]))
    kinds = ['ar', 'white', 'ar']
    for k in range(3):
        tab = {}
        for name, (first, n, span) in layout.items():
            inner = sorted(rng.choice(np.arange(1, span - 1), size=n - 2, replace=False).tolist())
            grid = [0] + inner + [span - 1]
            if not any(b - a == 1 for a, b in zip(grid, grid[1:])):
                grid[1] = 1                         # keep the smallest spacing equal to g
                grid = sorted(set(grid))
            idl = [first + g * i for i in grid]
            x = gen.rand_data(rng, len(idl), kinds[k])
            tab[name] = {int(c): float(v) for c, v in zip(idl, x)}
        o = gen.table_to_obs(pe, tab)
        try:
            o.gamma_method(**kw)
        except ValueError as ex:
            if 'at least 8 samples' not in str(ex):
                raise
    ctx.cell('siblings', 'reps%d' % len(layout))


def case_unequal(ctx, rng):
    """Replicas of very unequal length with drifting / random-walk signals (long windows): the short replicas stop contributing
    pairs at lags below the window and below w_max = max(replica extent) // 2, so numerator and pair count of Gamma(t) lose
    replicas one after the other as t grows.  (A window that reaches w_max itself is only possible for chains of 5-7
    configurations - g_W turns negative at once for large S and long before w_max for small S - and is produced by the kind
    'short'.)"""
    pe = PE
    e = str(rng.choice(gen.ENS_POOL))
    lengths = [[int(rng.integers(20, 61))], [int(rng.integers(30, 61)), int(rng.integers(5, 12))],
               [int(rng.integers(40, 81)), int(rng.integers(8, 16)), int(rng.integers(5, 8))]][int(rng.integers(0, 3))]
    if len(lengths) == 1 and rng.random() < 0.3:
        reps = [None]
    else:
        reps = sorted(rng.choice(gen.REP_POOL, size=len(lengths), replace=False).tolist())
    g = int(rng.choice([1, 1, 2, 3]))
    order = rng.permutation(len(lengths))
    tab = {}
    for r, j in zip(reps, order):
        n = lengths[int(j)]
        name = e if r is None else '%s|%s' % (e, r)
        start = int(rng.integers(1, 50))
        if rng.random() < 0.6:
            idl = list(range(start, start + n * g, g))
        else:
            idl = list(gen.rand_idl(rng, n, 'gapped', start=start, step=g, as_type='list'))
        n = len(idl)
        style = int(rng.integers(0, 3))
        if style == 0:
            x = np.cumsum(rng.normal(size=n))                            # random walk
        elif style == 1:
            x = np.linspace(-1.0, 1.0, n) * float(rng.uniform(1, 5)) + 0.05 * rng.normal(size=n)     # drift
        else:
            x = np.sin(np.arange(n) * np.pi / max(n, 8)) * 3.0 + 0.05 * rng.normal(size=n)           # half a period
        tab[name] = {int(c): float(v) for c, v in zip(idl, x)}
    o = gen.table_to_obs(pe, tab, {n_: str(rng.choice(['list', 'ndarray', 'native'])) for n_ in tab})
    kw = dict(S=float(rng.choice([1, 2, 3, 6])), fft=bool(rng.integers(0, 2)))
    if rng.random() < 0.25:
        kw['tau_exp'] = float(rng.choice([1.5, 5, 20]))
        kw['N_sigma'] = float(rng.choice([0, 1, 2]))
    try:
        o.gamma_method(**kw)
    except ValueError as ex:
        if 'at least 8 samples' not in str(ex):
            raise
    ctx.cell('unequal_replicas', 'reps%d' % len(lengths), 'fft' if kw['fft'] else 'direct', 'tail' if 'tau_exp' in kw else 'window')
    ctx.sample({'kind': 'unequal', 'lengths': {n_: len(d) for n_, d in tab.items()}, 'params': kw, 'windows': getattr(o, 'e_windowsize', None)})


def run_case(ctx, kind, idx, rng):
    if kind == 'siblings':
        return case_siblings(ctx, rng)
    if kind == 'unequal':
        return case_unequal(ctx, rng)
    nmax = 60 if ctx.tier == 'quick' else int(rng.choice([60, 150, 500]))
    if kind == 'analysis':
        o = make_obs(rng, 5, nmax)
    elif kind == 'short':
        o = make_obs(rng, 5, 9, nens=1)
    elif kind == 'long':
        o = make_obs(rng, 100, 250 if ctx.tier == 'quick' else 500, nens=1, data=['ar', 'white'])
    else:
        # derived observables: analyses of results of arithmetic (unions of lists, rescaled fluctuations)
        a = make_obs(rng, 8, nmax, nens=1)
        e = sorted(a.names)[0].split('|')[0]
        tab = {n: {c: float(rng.normal()) for c in list(a.idl[n])[::2] + list(a.idl[n])[1::4]} for n in a.names if n not in a.covobs}
        tab = {n: d for n, d in tab.items() if len(d) >= 5}
        if not tab:
            tab = {n: {c: float(rng.normal()) for c in a.idl[n]} for n in a.names if n not in a.covobs}
        b = gen.table_to_obs(PE, tab)
        o = a * np.exp(b) + np.sin(a)
    p = analyse(ctx, rng, o)
    ctx.sample({'names': list(o.names), 'lengths': {n: o.shape[n] for n in o.names if n in o.shape},
                'params': p, 'dvalue': getattr(o, '_dvalue', None), 'windows': getattr(o, 'e_windowsize', None)})
