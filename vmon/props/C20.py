"""C20 - constant tables and special-function derivatives are mathematically exact.

Finite tables are enumerated completely on every run (both tiers):
  algebra    {gamma_mu, gamma_nu} = 2 delta (16 pairs, on the named matrices and on the stacked array), hermiticity,
             gamma5 = gx gy gz gt, gamma5 hermitian / squares to one / anticommutes with each gamma_mu, identity
  grid_tag   all 16 Grid tags against products / commutators recomputed by ref.tables (nested-list complex
             arithmetic, own tag grammar); 32 tags outside the table must be rejected
  eps3/eps4  all 125 + 625 index tuples of {0..4}^3 / {0..4}^4 (as Python ints and as numpy integers) against the
             permutation sign by inversion count; tuples outside both admissible index sets must be rejected;
             eps_out: tuples with entries outside 0..4 (negative, 5, 7) must be rejected
Sampled on grids (the function spaces are not finite):
  kn         K_n of an observable, n = 0..6, 200 (quick) / 2000 (thorough) arguments log-spaced in (0.05, 20):
             value, fluctuations on every chain, replica means, covariance gradients against mpmath besselk at
             40 digits and the dense propagation model with derivative -(K_{n-1} + K_{n+1})/2
  special    the other 30 re-exported functions through derived_observable on a grid inside their domains
             against mpmath values and numerically differentiated (40 digits) mpmath derivatives
"""
import numpy as np

from ..ctx import digest, Skip
from ..snap import snap, obs_digest
from ..compare import compare_obs
from ..ref import dense, tables, specfun

ID = 'C20'
LEVEL = 'exploration'
EXHAUSTIVE = True
DECIDING = ['boundary_applications', 'constant_table_checks', 'held_results_rechecked', 'algebra_relations', 'grid_tags_known', 'grid_tags_rejected', 'eps3_tuples', 'eps4_tuples',
            'eps_rejected', 'kn_applications', 'special_applications']
RULE = ('tables: enumerated completely on every run (16 Clifford pairs x 2 spellings + 19 further relations, 16 + 32 Grid tags, '
        '125 + 625 + 32 index tuples, each as Python ints, numpy int8/16/32/64/intp, uint8/16/32/64, elements of an int32 array, a list, mixed signed types and bools where the index is 0/1) - exhaustive; the constant tables are compared with their state at import after every case, Grid structures and special-function results are held and re-checked after later calls; a table entry is non-trivial when a non-zero '
        'sign / a non-zero matrix was compared or a rejection was required, distinct = the entry itself. '
        'K_n and the 30 other special functions are SAMPLED: orders 0..6 on each point of a log grid of arguments in (0.05, 20) (200 quick / 2000 thorough, '
        'jittered by the seed), other functions on 20 (quick) / 120 (thorough) points per parameter choice inside the domain; argument observables on one chain, '
        'two replicas, chain + covariance input, covariance only; non-trivial when the reference derivative is non-zero; distinct = (function, parameters, argument digest). Second hardening: logsumexp with 12 / 40 / 120 arguments, with a spectator argument of weight exactly 0 in the first / middle / last slot and with arguments near +-800; function objects re-used across cases and fresh ones with equal code; arguments compared with their digest before the call, the same argument objects applied a second time; all tables evaluated once more at the end of every worker process; counters judged:<mechanism> give the number of evaluations of every judgement. Degenerate kind: non-integer orders of K_n must be refused (number and observable argument), logsumexp of one argument and of all-equal arguments, beta / betaln with equal central values on different data. Boundary kind: about 75 regular points at which a derivative rule may be singular or degenerate (argument exactly 0 for iv / ive / jn / j0 / j1 / i0 / i1 / erf / erfc / erfinv / expit, erfcinv at 1, logit at 1/2, zeros of gammaln, zeros of 1/Gamma, integer and negative orders of iv / ive / jn / yn / kn incl. float and numpy-integer orders, negative arguments, expit(+-800), erf(+-30)), each on four observable layouts whose central value and replica means hit the point exactly, 12 (quick) / 60 (thorough) times')
ASSUMPTIONS = ['mpmath besselk/besselj/.../gammainc/betainc at 40 digits are correct; derivatives by a 50-digit symmetric difference quotient validated against mpmath.diff; K_n from the upward recurrence, cross-checked against direct besselk and (closed-form vs numerical) derivative on every 16th argument',
               'special-function values in double precision (scipy) are compared at rtol 2e-13 (1e-12 for inverse / incomplete / polygamma functions) of the condition-number scale, derivatives at 1e-12 / 1e-11 of the fluctuation scale max(|f prime|, 1e-3 |f| max(1,|x|)) - measured worst deviations on 5 000 thorough cases: 1.6e-14 and 7e-14 (jn next to an extremum 3e-13); covariance gradients at 1e-11 (shared comparison routine)',
               'derivatives are only claimed with respect to the arguments autograd differentiates (not the order of jn/yn/iv/ive/polygamma, not a of gammainc/betainc)',
               'rejection = ValueError / TypeError / LookupError; any other exception type is reported as accidental',
               'numpy / scipy / autograd as installed in /venv']
BUDGET = {'quick': 45, 'thorough': 400}

PE = None
REJECT = (ValueError, TypeError, LookupError)

# ------------------------------------------------------------------------------------------
# enumeration tables
ALGEBRA = ([('clifford-named', mu, nu) for mu in range(4) for nu in range(4)] +
           [('clifford-stacked', mu, nu) for mu in range(4) for nu in range(4)] +
           [('hermitian', mu) for mu in range(4)] + [('stack-is-named', mu) for mu in range(4)] +
           [('gamma5-anticommutes', mu) for mu in range(4)] +
           [('gamma5-product',), ('gamma5-hermitian',), ('gamma5-squares-to-one',), ('identity',),
            ('traceless',), ('shapes',), ('sigma-antisymmetric-and-hermiticity',)])
TAGS = [('known', t) for t in tables.GRID_TAGS] + [('unknown', t) for t in tables.UNKNOWN_TAGS]
EPS3 = tables.all_tuples(3)
EPS4 = tables.all_tuples(4)
EPS_OUT = ([(5, 1, 2), (1, 5, 2), (1, 2, 5), (-1, 0, 1), (0, -1, 1), (0, 1, -1), (7, 7, 7), (-1, -1, -1), (3, 4, 5), (-1, 1, 2), (1, 2, -3),
            (2, 3, 4), (4, 3, 2), (0, 3, 4), (10 ** 20, 1, 2), (1, 2, -10 ** 20), (2 ** 63, 2 ** 63 + 1, 2 ** 63 + 2)] +
           [(5, 1, 2, 3), (1, 5, 2, 3), (1, 2, 5, 3), (1, 2, 3, 5), (-1, 0, 1, 2), (0, -1, 1, 2), (0, 1, -1, 2), (0, 1, 2, -1),
            (7, 7, 7, 7), (2, 3, 4, 5), (-1, 1, 2, 3), (5, 4, 3, 2), (0, 1, 2, 4), (4, 0, 1, 2), (0, 2, 3, 4)])

NAMED = ['gammaX', 'gammaY', 'gammaZ', 'gammaT']

# special functions: name -> (parameter choices, [domain of each observable argument], value rtol, derivative rtol)
SPEC = {
    'j0': ([()], [(0.1, 20.0)], 2e-13, 1e-12),
    'j1': ([()], [(0.1, 20.0)], 2e-13, 1e-12),
    'y0': ([()], [(0.1, 20.0)], 2e-13, 1e-12),
    'y1': ([()], [(0.1, 20.0)], 2e-13, 1e-12),
    'jn': ([(0,), (1,), (2,), (3,), (5,)], [(0.1, 20.0)], 2e-13, 1e-12),
    'yn': ([(0,), (1,), (2,), (3,)], [(0.3, 20.0)], 2e-13, 1e-12),
    'i0': ([()], [(-5.0, 5.0)], 2e-13, 1e-12),
    'i1': ([()], [(-5.0, 5.0)], 2e-13, 1e-12),
    'iv': ([(0,), (0.5,), (1,), (2.5,)], [(0.1, 6.0)], 2e-13, 1e-12),
    'ive': ([(0,), (0.5,), (1,), (2.5,)], [(0.1, 6.0)], 2e-13, 1e-12),
    'beta': ([()], [(0.3, 5.0), (0.3, 5.0)], 2e-13, 1e-12),
    'betaln': ([()], [(0.3, 5.0), (0.3, 5.0)], 2e-13, 1e-12),
    'betainc': ([(0.5, 0.5), (2.0, 3.0), (1.5, 0.7)], [(0.05, 0.95)], 1e-12, 1e-11),
    'polygamma': ([(0,), (1,), (2,), (3,)], [(0.3, 10.0)], 1e-12, 1e-11),
    'psi': ([()], [(0.2, 10.0)], 1e-12, 1e-11),
    'digamma': ([()], [(0.2, 10.0)], 1e-12, 1e-11),
    'gamma': ([()], [(0.2, 6.0)], 2e-13, 1e-12),
    'gammaln': ([()], [(0.2, 20.0)], 2e-13, 1e-12),
    'gammainc': ([(0.5,), (1.0,), (2.5,), (5.0,)], [(0.05, 10.0)], 1e-12, 1e-11),
    'gammaincc': ([(0.5,), (1.0,), (2.5,), (5.0,)], [(0.05, 10.0)], 1e-12, 1e-11),
    'gammasgn': ([()], [(-2.8, -0.2)], 2e-13, 1e-12),
    'rgamma': ([()], [(0.2, 6.0)], 2e-13, 1e-12),
    'multigammaln': ([(1,), (2,), (3,)], [(1.4, 8.0)], 2e-13, 1e-12),
    'erf': ([()], [(-3.0, 3.0)], 2e-13, 1e-12),
    'erfc': ([()], [(-3.0, 3.0)], 2e-13, 1e-12),
    'erfinv': ([()], [(-0.95, 0.95)], 1e-12, 1e-11),
    'erfcinv': ([()], [(0.05, 1.95)], 1e-12, 1e-11),
    'logit': ([()], [(0.02, 0.98)], 2e-13, 1e-12),
    'expit': ([()], [(-8.0, 8.0)], 2e-13, 1e-12),
    # parameter choices of logsumexp: number of arguments (more than 10 / 100 members), or a spectator argument so far below the
    # others that its weight exp(x - result) is exactly 0 in double precision, in the first or the last slot
    'logsumexp': ([(), ('args', 12), ('args', 40), ('args', 120), ('spectator', 'first'), ('spectator', 'last'), ('spectator', 'middle'), ('large', 800.0), ('large', -800.0)], [(-3.0, 3.0), (-3.0, 3.0), (-3.0, 3.0)], 2e-13, 1e-12),
}
KN_ORDERS = list(range(7))
VARIANTS = ['one-chain', 'two-replicas', 'chain+cov', 'cov-only']


def grid_sizes(tier):
    return (200, 20) if tier == 'quick' else (10000, 500)


def special_cases(tier):
    g = grid_sizes(tier)[1]
    return [(name, c, j) for name in sorted(SPEC) for c in SPEC[name][0] for j in range(g)]


def norm_mech(m):
    """judgement name without the table entry / function it was applied to"""
    import re
    m = re.sub(r'^special:[A-Za-z0-9_]+:', 'special:*:', m)
    m = re.sub(r'^Grid_gamma:[A-Za-z0-9]+:', 'Grid_gamma:*:', m)
    m = re.sub(r'-(x|y|z|t|xx|xy|xz|xt|yx|yy|yz|yt|zx|zy|zz|zt|tx|ty|tz|tt)$', '-*', m)
    m = re.sub(r'(shape-or-dtype-|differs-from-|constant-changed-by-a-call:)[A-Za-z0-9]+$', r'\1*', m)
    return m


def jd(ctx, tag, n=1):
    ctx.count('judged:' + norm_mech(tag), n)


def count_judgements(ctx):
    """evidence: counter 'judged:<mechanism>' = how often each judgement was evaluated (hardening item 13)"""
    for meth in ('close', 'equal', 'require'):
        orig = getattr(ctx, meth)

        def wrapped(*a, _o=orig, _i=(1 if meth == 'require' else 2), **k):
            jd(ctx, k['mechanism'] if 'mechanism' in k else a[_i])
            return _o(*a, **k)
        setattr(ctx, meth, wrapped)


def setup(ctx):
    global PE
    import pyerrors as pe
    PE = pe
    count_judgements(ctx)
    missing = sorted(set(pe.special.__all__) - set(SPEC) - {'kn'})
    if missing:
        # a newly re-exported function that this check has no reference for: not silently ignored
        ctx.count('special_functions_without_reference', len(missing))
        ctx.violation('special:re-exported-function-without-reference', {'names': missing})
    gone = sorted((set(SPEC) | {'kn'}) - set(pe.special.__all__))
    if gone:
        ctx.violation('special:function-no-longer-re-exported', {'names': gone})
    for n in CONSTANTS:
        CONST0[n] = np.array(getattr(pe.dirac, n)).copy()
    if ctx.shard == 0:
        specfun.self_test()          # reference against itself (difference quotient vs mpmath.diff, recurrence vs besselk)
        ctx.count('reference_self_tests')


CONSTANTS = ['gammaX', 'gammaY', 'gammaZ', 'gammaT', 'gamma', 'gamma5', 'identity']
CONST0 = {}
HELD = []


def check_constants(ctx):
    """the library's constant tables must be what they were at import time, whatever has been called since"""
    for n in CONSTANTS:
        ctx.ev()
        ctx.count('constant_table_checks')
        jd(ctx, 'table:constant-changed-by-a-call:' + n)
        now = getattr(PE.dirac, n)
        if not (np.shape(now) == CONST0[n].shape and np.array_equal(now, CONST0[n])):
            ctx.violation('table:constant-changed-by-a-call:' + n, {'now': repr(np.asarray(now).tolist()), 'at_import': repr(CONST0[n].tolist())})


def hold_result(mech, res):
    HELD.append((mech, res, obs_digest(res)))
    if len(HELD) > 40:
        del HELD[:10]


def check_held(ctx):
    """observables handed out by earlier applications must not change when later ones are made"""
    for mech, res, dg in HELD:
        ctx.ev()
        ctx.count('held_results_rechecked')
        jd(ctx, mech + ':result-changed-by-later-calls')
        if obs_digest(res) != dg:
            ctx.violation(mech + ':result-changed-by-later-calls', {'value_now': repr(res.value)})


def teardown(ctx):
    check_constants(ctx)
    check_held(ctx)
    # the complete tables once more, after everything else this process has called (late evaluation, not sampled)
    ctx.case = ('late-tables', 0)
    for row in ALGEBRA:
        run_algebra(ctx, row)
    for row in TAGS:
        run_tag(ctx, row)
    for t in EPS3 + EPS_OUT:
        run_eps(ctx, t, 'eps_late_tuples')
    ctx.count('late_table_passes')
    ctx.case = None


def plan(tier):
    nk, _ = grid_sizes(tier)
    # table kinds come in at most 51 cases each, so the round-robin over kinds finishes every table within the first 51 rounds
    return [('algebra', len(ALGEBRA)), ('grid_tag', len(TAGS)), ('grid_held', 3), ('eps3', 5), ('eps4', 25), ('eps_out', len(EPS_OUT)),
            ('kn', nk), ('special', len(special_cases(tier))), ('boundary', len(BOUNDARY) * (12 if tier == 'quick' else 60)), ('degenerate', len(DEGENERATE) * (8 if tier == 'quick' else 40))]


# ------------------------------------------------------------------------------------------
def lib_matrices():
    d = PE.dirac
    named = [tables.to_lists(getattr(d, n)) for n in NAMED]
    stacked = [tables.to_lists(d.gamma[mu]) for mu in range(4)]
    return named, stacked, tables.to_lists(d.gamma5), tables.to_lists(d.identity)


def run_algebra(ctx, row):
    named, stacked, g5, ident = lib_matrices()
    T = tables
    kind = row[0]
    ctx.count('algebra_relations')
    ctx.cell('algebra', kind)
    nontrivial = True
    if kind in ('clifford-named', 'clifford-stacked'):
        g = named if kind == 'clifford-named' else stacked
        mu, nu = row[1], row[2]
        anti = T.add(T.mm(g[mu], g[nu]), T.mm(g[nu], g[mu]))
        ctx.require(T.same(anti, T.eye(2 if mu == nu else 0)), 'clifford:anticommutator-%s%s' % ('xyzt'[mu], 'xyzt'[nu]),
                    lambda: {'which': kind, 'got': repr(anti)})
    elif kind == 'hermitian':
        mu = row[1]
        ctx.require(T.same(T.dagger(named[mu]), named[mu]), 'gamma:not-hermitian-' + 'xyzt'[mu], lambda: {'matrix': repr(named[mu])})
        ctx.require(T.same(T.dagger(stacked[mu]), stacked[mu]), 'gamma:not-hermitian-' + 'xyzt'[mu], lambda: {'matrix': repr(stacked[mu])})
    elif kind == 'stack-is-named':
        mu = row[1]
        ctx.require(T.same(named[mu], stacked[mu]), 'gamma:stacked-array-differs-from-' + NAMED[mu], lambda: {'named': repr(named[mu]), 'stacked': repr(stacked[mu])})
    elif kind == 'gamma5-anticommutes':
        mu = row[1]
        anti = T.add(T.mm(g5, named[mu]), T.mm(named[mu], g5))
        ctx.require(T.same(anti, T.eye(0)), 'gamma5:does-not-anticommute-with-' + 'xyzt'[mu], lambda: {'got': repr(anti)})
    elif kind == 'gamma5-product':
        for g, w in ((named, 'named'), (stacked, 'stacked')):
            prod = T.mm(T.mm(g[0], g[1]), T.mm(g[2], g[3]))
            ctx.require(T.same(prod, g5), 'gamma5:not-the-product-gx-gy-gz-gt', lambda: {'which': w, 'product': repr(prod), 'gamma5': repr(g5)})
    elif kind == 'gamma5-hermitian':
        ctx.require(T.same(T.dagger(g5), g5), 'gamma5:not-hermitian', lambda: {'gamma5': repr(g5)})
    elif kind == 'gamma5-squares-to-one':
        ctx.require(T.same(T.mm(g5, g5), T.eye()), 'gamma5:square-not-identity', lambda: {'gamma5': repr(g5)})
    elif kind == 'identity':
        ctx.require(T.same(ident, T.eye()), 'identity:not-the-unit-matrix', lambda: {'identity': repr(ident)})
    elif kind == 'traceless':
        for mu in range(4):
            ctx.require(sum(named[mu][i][i] for i in range(4)) == 0, 'gamma:not-traceless-' + 'xyzt'[mu], None)
        ctx.require(sum(g5[i][i] for i in range(4)) == 0, 'gamma5:not-traceless', None)
    elif kind == 'shapes':
        d = PE.dirac
        for n in NAMED + ['gamma5', 'identity']:
            a = getattr(d, n)
            ctx.require(getattr(a, 'shape', None) == (4, 4) and np.asarray(a).dtype.kind == 'c', 'table:shape-or-dtype-' + n,
                        lambda: {'shape': getattr(a, 'shape', None), 'dtype': str(getattr(a, 'dtype', None))})
        ctx.require(getattr(d.gamma, 'shape', None) == (4, 4, 4), 'table:shape-or-dtype-gamma', lambda: {'shape': getattr(d.gamma, 'shape', None)})
        nontrivial = False
    elif kind == 'sigma-antisymmetric-and-hermiticity':
        # consequences of the algebra for the commutators the Grid table uses: sigma_mu_nu = g_mu g_nu for mu != nu, anti-hermitian
        for mu in range(4):
            for nu in range(4):
                if mu == nu:
                    continue
                s = T.scal(0.5, T.add(T.mm(named[mu], named[nu]), T.mm(named[nu], named[mu]), 1, -1))
                ctx.require(T.same(s, T.mm(named[mu], named[nu])), 'clifford:commutator-half-differs-from-product', lambda: {'mu': mu, 'nu': nu})
                ctx.require(T.same(T.dagger(s), T.scal(-1, s)), 'clifford:sigma-not-antihermitian', lambda: {'mu': mu, 'nu': nu})
    if nontrivial:
        ctx.nontrivial.add(digest('algebra', row))
    ctx.sample({'relation': list(row)})


def run_tags_held(ctx, idx):
    """History: all structures are requested first and kept, then compared - a result must stay what it
    was when later structures are requested (no shared work buffers), in several request orders
    (added after seeded change seed3-C20)."""
    named, stacked, g5, ident = lib_matrices()
    tags = list(tables.GRID_TAGS)
    order = tags if idx == 0 else (tags[::-1] if idx == 1 else [tags[(7 * k + 3) % len(tags)] for k in range(len(tags))])
    held = {t: PE.dirac.Grid_gamma(t) for t in order}
    again = {t: PE.dirac.Grid_gamma(t) for t in order[::-1]}
    for t in tags:
        exp = tables.grid_expected(t, named, g5)
        ctx.count('grid_tags_held')
        ctx.require(tables.same(tables.to_lists(held[t]), exp), 'Grid_gamma:%s:result-changed-by-later-requests' % t,
                    lambda t=t: {'got': repr(tables.to_lists(held[t])), 'expected': repr(tables.grid_expected(t, named, g5))})
        ctx.require(tables.same(tables.to_lists(again[t]), exp), 'Grid_gamma:%s:wrong-matrix-on-repeated-request' % t, None)
    ctx.nontrivial.add(digest('held', idx))


def run_tag(ctx, row):
    known, tag = row
    named, stacked, g5, ident = lib_matrices()
    exp = tables.grid_expected(tag, named, g5)
    ctx.cell('grid_tag', 'known' if known == 'known' else 'unknown')
    if known == 'known':
        if exp is None:
            raise AssertionError('reference table does not know %r' % (tag,))
        ctx.count('grid_tags_known')
        got = PE.dirac.Grid_gamma(tag)         # an exception here is a violation (escapes; tagged by the worker)
        ctx.require(tables.shape_ok(got), 'Grid_gamma:%s:shape' % tag, lambda: {'got': repr(got)})
        gl = tables.to_lists(got)
        ctx.require(tables.same(gl, exp), 'Grid_gamma:%s:wrong-matrix' % tag, lambda: {'got': repr(gl), 'expected': repr(exp)})
        # the same structure built from the stacked array must agree as well
        exp2 = tables.grid_expected(tag, stacked, g5)
        ctx.require(tables.same(gl, exp2), 'Grid_gamma:%s:wrong-matrix' % tag, lambda: {'got': repr(gl), 'expected_from_stacked': repr(exp2)})
        # a numpy string carrying the same characters is the same tag
        got2 = PE.dirac.Grid_gamma(np.str_(tag))
        ctx.require(tables.same(tables.to_lists(got2), exp), 'Grid_gamma:%s:wrong-matrix' % tag, lambda: {'np.str_': True})
        ctx.nontrivial.add(digest('tag', tag))
        ctx.sample({'tag': tag, 'matrix': repr(gl)})
    else:
        if exp is not None:
            raise AssertionError('reference table knows the supposedly unknown tag %r' % (tag,))
        ctx.count('grid_tags_rejected')
        jd(ctx, 'Grid_gamma:unknown-tag-accepted/accidental-exception')
        ctx.ev()
        try:
            got = PE.dirac.Grid_gamma(tag)
        except REJECT:
            ctx.nontrivial.add(digest('tag', repr(tag)))
            return
        except Exception as e:
            ctx.violation('Grid_gamma:unknown-tag-accidental-exception', {'tag': repr(tag), 'exception': repr(e)})
            return
        ctx.violation('Grid_gamma:unknown-tag-accepted', {'tag': repr(tag), 'returned': repr(got)})


SIGNED_FORMS = ['int', 'np.int64', 'np.int8', 'np.int16', 'np.int32', 'np.intp', 'elements-of-int32-array', 'elements-of-list', 'mixed-signed', 'bool-where-0/1']
UNSIGNED_FORMS = ['np.uint8', 'np.uint16', 'np.uint32', 'np.uint64']


def index_forms(t):
    """the same index tuple in the representations a caller may hold it in"""
    out = []
    for form in SIGNED_FORMS + UNSIGNED_FORMS:
        if form == 'int':
            args = tuple(int(i) for i in t)
        elif form.startswith('np.'):
            if form.startswith('np.uint') and min(t) < 0:
                continue
            try:
                args = tuple(getattr(np, form[3:])(i) for i in t)
            except OverflowError:
                continue                      # the dtype cannot hold this index
        elif form == 'elements-of-int32-array':
            try:
                args = tuple(np.array(t, dtype=np.int32))
            except OverflowError:
                continue
        elif form == 'elements-of-list':
            args = list(t)
        elif form == 'mixed-signed':
            kinds = [int, np.int8, np.int64, np.int16]
            try:
                args = tuple(kinds[(n + sum(t)) % 4](i) for n, i in enumerate(t))
            except OverflowError:
                continue
        else:
            if not any(i in (0, 1) for i in t):
                continue
            args = tuple(bool(i) if i in (0, 1) else int(i) for i in t)       # True == 1, False == 0 as indices
        out.append((form, args))
    return out


def run_eps(ctx, t, counter):
    fn = PE.dirac.epsilon_tensor if len(t) == 3 else PE.dirac.epsilon_tensor_rank4
    rank = len(t)
    what, sign = tables.eps_expected(t)
    for form, args in index_forms(t):
        ctx.ev()
        ctx.cell('eps%d' % rank, 'form', form)
        jd(ctx, 'epsilon%d:%s(%s)' % (rank, 'tuple-outside-domain-accepted' if what == 'raise' else 'wrong-sign/tuple-inside-domain-rejected',
                                     'unsigned' if form in UNSIGNED_FORMS else ('python-int' if form == 'int' else 'other-forms')))
        if what == 'raise':
            ctx.cell('eps%d' % rank, 'rejected')
            try:
                got = fn(*args)
            except REJECT:
                continue
            except Exception as e:
                ctx.violation('epsilon%d:outside-domain-accidental-exception' % rank, {'tuple': list(t), 'form': form, 'exception': repr(e)})
                continue
            ctx.violation('epsilon%d:tuple-outside-domain-accepted' % rank, {'tuple': list(t), 'form': form, 'returned': repr(got)})
        else:
            ctx.cell('eps%d' % rank, 'sign%+d' % sign)
            try:
                got = fn(*args)
            except REJECT as e:
                ctx.violation('epsilon%d:tuple-inside-domain-rejected' % rank, {'tuple': list(t), 'form': form, 'exception': repr(e)})
                continue
            ok = False
            try:
                ok = bool(np.ndim(got) == 0 and got == sign)
            except Exception:
                ok = False
            if not ok:
                if form in UNSIGNED_FORMS:
                    # cause named from the witness: every index is an unsigned numpy integer, so the differences wrapped around
                    ctx.violation('epsilon%d:unsigned-index-dtype-wraps-around' % rank, {'tuple': list(t), 'form': form, 'got': repr(got), 'expected': sign})
                else:
                    ctx.violation('epsilon%d:wrong-sign' % rank, {'tuple': list(t), 'form': form, 'got': repr(got), 'expected': sign})
    ctx.count(counter)
    if what == 'raise':
        ctx.count('eps_rejected')
    if what == 'raise' or sign != 0:
        ctx.nontrivial.add(digest('eps', tuple(t)))
    if t in ((1, 2, 3), (2, 1, 3, 4), (0, 1, 3), (0, 4, 1, 2)):
        ctx.sample({'tuple': list(t), 'expected': what if what == 'raise' else sign, 'forms': [f for f, _ in index_forms(t)]})


# ------------------------------------------------------------------------------------------
def make_arg(rng, x, width, variant, ens, cov=None):
    """Observable with central value close to x (spread `width`)."""
    pe = PE
    cov = cov or 'cv_' + ens          # one covariance name per argument slot (a name stands for one covariance matrix)
    if variant == 'cov-only':
        return pe.cov_Obs(float(x), float(width) ** 2, cov)
    names = [ens + '|r1', ens + '|r2'] if variant == 'two-replicas' else [ens if rng.random() < 0.5 else ens + '|r1']
    samples, idls = [], []
    for n in names:
        N = int(rng.integers(6, 25))
        step = int(rng.choice([1, 1, 2, 5]))
        start = int(rng.integers(1, 50))
        idl = list(range(start, start + N * step, step))
        if rng.random() < 0.3:
            del idl[int(rng.integers(1, N - 1))]
        samples.append(x + width * rng.normal(size=len(idl)))
        idls.append(idl)
    o = pe.Obs(samples, names, idl=idls)
    if variant == 'chain+cov':
        o = o + pe.cov_Obs(0.0, float(width) ** 2, cov)
    return o


def build_args(rng, xs, doms, variant, wf=2e-3, same_object=False):
    """argument observables; chains on names that share a prefix ('A', 'AB', 'A1'); wf = relative spread of the samples;
    same_object: one observable in every argument slot"""
    args = []
    for k, (x, (lo, hi)) in enumerate(zip(xs, doms)):
        width = wf * min(x - lo, hi - x, max(abs(x), 0.05))
        args.append(make_arg(rng, x, width, variant, ['A', 'AB', 'A1'][k % 3], cov='cv_%s_%d' % (['A', 'AB', 'A1'][k % 3], k)))
    if same_object:
        args = [args[0]] * len(args)
    ins = [snap(a) for a in args]
    return args, ins, [s['value'] for s in ins]


def apply_and_judge(ctx, name, consts, args, ins, vals, vtol, dtol, libcall, mech, variant, valfn=None, gradfn=None, zero_gradient_slots=(), again=False,
                    exact_point=False):
    """apply the library function to the observables and compare with the dense propagation model fed with the
    mpmath value / derivative.  Returns (result, reference, gradient) or (None, None, None)."""
    uniq = list({id(a): a for a in args}.values())
    before = [obs_digest(a) for a in uniq]
    try:
        res = PE.derived_observable(libcall, args)
    except Exception as e:
        # inside the domain the function must be applicable to observables (value and derivative exist)
        ctx.ev()
        jd(ctx, mech + ':raises-inside-domain')
        if exact_point and isinstance(e, ZeroDivisionError) and all(v == 0.0 for v in vals):
            # cause named from the witness: the argument is exactly 0.0 and the derivative rule divides by it
            ctx.violation(mech + ':derivative-rule-divides-by-the-argument-at-exactly-zero', {'function': name, 'parameters': list(consts), 'arguments': vals, 'exception': repr(e)[:300]})
            return None, None, None
        ctx.violation(mech + ':raises-inside-domain', {'function': name, 'parameters': list(consts), 'arguments': vals, 'exception': repr(e)[:300]})
        return None, None, None
    if isinstance(res, np.ndarray) and res.size == 1:
        # scipy returns 0-d arrays for some functions (polygamma); the library then returns a 0-d array holding the observable
        res = res.ravel()[0]
        ctx.count('result_wrapped_in_0d_array')
    # the observables the caller holds are what they were; the same objects applied again give the same result
    ctx.equal([obs_digest(a) for a in uniq], before, mech + ':argument-modified-by-the-application', 'arguments after the call')
    if again:
        res2 = PE.derived_observable(libcall, args)
        if isinstance(res2, np.ndarray) and res2.size == 1:
            res2 = res2.ravel()[0]
        ctx.equal(obs_digest(res2), obs_digest(res), mech + ':second-application-to-the-same-objects-differs', 'same argument objects, second call')
    memo = {}

    def f(v):
        key = tuple(float(t) for t in v)
        if key not in memo:
            memo[key] = float(specfun.value(name, consts, key)) if valfn is None else float(valfn(key))
        return memo[key]
    grads = [float(g) for g in (specfun.partials(name, consts, vals) if gradfn is None else gradfn(vals))]
    fval = f(vals)
    if exact_point:
        # a regular point picked because a derivative rule may be singular there.  The reference derivative (difference quotient,
        # ~25 digits of the natural unit) is zero within its own error below 1e-20 units; fluctuations are compared on the scale
        # max(|f'|, 1e-6 units): a dropped or doubled term is of the order of the unit.
        unit = max(abs(fval), 1.0) / max(max(abs(v) for v in vals), 1.0)
        grads = [0.0 if abs(g) < 1e-20 * unit else g for g in grads]
        jd(ctx, mech + ':derivative-at-a-boundary-or-removable-singularity')
        bad = [n for n in res.names if (n in res.covobs and not np.all(np.isfinite(res.covobs[n].grad))) or (n not in res.covobs and not np.all(np.isfinite(res.deltas[n])))]
        if bad and all(np.isfinite(g) for g in grads):
            ctx.ev()
            tag = mech + ':derivative-not-finite-at-a-regular-point'
            if name == 'rgamma' and not (len(vals) == 1 and float(vals[0]).is_integer() and vals[0] <= 0):
                # the known mechanism is the rule -rgamma * psi = 0 * inf AT the zeros of 1/Gamma (0, -1, -2, ...); a non-finite
                # derivative of rgamma anywhere else is something else and gets its own tag
                tag = mech + ':derivative-not-finite-away-from-the-zeros-of-1/Gamma'
            ctx.violation(tag, {'function': name, 'parameters': list(consts), 'arguments': vals, 'reference_gradient': grads, 'value': repr(res.value)})
            # the value and the replica means are still judged (a wrong value at these points is another failure)
            ctx.close(res.value, fval, mech + ':value', 'value at %r' % (vals,), rtol=vtol, scale=max(abs(fval), sum(abs(g * v) for g, v in zip(grads, vals))), atol=1e-300)
            return None, None, None
    if not exact_point and name != 'gammasgn' and any(abs(g) < 1e-5 * abs(fval) / max(abs(v), 1.0) for k, (g, v) in enumerate(zip(grads, vals)) if k not in zero_gradient_slots):
        # an extremum of f within rounding: the double-precision derivative has no relative accuracy there (borderline, not judged)
        ctx.count('borderline_derivative_within_rounding_of_zero')
        return None, None, None
    ref = dense.propagate(ins, grads, f)
    # fluctuations are compared on the scale max(|f'|, 1e-3 natural units): next to an extremum the double-precision derivative
    # (a difference of neighbouring Bessel functions, say) has an absolute, not a relative, accuracy
    # (absolute accuracy of such a rule: rounding of numbers of the size of f, e.g. ans * (1 - ans) for a saturated expit)
    # and the rounding of the argument itself moves the derivative by f'' x eps ~ |f| |x| eps for oscillating functions: jn(1, 18.0153), f' = -5e-5,
    # f = -0.19, is reproduced to 2.4e-16 absolutely = 4.7e-12 relatively)
    nat = max(abs(fval), 1e-300) * max(1.0, max(abs(v) for v in vals))
    scale = dense.delta_scale(ins, [max(abs(g), 1e-3 * nat) for g in grads])
    if exact_point:
        scale = dense.delta_scale(ins, [max(abs(g), 1e-6 * unit) for g in grads])
    if scale == 0.0:
        scale = None
    # condition-number scale for the value: a zero of f is not evaluated to relative accuracy by anybody
    vscale = max(abs(fval), sum(abs(g * v) for g, v in zip(grads, vals)))
    compare_obs(ctx, res, ref, mech, rtol=dtol, vtol=vtol, rv_tol=vtol, what='%s%r at %r' % (name, tuple(consts), vals), scale=scale,
                value_scale=vscale, extra={'reference_value': ref['value'], 'reference_gradient': grads})
    ctx.cell('special', name, variant)
    hold_result(mech, res)
    if any(g != 0.0 for g in grads):
        ctx.nontrivial.add(digest(name, consts, [repr(v) for v in vals], variant))
    return res, ref, grads


KN_FUNCS = {}


def run_kn(ctx, idx, rng):
    """one argument observable, all orders 0..6 (the reference K_0..K_7 come from one recurrence table per argument)"""
    import mpmath as mp
    nk = grid_sizes(ctx.tier)[0]
    u = (idx + float(rng.uniform(0.05, 0.95))) / nk
    x = 0.05 * (20.0 / 0.05) ** u
    x = min(max(x, 0.0505), 19.9)
    variant = VARIANTS[idx % len(VARIANTS)]
    wf = [2e-3, 2e-3, 1e-9, 2e-2][idx % 4 if idx % 3 else 0]
    args, ins, vals = build_args(rng, [x], [(0.05, 20.0)], variant, wf=wf)
    sp = PE.special
    tabs = {}

    def table(t):
        t = float(t)
        if t not in tabs:
            tabs[t] = specfun.kn_table(t, max(KN_ORDERS) + 1)
        return tabs[t]
    for n in KN_ORDERS:
        order = [n, float(n), np.int64(n)][(idx + n) % 3]
        key = (n, type(order).__name__)
        if idx % 2 == 0 and key in KN_FUNCS:
            fn = KN_FUNCS[key]                       # the function object of an earlier case, applied to other observables
            ctx.count('function_object_reused')
        else:
            def fn(v, order=order, **kw):
                return sp.kn(order, v[0])
            KN_FUNCS.setdefault(key, fn)
        res, ref, grads = apply_and_judge(ctx, 'kn', (n,), args, ins, vals, 2e-13, 1e-12, fn, 'kn', variant,
                                          valfn=lambda v, n=n: table(v[0])[n],
                                          gradfn=lambda vv, n=n: [specfun.kn_derivative_from_table(table(vv[0]), n)], again=(n == idx % 7))
        ctx.count('kn_applications')
        if res is None:
            continue
        ctx.cell('kn', 'n=%d' % n, 'decade=%d' % int(np.floor(np.log10(x))))
        if n == 2:
            ctx.sample({'function': 'kn', 'n': n, 'x': vals[0], 'variant': variant, 'value': res.value, 'reference_value': ref['value'], 'dK/dx': grads[0]})
    # a second observable with exactly the same central value but other content (a result cached by the value would be wrong)
    twin = args[0] + PE.cov_Obs(0.0, (1e-3 * vals[0]) ** 2, 'cv_twin') if idx % 2 else PE.cov_Obs(float(vals[0]), (3e-3 * vals[0]) ** 2, 'cv_twin')
    tins = [snap(twin)]
    if tins[0]['value'] == vals[0]:
        for n in (KN_ORDERS[idx % 7], KN_ORDERS[(idx + 3) % 7]):
            apply_and_judge(ctx, 'kn', (n,), [twin], tins, [tins[0]['value']], 2e-13, 1e-12, lambda v, **kw: sp.kn(n, v[0]), 'kn', 'twin-same-value',
                            valfn=lambda v, n=n: table(v[0])[n], gradfn=lambda vv, n=n: [specfun.kn_derivative_from_table(table(vv[0]), n)])
            ctx.count('kn_applications')
            ctx.count('kn_twin_same_value')
    if idx % 16 == 0:
        # the reference against itself at this argument: recurrence table vs direct evaluation, closed-form derivative vs difference quotient
        n = KN_ORDERS[(idx // 16) % len(KN_ORDERS)]
        with mp.workdps(specfun.DPS):
            direct = mp.besselk(n, mp.mpf(vals[0]))
            nd = specfun.partials('kn', (n,), vals)[0]
            cf = specfun.kn_derivative_from_table(table(vals[0]), n)
            if abs(direct - table(vals[0])[n]) > mp.mpf(10) ** -28 * abs(direct) or abs(cf - nd) > mp.mpf(10) ** -22 * abs(cf):
                raise AssertionError('mpmath reference for K_%d inconsistent at %r' % (n, vals[0]))
        ctx.count('kn_reference_self_checks')


# regular points at which a derivative rule may be singular or degenerate: the argument exactly 0 (rules that divide by x, odd / even
# functions), integer and negative orders, negative arguments, zeros of the function, poles of a factor of the rule, arguments
# where exponentials under- or overflow.  (name, parameters, argument)
BOUNDARY = ([('iv', (v,), 0.0) for v in (0, 1, -1, 2, -2, 3)] + [('ive', (v,), 0.0) for v in (0, 1, -1, 2, -2, 3)] +
            [('jn', (n,), 0.0) for n in (0, 1, -1, 2, -2, 3)] + [(n, (), 0.0) for n in ('j0', 'j1', 'i0', 'i1', 'erf', 'erfc', 'erfinv', 'expit')] +
            [('erfcinv', (), 1.0), ('logit', (), 0.5), ('gammaln', (), 1.0), ('gammaln', (), 2.0), ('gamma', (), 1.0), ('gamma', (), 2.0), ('rgamma', (), 1.0),
             ('rgamma', (), 0.0), ('rgamma', (), -1.0), ('rgamma', (), -2.0), ('psi', (), 1.0), ('digamma', (), 2.0),
             ('expit', (), 800.0), ('expit', (), -800.0), ('erf', (), 30.0), ('erf', (), -30.0), ('erfc', (), 30.0), ('erfc', (), -30.0),
             ('iv', (-1,), 1.3), ('iv', (1,), -1.3), ('iv', (-2,), -0.7), ('iv', (-1,), -1.3), ('ive', (-1,), 1.3), ('ive', (1,), -1.3), ('ive', (-2,), -0.7),
             ('jn', (-2,), 1.1), ('jn', (3,), -2.0), ('jn', (1,), -0.5), ('jn', (-1,), -0.5), ('yn', (-1,), 1.2), ('yn', (-2,), 2.2), ('yn', (-3,), 0.9),
             ('j0', (), -2.0), ('j1', (), -2.0), ('i0', (), -2.0), ('i1', (), -2.0), ('kn', (-1,), 1.3), ('kn', (-2,), 0.4), ('kn', (-3,), 5.0), ('kn', (-6,), 2.0),
             ('gammainc', (1.0,), 0.5), ('gammainc', (2.0,), 1.0), ('betainc', (1.0, 1.0), 0.5), ('polygamma', (0,), 1.0), ('polygamma', (1,), 2.0)] +
            # far out in the domain: large orders, large and tiny arguments (where mathematically equal forms of a rule differ numerically)
            [('kn', (20,), 3.0), ('kn', (30,), 10.0), ('kn', (2,), 1e-3), ('kn', (0,), 300.0), ('kn', (1,), 600.0), ('jn', (20,), 25.0), ('jn', (50,), 60.0),
             ('jn', (2,), 300.0), ('yn', (10,), 12.0), ('yn', (1,), 1e-3), ('iv', (10,), 2.0), ('iv', (1,), 50.0), ('iv', (0,), 500.0), ('ive', (3,), 500.0),
             ('ive', (20,), 5.0), ('erf', (), 1e-20), ('erfc', (), 5.0), ('gammaln', (), 1e8), ('gamma', (), 25.5), ('gamma', (), 1e-8), ('expit', (), 35.0),
             ('expit', (), -35.0), ('logit', (), 1e-12), ('digamma', (), 1e6), ('polygamma', (3,), 50.0), ('i0', (), 300.0), ('j0', (), 1000.0), ('j1', (), 1e-9),
             ('erfinv', (), 0.999999), ('betainc', (50.0, 60.0), 0.45), ('gammainc', (100.0,), 95.0), ('gammaincc', (0.5,), 30.0)])


def exact_arg(rng, x0, variant, k=0):
    """observable whose central value (and every replica mean) is EXACTLY x0: samples x0 +- d in pairs, d a multiple of 2^-12,
    so that every partial sum is exact"""
    pe = PE
    ens = ['A', 'AB', 'A1'][k % 3]
    # spread of the samples: a power of two (exactness of the sums is kept), small against the argument when that is tiny
    sp2 = 1.0 if x0 == 0 else min(1.0, 2.0 ** np.floor(np.log2(abs(x0) / 4)))
    if abs(x0) < 1 and 1 - abs(x0) < 0.25:
        sp2 = min(sp2, 2.0 ** np.floor(np.log2((1 - abs(x0)) / 4)))          # arguments close to the end of (-1, 1)
    w = 2.0 ** -6 * sp2
    if variant == 'cov-only':
        return pe.cov_Obs(float(x0), w * w, 'cv_%s_%d' % (ens, k))
    names = [ens + '|r1', ens + '|r2'] if variant == 'two-replicas' else [ens if rng.random() < 0.5 else ens + '|r1']
    samples, idls = [], []
    for n in names:
        half = int(rng.integers(3, 10))
        d = rng.integers(1, 400, size=half).astype(float) * 2.0 ** -12 * sp2
        x = np.empty(2 * half)
        x[0::2] = x0 + d
        x[1::2] = x0 - d
        start = int(rng.integers(1, 50))
        step = int(rng.choice([1, 2]))
        samples.append(x)
        idls.append(list(range(start, start + 2 * half * step, step)))
    o = pe.Obs(samples, names, idl=idls)
    if variant == 'chain+cov':
        o = o + pe.cov_Obs(0.0, w * w, 'cv_%s_%d' % (ens, k))
    return o


def run_boundary(ctx, idx, rng):
    name, consts, x0 = BOUNDARY[idx % len(BOUNDARY)]
    rep_ = idx // len(BOUNDARY)
    variant = VARIANTS[rep_ % len(VARIANTS)]
    arg = exact_arg(rng, x0, variant)
    ins = [snap(arg)]
    vals = [ins[0]['value']]
    if (vals[0] != x0 or any(ch[2] != x0 for ch in ins[0]['chains'].values())) and float(2 * x0).is_integer():
        # the special points (0, 1/2, integers) must be hit exactly; the generic ones may move by a rounding
        ctx.count('boundary_argument_not_exact')
        raise Skip()
    sp = PE.special
    f = getattr(sp, name)
    order_form = rep_ % 3
    cc = tuple(consts)
    if name in ('iv', 'ive', 'jn', 'yn', 'kn', 'polygamma') and order_form:
        cc = (float(consts[0]),) if order_form == 1 and name != 'polygamma' else (np.int64(consts[0]),)       # the order as float / numpy integer

    def libcall(v, **kw):
        return f(*(cc + (v[0],)))
    pars, doms, vtol, dtol = SPEC[name] if name != 'kn' else (None, None, 2e-13, 1e-12)
    mech = 'kn' if name == 'kn' else 'special:' + name
    special_point = float(2 * x0).is_integer() and abs(x0) <= 2 or abs(x0) in (30.0, 800.0)
    res, ref, grads = apply_and_judge(ctx, name, consts, [arg], ins, vals, vtol, dtol, libcall, mech, variant, again=(rep_ % 4 == 3), exact_point=special_point)
    ctx.count('boundary_special_points' if special_point else 'boundary_far_out_or_generic_points')
    ctx.count('boundary_applications')
    ctx.cell('boundary', name, repr(tuple(consts)), repr(x0))
    if res is not None and rep_ == 0:
        ctx.sample({'function': name, 'parameters': list(consts), 'x': x0, 'variant': variant, 'value': res.value, 'reference_value': ref['value'], 'gradient': grads})


DEGENERATE = ([('kn-order', v) for v in (0.5, -0.5, 1.0000001, 2.5, np.float64(3.5), 1e-9)] +
              [('logsumexp', (0.5,)), ('logsumexp', (-2.0,)), ('logsumexp', (0.5, 0.5, 0.5)), ('logsumexp', (0.0, 0.0)), ('beta', (1.5, 1.5)), ('beta', (2.0, 2.0)),
               ('betaln', (2.0, 2.0)), ('betaln', (0.5, 0.5))])


def run_degenerate(ctx, idx, rng):
    """a non-integer order of K_n must be refused (an order silently truncated would give the numbers of another function);
    single-element and all-equal argument lists, arguments with equal central values on different data"""
    what, par = DEGENERATE[idx % len(DEGENERATE)]
    rep_ = idx // len(DEGENERATE)
    sp = PE.special
    ctx.cell('degenerate', what, repr(par))
    if what == 'kn-order':
        x = float(rng.uniform(0.1, 10.0))
        o = exact_arg(rng, 1.0, VARIANTS[rep_ % 4])
        for how, call in (('number', lambda: sp.kn(par, x)), ('observable', lambda: PE.derived_observable(lambda v, **kw: sp.kn(par, v[0]), [o]))):
            ctx.ev()
            jd(ctx, 'kn:non-integer-order-accepted')
            ctx.count('kn_non_integer_orders')
            try:
                got = call()
            except (TypeError, ValueError):
                continue
            ctx.violation('kn:non-integer-order-accepted', {'order': repr(par), 'argument': how, 'returned': repr(got)[:120]})
        ctx.nontrivial.add(digest('kn-order', repr(par)))
        return
    name = what
    variant = VARIANTS[rep_ % len(VARIANTS)]
    args = [exact_arg(rng, x0, variant, k) for k, x0 in enumerate(par)]
    ins = [snap(a) for a in args]
    vals = [i['value'] for i in ins]
    if vals != list(par):
        ctx.count('boundary_argument_not_exact')
        raise Skip()
    f = getattr(sp, name)
    if name == 'logsumexp':
        import autograd.numpy as anp
        m = len(par)

        def libcall(v, **kw):
            return f(anp.array([v[i] for i in range(m)]))
    else:
        def libcall(v, **kw):
            return f(v[0], v[1])
    apply_and_judge(ctx, name, (), args, ins, vals, 2e-13, 1e-12, libcall, 'special:' + name, variant, again=(rep_ % 2 == 1), exact_point=True)
    ctx.count('degenerate_argument_lists')


FUNCS = {}


def run_special(ctx, idx, rng):
    name, consts, j = special_cases(ctx.tier)[idx]
    g = grid_sizes(ctx.tier)[1]
    pars, doms, vtol, dtol = SPEC[name]
    spectator = None
    if name == 'logsumexp' and consts:
        if consts[0] == 'args':
            doms = [doms[0]] * consts[1]
        elif consts[0] == 'large':
            # arguments whose exponentials over- or underflow: the function exists to handle exactly these
            doms = [(consts[1] - 3.0, consts[1] + 3.0)] * 3
        else:
            doms = [doms[0]] * 4
            spectator = {'first': 0, 'last': 3, 'middle': 2}[consts[1]]
            doms[spectator] = (-1100.0, -900.0)
    xs = []
    for k, (lo, hi) in enumerate(doms):
        m = 0.02 * (hi - lo)
        # argument k walks the grid with a different stride so that multi-argument functions see a spread of pairs
        jj = (j * (1 + 2 * k) + 3 * k) % g
        u = (jj + float(rng.uniform(0.1, 0.9))) / g
        x = lo + m + (hi - lo - 2 * m) * u
        if name == 'gammasgn' or name == 'gamma' and x < 0:
            # stay away from the poles at the non-positive integers
            if abs(x - round(x)) < 0.15:
                x = round(x) + 0.5
        if name == 'multigammaln':
            x = max(x, (consts[0] - 1) / 2.0 + 0.4)
        xs.append(float(x))
    variant = VARIANTS[(idx + j) % len(VARIANTS)]
    sp = PE.special
    f = getattr(sp, name)
    nargs = len(doms)
    shared = (idx // 2) % 2 == 0 and (name, consts, nargs) in FUNCS
    if shared:
        libcall = FUNCS[(name, consts, nargs)]          # the function object of an earlier case of this process, with other observables
        ctx.count('function_object_reused')
    elif name == 'logsumexp':
        import autograd.numpy as anp

        def libcall(v, **kw):
            return f(anp.array([v[i] for i in range(nargs)]))
    elif len(doms) == 2:
        def libcall(v, **kw):
            return f(v[0], v[1])
    elif name == 'multigammaln':
        def libcall(v, **kw):
            return f(v[0], consts[0])
    else:
        def libcall(v, **kw):
            return f(*(tuple(consts) + (v[0],)))
    FUNCS.setdefault((name, consts, nargs), libcall)
    same = len(doms) > 1 and j % 5 == 4 and spectator is None
    if same:
        variant = 'same-object-in-all-slots'
        ctx.count('same_object_in_all_slots')
    args, ins, vals = build_args(rng, xs, doms, variant if not same else 'one-chain', wf=[2e-3, 1e-9, 2e-3, 2e-2][j % 4], same_object=same)
    res, ref, grads = apply_and_judge(ctx, name, () if name == 'logsumexp' else consts, args, ins, vals, vtol, dtol, libcall, 'special:' + name, variant,
                                      zero_gradient_slots=() if spectator is None else (spectator,), again=(j % 4 == 1))
    ctx.count('special_applications')
    if spectator is not None and res is not None:
        ctx.count('spectator_arguments')
        ctx.require(grads[spectator] == 0.0, 'special:logsumexp:reference-spectator-gradient-not-zero', lambda: {'gradient': grads})
    if name == 'logsumexp' and consts and consts[0] == 'args':
        ctx.count('applications_with_more_than_10_arguments' if consts[1] < 100 else 'applications_with_more_than_100_arguments')
    if res is None:
        return
    if j == 0 and len(consts) == 0:
        ctx.sample({'function': name, 'x': xs, 'variant': variant, 'value': res.value, 'reference_value': ref['value'], 'gradient': grads})


def run_case(ctx, kind, idx, rng):
    try:
        run_case_inner(ctx, kind, idx, rng)
    finally:
        check_constants(ctx)
        if kind in ('kn', 'special', 'boundary', 'degenerate'):
            check_held(ctx)


def run_case_inner(ctx, kind, idx, rng):
    if kind == 'algebra':
        run_algebra(ctx, ALGEBRA[idx])
    elif kind == 'grid_tag':
        run_tag(ctx, TAGS[idx])
    elif kind == 'grid_held':
        run_tags_held(ctx, idx)
    elif kind == 'eps3':
        for t in EPS3[25 * idx:25 * (idx + 1)]:          # all tuples with first index idx
            run_eps(ctx, t, 'eps3_tuples')
    elif kind == 'eps4':
        for t in EPS4[25 * idx:25 * (idx + 1)]:          # all tuples with the first two indices (idx // 5, idx % 5)
            run_eps(ctx, t, 'eps4_tuples')
    elif kind == 'eps_out':
        run_eps(ctx, EPS_OUT[idx], 'eps_out_tuples')
    elif kind == 'kn':
        run_kn(ctx, idx, rng)
    elif kind == 'special':
        run_special(ctx, idx, rng)
    elif kind == 'boundary':
        run_boundary(ctx, idx, rng)
    elif kind == 'degenerate':
        run_degenerate(ctx, idx, rng)
    else:
        raise ValueError(kind)
