"""C04 - every observable produced by the library is structurally well-formed; arithmetic is closed;
malformed construction requests are rejected.

Monitors
  * invariant monitor (vmon.invariants) tapped on every producer: module-level constructors and
    transformers, all Obs / CObs arithmetic dunder methods and elementary functions, fits, roots,
    quad, linalg, json / dobs / pandas / pickle readers.  Judged in pre => post form: the returned
    object is checked only when every observable among the arguments was itself well-formed, and
    the arguments must be unchanged afterwards.
  * closure monitor on the arithmetic methods: the result is an Obs, a CObs, an ndarray of these
    (ndarray partner) or NotImplemented - never a bare number or an Obs with complex value.
  * rejection table: each malformed constructor request must raise.
"""
import os
import io
import pickle
import tempfile
import warnings
import operator

import numpy as np

from .. import taps, gen
from ..ctx import digest, Skip
from ..snap import is_obs, is_cobs, is_corr, any_digest
from ..invariants import wellformed_obs, wellformed_any

ID = 'C04'
LEVEL = 'exploration'
DECIDING = ['producer_returns_checked', 'closure_results_checked', 'rejection_rows', 'histories']
RULE = ('cases: histories of <= 25 public operations (arithmetic in both operand orders with Obs / CObs / int / float / complex / ndarray '
        'partners, elementary functions, derived_observable, reweight, correlate, merge_obs, fits, roots, quad, linalg, json / dobs / pickle / '
        'jackknife round trips) from pools of well-formed observables on 1-2 ensembles x 1-3 replicas with range / strided / irregular '
        'lists and covariance inputs; every object returned by a tapped producer is checked; rejection table of 20 malformed requests; '
        'sample-file reader calls; non-trivial: a history with >= 3 distinct operation kinds and >= 1 mixed-type operation, or a '
        'rejection row; distinct = digest of the operation script and the pool data')
ASSUMPTIONS = ['an integer central value (cov_Obs(5, ...)) counts as real; empty bookkeeping entries for covariance names (dobs import) are ignored',
               'closure is demanded for + - * / ** abs neg between Obs and real/complex numbers and for + - * / abs neg with CObs operands '
               '(CObs has no power operator: TypeError there is not judged)',
               'objects are not inspected right after Obs.__init__ (the library finishes them after construction) but where they are returned']
BUDGET = {'quick': 45, 'thorough': 540}

PE = None
CTX = None

OBS_ARITH = ['__add__', '__radd__', '__sub__', '__rsub__', '__mul__', '__rmul__', '__truediv__', '__rtruediv__', '__pow__', '__rpow__',
             '__neg__', '__abs__', '__pos__']
OBS_FUNCS = ['sqrt', 'log', 'exp', 'sin', 'cos', 'tan', 'arcsin', 'arccos', 'arctan', 'sinh', 'cosh', 'tanh', 'arcsinh', 'arccosh', 'arctanh']
COBS_ARITH = ['__add__', '__radd__', '__sub__', '__rsub__', '__mul__', '__rmul__', '__truediv__', '__rtruediv__', '__neg__', '__abs__',
              '__pos__', 'conjugate']


def collect_obs(x, out, depth=0):
    if depth > 4:
        return
    if is_obs(x):
        out.append(x)
    elif is_cobs(x):
        collect_obs(x.real, out, depth + 1)
        collect_obs(x.imag, out, depth + 1)
    elif is_corr(x):
        for c in x.content:
            if c is not None:
                collect_obs(c, out, depth + 1)
    elif isinstance(x, np.ndarray) and x.dtype == object:
        for i in x.ravel()[:64]:
            collect_obs(i, out, depth + 1)
    elif isinstance(x, (list, tuple)):
        for i in x[:64]:
            collect_obs(i, out, depth + 1)
    elif isinstance(x, dict):
        for i in list(x.values())[:64]:
            collect_obs(i, out, depth + 1)


class ProducerMonitor(taps.Monitor):
    def __init__(self, key, closure=False):
        self.key = key
        self.closure = closure

    def before(self, args, kwargs):
        ins = []
        collect_obs(list(args), ins)
        collect_obs(kwargs, ins)
        pre_ok = all(not wellformed_obs(o, allow_nan=True) for o in ins)
        return (pre_ok, [(o, any_digest(o)) for o in ins])

    def after(self, token, args, kwargs, result, exc):
        ctx = CTX
        if token is None:
            return
        pre_ok, ins = token
        for o, d in ins:
            if any_digest(o) != d:
                ctx.ev()
                ctx.violation('operand-modified:' + self.key, {'names': list(o.names)})
        if exc is not None or not pre_ok:
            ctx.count('producer_returns_not_judged')
            return
        if self.closure and len(args) > 1 and is_corr(args[1]):
            # Obs / CObs operator with a correlator as partner: the quantifier lists Obs / CObs / numbers / arrays as partners
            # (correlator arithmetic is C14's subject, where CObs as the left operand is outside the stated subset)
            ctx.count('arithmetic_with_correlator_partner_outside_quantifier')
            return
        ctx.count('producer_returns_checked')
        ctx.cell('producer', self.key)
        probs = wellformed_any(result, allow_nan=True)
        ctx.ev()
        for p in probs:
            ctx.violation('malformed:%s:%s' % (self.key, p), {'producer': self.key, 'problem': p,
                                                             'operand_types': [type(a).__name__ for a in args[:3]]})
        if self.closure:
            ctx.count('closure_results_checked')
            ok = is_obs(result) or is_cobs(result) or result is NotImplemented
            if isinstance(result, np.ndarray):
                ok = all(is_obs(r) or is_cobs(r) for r in result.ravel())
            if not ok and len(args) > 1 and is_corr(args[1]):
                ok = True
            ctx.ev()
            if not ok:
                ctx.violation('closure:%s:returns-%s' % (self.key, type(result).__name__),
                              {'operand_types': [type(a).__name__ for a in args[:2]]})


def setup(ctx):
    global PE, CTX
    import pyerrors as pe
    PE = pe
    CTX = ctx
    for name in ('derived_observable', 'reweight', 'correlate', 'merge_obs', 'cov_Obs', 'import_jackknife', 'import_bootstrap'):
        taps.tap_function(pe.obs, name, ProducerMonitor(name))
    for name in ('pseudo_Obs', 'gen_correlated_data', 'load_object'):
        taps.tap_function(pe.misc, name, ProducerMonitor(name))
    for name in OBS_ARITH + OBS_FUNCS:
        taps.tap_method(pe.Obs, name, ProducerMonitor('Obs.' + name, closure=name in OBS_ARITH))
    for name in COBS_ARITH:
        taps.tap_method(pe.CObs, name, ProducerMonitor('CObs.' + name, closure=name != 'conjugate'))
    for name in ('least_squares', 'total_least_squares'):
        taps.tap_function(pe.fits, name, ProducerMonitor(name))
    taps.tap_function(pe.roots, 'find_root', ProducerMonitor('find_root'))
    taps.tap_function(pe.integrate, 'quad', ProducerMonitor('quad'))
    for name in ('matmul', 'jack_matmul', 'einsum', 'inv', 'cholesky', 'det', 'eigh', 'eig', 'eigv', 'pinv', 'svd'):
        taps.tap_function(pe.linalg, name, ProducerMonitor('linalg.' + name))
    for name in ('import_json_string', 'load_json', 'load_json_dict'):
        taps.tap_function(pe.input.json, name, ProducerMonitor('json.' + name))
    for name in ('import_dobs_string', 'read_dobs', 'read_pobs'):
        taps.tap_function(pe.input.dobs, name, ProducerMonitor('dobs.' + name))
    for name in ('read_rwms', 'extract_t0', 'extract_w0', 'read_qtop', 'read_gf_coupling', 'read_ms5_xsf', 'qtop_projection'):
        if hasattr(pe.input.openQCD, name):
            taps.tap_function(pe.input.openQCD, name, ProducerMonitor('openQCD.' + name))


def teardown(ctx):
    taps.report(ctx)
    taps.remove_all()


def plan(tier):
    m = 1 if tier == 'quick' else 20
    return [('history', 260 * m), ('rejection', 60 * m), ('mixed_table', 40 * m), ('readers', 2 if tier == 'quick' else 4),
            ('constructor', 60 * m), ('repo_tests', 5 if tier == 'quick' else len(REPO_TEST_FILES))] + \
        [('foreign:' + p, 6 if tier == 'quick' else 150) for p in FOREIGN]


# ------------------------------------------------------------------------------------------
def check_returned(ctx, x, where):
    """Workload-side check of objects that reach the user without passing a tapped producer
    (direct constructor calls, results of CObs construction)."""
    probs = wellformed_any(x, allow_nan=True)
    ctx.ev()
    for p in probs:
        ctx.violation('malformed:%s:%s' % (where, p), {'where': where})
    return not probs


def start_pool(rng, tier):
    pe = PE
    nmax = 20 if tier == 'quick' else int(rng.choice([20, 60]))
    ens = str(rng.choice(gen.ENS_POOL))
    reps = gen.rand_reps(rng, 3, allow_bare=True)
    tab = gen.rand_table(rng, ens, reps, 5, nmax, mean=1.0, data_kinds=['white', 'ar', 'counts'])
    pool = []
    base = gen.table_to_obs(pe, tab, {n: str(rng.choice(['list', 'ndarray', 'native'])) for n in tab})
    pool.append(base)
    # same layout (for correlate), subset layout (for reweight), other replicas (for merge), other ensemble, covariance input
    pool.append(gen.table_to_obs(pe, {n: {c: float(rng.normal(1.0, 0.2)) for c in d} for n, d in tab.items()}))
    sub = gen.subset_table(rng, tab, str(rng.choice(['prefix', 'stride', 'random'])))
    pool.append(gen.table_to_obs(pe, {n: {c: float(rng.normal(2.0, 0.3)) for c in d} for n, d in sub.items()}))
    other = [e for e in gen.ENS_POOL if e != ens]
    pool.append(gen.rand_obs(pe, rng, nens=1, nmax=nmax, ens_pool=other[:2], mean=1.0))
    pool.append(pool[0] * 0.5 + pe.cov_Obs(0.7, 0.01, 'cvH'))
    cv = pe.cov_Obs([1.0, 2.0], gen.cov_matrix(rng, 2), 'cvM')
    pool.append(cv[0] + 0.5 * cv[1])
    for o in pool:
        check_returned(CTX, o, 'constructor')
    return pool, tab, ens


def bounded(o):
    v = abs(o.value) if is_obs(o) else 1.0
    if not np.isfinite(v):
        return None
    if v > 50 or (0 < v < 1e-3):
        return o / (1.0 + v) + 1.0
    return o


BIN = {'+': operator.add, '-': operator.sub, '*': operator.mul, '/': operator.truediv, '**': operator.pow}


def case_history(ctx, rng):
    pe = PE
    pool, tab, ens = start_pool(rng, ctx.tier)
    cpool = []
    born = [(o, any_digest(o)) for o in pool]
    script = []
    kinds = set()
    mixed = 0
    nsteps = int(rng.integers(8, 26))
    tmpdir = None
    for step in range(nsteps):
        act = str(rng.choice(['bin_obs', 'bin_num', 'bin_complex', 'bin_cobs', 'bin_array', 'func', 'unary', 'derived', 'reweight', 'correlate',
                              'merge', 'fit', 'root', 'quad', 'linalg', 'json', 'dobs', 'pickle', 'jackknife', 'cobs_ops', 'gm']))
        a = pool[int(rng.integers(0, len(pool)))]
        b = pool[int(rng.integers(0, len(pool)))]
        res = None
        with warnings.catch_warnings():
            warnings.simplefilter('ignore')
            if act == 'bin_obs':
                op = str(rng.choice(['+', '-', '*', '/']))
                if op == '/' and abs(b.value) < 0.05:
                    b = b + 1.0
                res = BIN[op](a, b)
            elif act == 'bin_num':
                op = str(rng.choice(list(BIN)))
                y = rng.choice([2, -3, 0.5, 1.75, -0.25]).item()
                if rng.random() < 0.5:
                    y = int(y) if float(int(y)) == y else y
                left = bool(rng.integers(0, 2))
                if op == '**':
                    a = abs(a) + 0.5
                    y = abs(y)
                if op == '/' and left and abs(a.value) < 0.05:
                    a = a + 1.0
                res = BIN[op](y, a) if left else BIN[op](a, y)
                mixed += 1
            elif act == 'bin_complex':
                op = str(rng.choice(list(BIN)))
                y = complex(float(rng.uniform(0.5, 2)), float(rng.uniform(0.5, 2)) * rng.choice([-1, 1]))
                if rng.random() < 0.25:
                    y = complex(y.real, 0.0) if rng.random() < 0.6 else complex(0.0, y.imag)   # on an axis
                left = bool(rng.integers(0, 2))
                if op in ('**', '/'):
                    a = abs(a) + 0.5
                res = BIN[op](y, a) if left else BIN[op](a, y)
                mixed += 1
            elif act == 'bin_cobs':
                op = str(rng.choice(['+', '-', '*', '/']))
                z = cpool[int(rng.integers(0, len(cpool)))] if cpool and rng.random() < 0.6 else pe.CObs(a, b)
                if op == '/':
                    z = z + 3.0
                partner = [a, 2, 1.5, 1 + 2j, pe.CObs(b, a)][int(rng.integers(0, 5))]
                if op == '/' and is_obs(partner) and abs(partner.value) < 0.05:
                    partner = partner + 1.0
                res = BIN[op](partner, z) if rng.random() < 0.5 else BIN[op](z, partner)
                mixed += 1
            elif act == 'bin_array':
                op = str(rng.choice(['+', '-', '*', '/', '**']))
                arr = np.array([1.5, 2.0, 0.5][:int(rng.integers(1, 4))])
                if op in ('**', '/'):
                    a = abs(a) + 0.5
                res = BIN[op](arr, a) if rng.random() < 0.5 else BIN[op](a, arr)
                mixed += 1
            elif act == 'func':
                name = str(rng.choice(['exp', 'sin', 'cos', 'tanh', 'arctan', 'sinh', 'cosh', 'arcsinh', 'sqrt', 'log', 'tan', 'arcsin', 'arccos',
                                       'arctanh', 'arccosh']))
                x = a
                if name in ('sqrt', 'log'):
                    x = abs(a) + 0.5
                elif name in ('arcsin', 'arccos', 'arctanh', 'tan'):
                    x = a / (2.0 + abs(a.value) * 2)
                elif name == 'arccosh':
                    x = abs(a) + 1.5
                elif name in ('exp', 'sinh', 'cosh'):
                    x = a / (1.0 + abs(a.value))
                res = getattr(np, name)(x)
            elif act == 'unary':
                res = [lambda x: -x, lambda x: abs(x), lambda x: +x][int(rng.integers(0, 3))](a)
            elif act == 'derived':
                import autograd.numpy as anp
                res = pe.derived_observable(lambda x, **kw: anp.array([x[0] * x[1], x[0] + anp.sin(x[1])]), [a, b])
                res = list(res)
            elif act == 'reweight':
                w = gen.table_to_obs(pe, {n: {c: float(rng.uniform(0.5, 1.5)) for c in d} for n, d in tab.items()})
                res = pe.reweight(w, [pool[2], pool[1]], all_configs=bool(rng.integers(0, 2)))
            elif act == 'correlate':
                res = pe.correlate(pool[0], pool[1])
            elif act == 'merge':
                extra = gen.table_to_obs(pe, {'%s|zz%d' % (ens, step): {c: float(rng.normal()) for c in range(3, 3 + 2 * 7, 2)}})
                res = pe.merge_obs([pool[1], extra])
            elif act == 'fit':
                ys = [a + 0.1 * k * b for k in range(4)]
                try:
                    [y.gamma_method() for y in ys]
                except ValueError as e:
                    if 'common spacing' not in str(e):
                        raise
                    ys = []
                if ys and all(y.dvalue > 0 for y in ys):
                    fr = pe.fits.least_squares(np.arange(4.0), ys, lambda p, x: p[0] + p[1] * x, silent=True)
                    res = list(fr.fit_parameters)
            elif act == 'root':
                d = abs(a) + 1.0
                res = pe.roots.find_root(d, lambda x, dd: x ** 3 - dd, guess=1.0)
            elif act == 'quad':
                import autograd.numpy as anp
                res = pe.integrate.quad(lambda p, x: p[0] * x + anp.sin(p[1] * x), [a, b], 0.0, abs(a) + 1.0)
            elif act == 'linalg':
                m = np.array([[abs(a) + 3.0 + abs(b.value), b], [b, abs(a) + 4.0 + abs(b.value)]])
                which = str(rng.choice(['inv', 'matmul', 'det', 'eigh', 'cholesky', 'svd']))
                # the library evaluates the operation on the matrices of replica means as well; those can
                # leave the domain (not positive definite / singular) although the central matrix is fine
                try:
                    res = linalg_op(pe, which, m)
                except np.linalg.LinAlgError:
                    ctx.count('linalg_replica_mean_matrix_outside_domain')
                    res = None
            elif act == 'json':
                s = pe.input.json.create_json_string([a, b, [a, a * 2.0]], indent=int(rng.integers(0, 2)))
                res = pe.input.json.import_json_string(s, verbose=False)
            elif act == 'dobs':
                try:
                    s = pe.input.dobs.create_dobs_string([a, b], 'history').encode('utf-8')
                except Exception as e:
                    # an object that went through a dobs round trip carries its covariance matrix with 15 digits;
                    # the writer demands bit-identical matrices for one name: not a matter of C04
                    if 'Inconsistent covariance matrices' not in str(e):
                        raise
                    ctx.count('dobs_export_refused_inconsistent_covariance')
                    s = None
                if s is not None:
                    res = pe.input.dobs.import_dobs_string(s, full_output=False)
            elif act == 'pickle':
                res = pickle.loads(pickle.dumps(a))
                check_returned(ctx, res, 'pickle')
            elif act == 'jackknife':
                single = pool[2] if len(pool[2].names) == 1 else None
                cand = [o for o in pool if len(o.names) == 1 and not o.covobs]
                if cand:
                    o = cand[int(rng.integers(0, len(cand)))]
                    res = pe.import_jackknife(o.export_jackknife(), o.names[0], idl=[o.idl[o.names[0]]])
            elif act == 'cobs_ops':
                z = pe.CObs(a, b)
                check_returned(ctx, z, 'CObs-constructor')
                res = [abs(z + 3.0), -z, z.conjugate()]
            elif act == 'gm':
                try:
                    a.gamma_method()
                except ValueError as e:
                    if 'common spacing' not in str(e):
                        raise
                check_returned(ctx, a, 'after-gamma_method')
        kinds.add(act)
        script.append(act)
        ctx.cell('op', act)
        # feed results back into the pools
        flat = []
        collect_flat(res, flat)
        for r in flat:
            if is_obs(r) and not isinstance(r.value, complex) and np.isfinite(r.value) and \
                    all(np.all(np.isfinite(d)) for d in r.deltas.values()) and all(np.isfinite(v) for v in r.r_values.values()):
                rb = bounded(r)
                if rb is not None and len(pool) < 14:
                    pool.append(rb)
                    born.append((rb, any_digest(rb)))
            elif is_cobs(r) and len(cpool) < 6:
                if is_obs(r.real) and is_obs(r.imag) and np.isfinite(r.real.value) and np.isfinite(r.imag.value):
                    cpool.append(r)
    # objects handed out earlier must not be changed by anything that happened later (shared buffers, caches)
    for k, (o, d) in enumerate(born):
        ctx.ev()
        if any_digest(o) != d:
            ctx.violation('returned-object-changed-by-later-operations', {'pool_index': k, 'names': list(o.names), 'script': script[-8:]})
    ctx.count('histories')
    if len(kinds) >= 3 and mixed >= 1:
        ctx.nontrivial.add(digest('history', script, any_digest(pool[0])))
    ctx.sample({'history': script, 'pool_names': [list(o.names) for o in pool[:6]]})


def linalg_op(pe, which, m):
    if which == 'inv':
        res = pe.linalg.inv(m)
    elif which == 'matmul':
        res = pe.linalg.matmul(m, m)
    elif which == 'det':
        res = pe.linalg.det(m)
    elif which == 'eigh':
        res = list(pe.linalg.eigh(m))
    elif which == 'cholesky':
        res = pe.linalg.cholesky(m)
    else:
        res = list(pe.linalg.svd(m))
    return res.ravel().tolist() if isinstance(res, np.ndarray) else res


def collect_flat(x, out, depth=0):
    if depth > 3:
        return
    if is_obs(x) or is_cobs(x):
        out.append(x)
    elif isinstance(x, np.ndarray) and x.dtype == object:
        for i in x.ravel()[:16]:
            collect_flat(i, out, depth + 1)
    elif isinstance(x, (list, tuple)):
        for i in x[:16]:
            collect_flat(i, out, depth + 1)


# ------------------------------------------------------------------------------------------
def case_mixed_table(ctx, rng):
    """Every operator x partner type x position once per case: the closure table."""
    pe = PE
    pool, tab, ens = start_pool(rng, ctx.tier)
    a = abs(pool[0]) + 0.5
    z = pe.CObs(a, pool[1])
    numbers = [2, -3, 0.5, -1.25, 1 + 2j, -0.5 - 1j, np.float64(1.5), np.int64(2), np.complex128(1 - 1j),
               complex(2.5, 0.0), 3 + 0j, 2j, np.complex128(-1.5), (1 + 1j) * (1 - 1j)]   # incl. complex numbers on the real / imaginary axis
    # plus seeded draws from wider pools (zero, one, large and tiny magnitudes, numpy scalar types)
    numbers += [int(rng.choice([0, 1, -1, 7, -12, 10 ** 6])), float(rng.choice([0.0, 1.0, -1.0, 1e-6, 3e5, 2.5])),
                complex(float(rng.integers(-3, 4)), float(rng.choice([-2.0, 1.0, 3.5]))),
                [np.float32(0.75), np.int32(3), np.int16(-2), np.float64(-7.5)][int(rng.integers(0, 4))]]
    for op, f in BIN.items():
        for y in numbers:
            for left in (False, True):
                if op == '**' and not isinstance(y, (complex, np.complexfloating)) and (y < 0 and left):
                    continue  # negative base with observable exponent: outside the domain
                if op == '/' and not left and y == 0:
                    continue  # division by zero is outside the domain
                if op == '**' and left and (y == 0 or (not isinstance(y, (complex, np.complexfloating)) and y < 0)):
                    continue  # 0 ** x and negative ** x: outside the domain of the derivative
                if op == '**' and abs(y) > 50:
                    continue
                try:
                    r = f(y, a) if left else f(a, y)
                except ZeroDivisionError:
                    continue
                ctx.cell('closure', op, type(y).__name__, 'left' if left else 'right')
                ctx.ev()
                if not (is_obs(r) or is_cobs(r)):
                    ctx.violation('closure:Obs%s%s:returns-%s' % (op, type(y).__name__, type(r).__name__), {'left_number': left})
                else:
                    check_returned(ctx, r, 'Obs%s%s' % (op, type(y).__name__))
            if op != '**':
                for left in (False, True):
                    if op == '/' and not left and y == 0:
                        continue
                    r = f(y, z) if left else f(z, y)
                    ctx.cell('closure', op, 'CObs', type(y).__name__, 'left' if left else 'right')
                    ctx.ev()
                    if not is_cobs(r):
                        ctx.violation('closure:CObs%s%s:returns-%s' % (op, type(y).__name__, type(r).__name__), {'left_number': left})
                    else:
                        check_returned(ctx, r, 'CObs%s%s' % (op, type(y).__name__))
        if op != '**':
            for x, y in ((a, z), (z, a), (z, z)):
                r = f(x, y)
                ctx.ev()
                if not is_cobs(r):
                    ctx.violation('closure:%s%s%s:returns-%s' % (type(x).__name__, op, type(y).__name__, type(r).__name__), None)
                else:
                    check_returned(ctx, r, 'CObs%sCObs' % op)
    ctx.nontrivial.add(digest('mixed', any_digest(a)))


# ------------------------------------------------------------------------------------------
def expect_raises(ctx, row, fn):
    ctx.count('rejection_rows')
    ctx.cell('reject', row)
    ctx.ev()
    try:
        with warnings.catch_warnings():
            warnings.simplefilter('ignore')
            r = fn()
    except Exception:
        return
    ctx.violation('accepted:' + row, {'row': row, 'returned': type(r).__name__})


def case_rejection(ctx, rng):
    pe = PE
    n = int(rng.integers(5, 30))
    x = rng.normal(size=n)
    y = rng.normal(size=n)
    perm = [int(i) for i in rng.permutation(np.arange(1, n + 1))]
    if perm == sorted(perm):          # the identity is a legitimate list: make it a genuinely unsorted one
        perm[0], perm[1] = perm[1], perm[0]
    rows = {
        'duplicate-names': lambda: pe.Obs([x, y], ['A|r1', 'A|r1']),
        'non-string-name-single': lambda: pe.Obs([x], [5]),
        'non-string-name-several': lambda: pe.Obs([x, y], ['A|r1', 7]),
        'non-string-name-bytes': lambda: pe.Obs([x], [b'A']),
        'unsorted-idl-list': lambda: pe.Obs([x], ['A'], idl=[perm]),
        'unsorted-idl-ndarray': lambda: pe.Obs([x], ['A'], idl=[np.arange(n, 0, -1)]),
        'unsorted-idl-one-swap': lambda: pe.Obs([x], ['A'], idl=[list(range(1, n - 1)) + [n, n - 1]]),
        'duplicate-idl': lambda: pe.Obs([x], ['A'], idl=[list(range(1, n)) + [n - 1]]),
        'descending-range': lambda: pe.Obs([x], ['A'], idl=[range(n, 0, -1)]),
        'length-mismatch-idl': lambda: pe.Obs([x], ['A'], idl=[range(1, n)]),
        'length-mismatch-idl-list': lambda: pe.Obs([x], ['A'], idl=[list(range(1, n + 2))]),
        'length-mismatch-names': lambda: pe.Obs([x, y], ['A']),
        'length-mismatch-idl-count': lambda: pe.Obs([x, y], ['A|r1', 'A|r2'], idl=[range(1, n + 1)]),
        'four-samples': lambda: pe.Obs([x[:4]], ['A']),
        'four-samples-second-replica': lambda: pe.Obs([x, y[:3]], ['A|r1', 'A|r2']),
        'several-ensembles': lambda: pe.Obs([x, y], ['A|r1', 'B|r1']),
        # ensemble = the text before '|': names that merely share a prefix are different ensembles
        'several-ensembles-prefix-bare': lambda: pe.Obs([x, y], ['A', 'A1']),
        'several-ensembles-prefix-bare-reversed': lambda: pe.Obs([x, y], ['A1', 'A']),
        'several-ensembles-prefix-replica': lambda: pe.Obs([x, y], ['ens|r1', 'ens2|r1']),
        'several-ensembles-prefix-mixed': lambda: pe.Obs([x, y, x], ['AB|r1', 'AB|r2', 'ABC|r1']),
        'several-ensembles-prefix-merge': lambda: pe.merge_obs([pe.Obs([x], ['A']), pe.Obs([y], ['A1'])]),
        'several-ensembles-prefix-merge-replica': lambda: pe.merge_obs([pe.Obs([x], ['L32|r1']), pe.Obs([y], ['L32T64|r0'])]),
        'separator-in-cov-name': lambda: pe.cov_Obs(1.0, 0.1, 'cv|x'),
        # the same malformed requests with the optional gradient argument given (scalar, list, array)
        'separator-in-cov-name-with-grad': lambda: pe.cov_Obs(1.0, 0.1, 'cv|x', grad=[1.0]),
        'separator-in-cov-name-with-grad-matrix': lambda: pe.cov_Obs([1.0, 2.0], [[1.0, 0.1], [0.1, 1.0]], 'A|r2', grad=np.array([1.0, 0.5])),
        'negative-variance-with-grad': lambda: pe.cov_Obs(1.0, -0.1, 'cvR', grad=[1.0]),
        'asymmetric-cov-with-grad': lambda: pe.cov_Obs([1.0, 2.0], [[1.0, 0.3], [0.1, 1.0]], 'cvR', grad=[1.0, 0.5]),
        'asymmetric-cov': lambda: pe.cov_Obs([1.0, 2.0], [[1.0, 0.3], [0.1, 1.0]], 'cvR'),
        # asymmetric by very little: one ulp, a relative 1e-7, and matrices whose entries are tiny in absolute terms
        'asymmetric-cov-one-ulp': lambda: pe.cov_Obs([1.0, 2.0], [[1.0, 0.5], [float(np.nextafter(0.5, 1.0)), 1.0]], 'cvR'),
        'asymmetric-cov-relative-1e-7': lambda: pe.cov_Obs([1.0, 2.0], [[1.0, 0.5], [0.5 * (1 + 1e-7), 1.0]], 'cvR'),
        'asymmetric-cov-tiny-entries': lambda: pe.cov_Obs([1.0, 2.0], [[1e-10, 0.8e-10], [0.2e-10, 1e-10]], 'cvR'),
        'asymmetric-cov-tiny-entries-3d': lambda: pe.cov_Obs([1.0, 2.0, 3.0], [[4e-12, 1e-12, 0.0], [1e-12, 4e-12, 1e-12], [0.0, 1.5e-12, 4e-12]], 'cvR'),
        'indefinite-cov-tiny-entries': lambda: pe.cov_Obs([1.0, 2.0], [[1e-12, 2e-12], [2e-12, 1e-12]], 'cvR'),
        'indefinite-cov': lambda: pe.cov_Obs([1.0, 2.0], [[1.0, 2.0], [2.0, 1.0]], 'cvR'),
        'negative-variance': lambda: pe.cov_Obs(1.0, -0.1, 'cvR'),
        'negative-variance-diag': lambda: pe.cov_Obs([1.0, 2.0], [0.1, -0.2], 'cvR'),
        'cov-not-square': lambda: pe.cov_Obs([1.0, 2.0], [[1.0, 0.0, 0.0], [0.0, 1.0, 0.0]], 'cvR'),
        'cov-means-count': lambda: pe.cov_Obs([1.0, 2.0, 3.0], [[1.0, 0.0], [0.0, 1.0]], 'cvR'),
        'idl-wrong-type': lambda: pe.Obs([x], ['A'], idl=['1-%d' % n]),
    }
    for row, fn in rows.items():
        expect_raises(ctx, row, fn)
    ctx.nontrivial.add(digest('reject', n, x[:3]))
    ctx.sample({'rejection_rows': sorted(rows)})


def case_constructor(ctx, rng):
    """Well-formed requests in every accepted form: list / ndarray / range idl, equally spaced lists
    must become ranges, irregular ones stay lists; names get sorted."""
    pe = PE
    ens = str(rng.choice(gen.ENS_POOL))
    reps = gen.rand_reps(rng, 3, allow_bare=True)
    names = [ens if r is None else '%s|%s' % (ens, r) for r in reps]
    perm = rng.permutation(len(names))
    samples, idls = [], []
    for k in perm:
        n = int(rng.integers(5, 25))
        idl = gen.rand_idl(rng, n, str(rng.choice(gen.IDL_KINDS)))
        idls.append(idl)
        samples.append(rng.normal(size=len(idl)))
    o = pe.Obs(samples, [names[k] for k in perm], idl=idls) if rng.random() < 0.8 else pe.Obs(samples, [names[k] for k in perm])
    check_returned(ctx, o, 'Obs-constructor')
    ctx.cell('constructor', 'reps%d' % len(names))
    ctx.nontrivial.add(digest('ctor', any_digest(o)))
    dim = int(rng.integers(1, 4))
    cv = pe.cov_Obs(rng.normal(size=dim).tolist() if dim > 1 else float(rng.normal()), gen.cov_matrix(rng, dim) if dim > 1 else 0.04, 'cvC')
    check_returned(ctx, cv, 'cov_Obs')
    p = pe.pseudo_Obs(float(rng.normal()), float(rng.uniform(0.01, 1)), names[0], samples=int(rng.integers(5, 50)))
    check_returned(ctx, p, 'pseudo_Obs')


def case_readers(ctx, rng, idx):
    pe = PE
    data = os.path.join(ctx.repo, 'tests', 'data', 'openqcd_test')
    if not os.path.isdir(data):
        raise Skip()
    from pyerrors.input import openQCD as oq
    calls = [
        lambda: oq.read_rwms(data, 'sfqcd', version='1.6', postfix='rwms'),
        lambda: oq.read_rwms(data, 'sfqcd', version='1.6', postfix='rwms', r_start=[2], r_stop=[12], r_step=2),
        lambda: oq.read_rwms(data, 'sfqcd', version='2.0', files=['openqcd2r1.ms1.dat'], names=['openqcd2|r1']),
        lambda: oq.extract_t0(data, 'openqcd', dtr_read=3, xmin=0, spatial_extent=4),
        lambda: oq.extract_w0(data, 'openqcd', dtr_read=3, xmin=0, spatial_extent=4),
        lambda: oq.read_qtop(data, 'openqcd', c=0.3, version='openQCD', L=4),
        lambda: oq.read_gf_coupling(data, 'sfqcd', c=0.35, L=4),
        lambda: oq.read_ms5_xsf(data, 'ms5_xsf_T24L16', 'dd', 'gA'),
    ]
    for k, f in enumerate(calls):
        try:
            r = f()
        except Exception as e:
            if ctx.classify_exception(e)[0] == 'library':
                ctx.count('reader_calls_raised')
            continue
        ctx.count('reader_calls')
        check_returned(ctx, r, 'reader%d' % k)
    ctx.nontrivial.add(digest('readers', idx))


# the first five are short (quick tier); the thorough tier runs all of them
REPO_TEST_FILES = ['covobs_test.py', 'roots_test.py', 'integrate_test.py', 'mpm_test.py', 'special_test.py',
                   'obs_test.py', 'linalg_test.py', 'correlators_test.py', 'json_io_test.py', 'fits_test.py',
                   'pandas_test.py', 'openQCD_in_test.py', 'sfcf_in_test.py', 'misc_test.py']


def case_repo_tests(ctx, idx):
    """The repository's own tests as an extra workload: every producer call they make passes the
    tapped invariant monitor (pre => post form, so deliberately malformed objects are not judged)."""
    import pytest
    f = os.path.join(ctx.repo, 'tests', REPO_TEST_FILES[idx])
    if not os.path.exists(f):
        raise Skip()
    before = ctx.counters.get('producer_returns_checked', 0)
    cwd = os.getcwd()
    os.chdir(ctx.repo)
    try:
        rc = pytest.main(['-q', '-p', 'no:cacheprovider', '-p', 'no:xdist', '-p', 'no:benchmark', '--no-header', '-W', 'ignore', f])
    finally:
        os.chdir(cwd)
    ctx.count('repo_test_files_run')
    ctx.count('repo_test_producer_returns', ctx.counters.get('producer_returns_checked', 0) - before)
    ctx.cell('repo_tests', REPO_TEST_FILES[idx])
    ctx.nontrivial.add(digest('repo_tests', REPO_TEST_FILES[idx]))


# ------------------------------------------------------------------------------------------
# The workloads of the other properties as additional workload for the invariant monitor: their
# own oracles record into a scratch context (they are judged by their own checks), the producer taps
# of this check stay installed, so every observable those workloads make the library return -
# fits with priors, GEVP, readers of synthetic file sets, round trips ... - passes the C04 predicate.
FOREIGN = ['C05', 'C06', 'C07', 'C08', 'C09', 'C10', 'C11', 'C12', 'C13', 'C14', 'C15', 'C16', 'C17', 'C19', 'C20']
_foreign = {}


def case_foreign(ctx, prop, idx):
    import importlib
    from ..worker import case_rng, expand_plan, interleave
    if prop not in _foreign:
        mod = importlib.import_module('vmon.props.' + prop)
        fctx = ctx.trial()
        fctx.tier = 'quick'
        if hasattr(mod, 'setup'):
            mod.setup(fctx)          # their taps stack on top of ours
        _foreign[prop] = (mod, fctx, interleave(expand_plan(mod.plan('quick'))))
    mod, fctx, cases = _foreign[prop]
    kind, i = cases[(idx * 7919) % len(cases)]
    before = ctx.counters.get('producer_returns_checked', 0)
    fctx.case = (kind, i)
    try:
        mod.run_case(fctx, kind, i, case_rng(ctx.seed, prop, kind, i))
    except Skip:
        pass
    except Exception as e:
        # whatever goes wrong inside a foreign workload is that property's business
        ctx.count('foreign_case_raised')
    ctx.count('foreign_cases:' + prop)
    ctx.count('foreign_producer_returns', ctx.counters.get('producer_returns_checked', 0) - before)
    ctx.cell('foreign', prop)


def run_case(ctx, kind, idx, rng):
    if kind.startswith('foreign:'):
        return case_foreign(ctx, kind.split(':')[1], idx)
    if kind == 'repo_tests':
        return case_repo_tests(ctx, idx)
    if kind == 'history':
        case_history(ctx, rng)
    elif kind == 'rejection':
        case_rejection(ctx, rng)
    elif kind == 'mixed_table':
        case_mixed_table(ctx, rng)
    elif kind == 'constructor':
        case_constructor(ctx, rng)
    elif kind == 'readers':
        case_readers(ctx, rng, idx)
    else:
        raise ValueError(kind)
