"""C01 - linear error propagation is exact and aligned by configuration number.

Monitors
  L1  per-call reference monitor on derived_observable (tap): every call made anywhere in the
      workload is re-computed by ref.dense.propagate from snapshots of its inputs, with the claimed
      man_grad or an independent finite-difference gradient of func.
  L2  operator-table oracle: every overloaded operator / function application is compared with the
      dense reference using the analytic derivative typed in here (validated against mpmath).
  L3  split independence: random expression trees evaluated step by step, re-associated, as one
      derived_observable call (autograd and num_grad) and by forward-mode dual numbers + reference.
"""
import math
import operator

import numpy as np

from .. import taps, gen
from ..ctx import Skip, digest
from ..snap import snap, is_obs, is_cobs, obs_digest
from ..compare import compare_obs, drop_null_cov
from ..ref import dense

ID = 'C01'
LEVEL = 'exploration'
DECIDING = ['tap:derived_observable', 'L1_calls_judged', 'L2_applications', 'L3_trees']
RULE = ('cases: seeded operand layouts (1-2 ensembles x 1-3 replicas, contiguous/strided/gapped/irregular lists, relations '
        'identical/nested/overlapping/disjoint/missing-replica/second-ensemble, covariance inputs) x every operator, '
        'partner type and operand position x gradient path; a case is non-trivial when a chain with non-zero fluctuations '
        'was compared and the derivative is not the identity or the configuration lists had to be aligned (union != own list); '
        'distinct = distinct digest of (operation, partner types, operand data)')
ASSUMPTIONS = ['reference gradients for autograd / num_grad calls are Richardson-extrapolated central differences (rtol 2e-6)',
               'operands stay inside the domain of f and away from its singularities (generator)',
               'numpy / autograd / numdifftools as installed in /venv']
BUDGET = {'quick': 45, 'thorough': 540}

PE = None
CTX = None

# ------------------------------------------------------------------------------------------
# analytic derivative table (typed here; validated against mpmath in setup)
FUNCS = {
    'sqrt': (lambda x: math.sqrt(x), lambda x: 0.5 / math.sqrt(x), (0.3, 8.0)),
    'log': (lambda x: math.log(x), lambda x: 1.0 / x, (0.3, 8.0)),
    'exp': (lambda x: math.exp(x), lambda x: math.exp(x), (-2.0, 2.0)),
    'sin': (lambda x: math.sin(x), lambda x: math.cos(x), (-3.0, 3.0)),
    'cos': (lambda x: math.cos(x), lambda x: -math.sin(x), (-3.0, 3.0)),
    'tan': (lambda x: math.tan(x), lambda x: 1.0 / math.cos(x) ** 2, (-1.2, 1.2)),
    'arcsin': (lambda x: math.asin(x), lambda x: 1.0 / math.sqrt(1 - x * x), (-0.8, 0.8)),
    'arccos': (lambda x: math.acos(x), lambda x: -1.0 / math.sqrt(1 - x * x), (-0.8, 0.8)),
    'arctan': (lambda x: math.atan(x), lambda x: 1.0 / (1 + x * x), (-4.0, 4.0)),
    'sinh': (lambda x: math.sinh(x), lambda x: math.cosh(x), (-2.0, 2.0)),
    'cosh': (lambda x: math.cosh(x), lambda x: math.sinh(x), (-2.0, 2.0)),
    'tanh': (lambda x: math.tanh(x), lambda x: 1.0 / math.cosh(x) ** 2, (-2.0, 2.0)),
    'arcsinh': (lambda x: math.asinh(x), lambda x: 1.0 / math.sqrt(x * x + 1), (-4.0, 4.0)),
    'arccosh': (lambda x: math.acosh(x), lambda x: 1.0 / math.sqrt(x * x - 1), (1.3, 8.0)),
    'arctanh': (lambda x: math.atanh(x), lambda x: 1.0 / (1 - x * x), (-0.8, 0.8)),
}
# regular regions far out in the domain, where mathematically equal forms of a derivative differ numerically (1 - tanh^2 against
# 1 / cosh^2, exp differences, 1 / (1 + x^2) for huge x): the derivative used must be accurate to rounding everywhere in the domain
EXTREME = {
    'sqrt': [(1e-8, 1e-6), (1e6, 1e8)], 'log': [(1e-8, 1e-6), (1e6, 1e8)], 'exp': [(-30.0, -20.0), (20.0, 30.0)],
    'sin': [(50.0, 60.0), (-60.0, -50.0)], 'cos': [(50.0, 60.0), (-60.0, -50.0)], 'tan': [(40.0, 41.6)],
    'arctan': [(1e3, 1e4), (-1e4, -1e3)], 'sinh': [(15.0, 25.0), (-25.0, -15.0)], 'cosh': [(15.0, 25.0), (-25.0, -15.0)],
    'tanh': [(5.0, 18.0), (-18.0, -5.0)], 'arcsinh': [(1e4, 1e6), (-1e6, -1e4)], 'arccosh': [(1e3, 1e5)],
}
MP_NAMES = {'arcsin': 'asin', 'arccos': 'acos', 'arctan': 'atan', 'arcsinh': 'asinh', 'arccosh': 'acosh', 'arctanh': 'atanh'}

BINOPS = {
    '+': (operator.add, lambda a, b: a + b, lambda a, b: (1.0, 1.0)),
    '-': (operator.sub, lambda a, b: a - b, lambda a, b: (1.0, -1.0)),
    '*': (operator.mul, lambda a, b: a * b, lambda a, b: (b, a)),
    '/': (operator.truediv, lambda a, b: a / b, lambda a, b: (1.0 / b, -a / b ** 2)),
    '**': (operator.pow, lambda a, b: a ** b, lambda a, b: (b * a ** (b - 1), a ** b * math.log(a))),
}
# complex derivatives (holomorphic in both arguments)
CBINOPS = {
    '+': (operator.add, lambda a, b: a + b, lambda a, b: (1.0 + 0j, 1.0 + 0j)),
    '-': (operator.sub, lambda a, b: a - b, lambda a, b: (1.0 + 0j, -1.0 + 0j)),
    '*': (operator.mul, lambda a, b: a * b, lambda a, b: (b, a)),
    '/': (operator.truediv, lambda a, b: a / b, lambda a, b: (1.0 / b, -a / b ** 2)),
}


def validate_tables():
    import mpmath
    mpmath.mp.dps = 40
    for name, (f, df, (lo, hi)) in FUNCS.items():
        mf = getattr(mpmath, MP_NAMES.get(name, name))
        for x in (lo + 0.13 * (hi - lo), 0.5 * (lo + hi) + 0.01, hi - 0.11 * (hi - lo)):
            exact = mpmath.diff(mf, mpmath.mpf(x))
            if abs(float(exact) - df(x)) > 1e-12 * max(1.0, abs(float(exact))):
                raise AssertionError('derivative table entry %s is wrong at %r' % (name, x))
            if abs(float(mf(mpmath.mpf(x))) - f(x)) > 1e-13 * max(1.0, abs(f(x))):
                raise AssertionError('function table entry %s is wrong at %r' % (name, x))


# ------------------------------------------------------------------------------------------
# L1: per-call reference monitor on derived_observable
def _num_snapshot(v):
    return dict(value=float(v), chains={}, cov={}, rew=False, idl_form={})


def _fd_jacobian(func, values, kwargs, out_shape, f0=None):
    """Richardson-extrapolated central differences of func at values -> array out_shape + values.shape."""
    values = np.asarray(values, dtype=float)
    kw = {k: v for k, v in kwargs.items() if k not in ('man_grad', 'num_grad', 'base_step', 'step_ratio')}
    jac = np.zeros(tuple(out_shape) + values.shape)
    for idx in np.ndindex(values.shape):
        h = 1e-3 * max(1.0, abs(values[idx]))

        def cd(hh):
            vp = values.copy()
            vm = values.copy()
            vp[idx] += hh
            vm[idx] -= hh
            return (np.asarray(func(vp, **kw), dtype=float) - np.asarray(func(vm, **kw), dtype=float)) / (2 * hh)
        d1 = cd(h)
        d2 = cd(h / 2)
        d4 = cd(h / 4)
        if f0 is not None:
            # continuity at the point itself: central differences never look at f(v).  Where f selects a basis of a degenerate
            # subspace (null vectors of a rank-deficient matrix in svd / pinv, eigenvectors of coinciding eigenvalues) f(v +- h)
            # do not converge to f(v): the point is a singularity of f, outside the quantifier, and the call is not judged.
            vp = values.copy()
            vm = values.copy()
            vp[idx] += h / 4
            vm[idx] -= h / 4
            fp = np.asarray(func(vp, **kw), dtype=float)
            fm = np.asarray(func(vm, **kw), dtype=float)
            if np.any(np.abs(0.5 * (fp + fm) - f0) > 0.05 * np.abs(fp - fm) + 1e-5 * (np.abs(f0) + 1e-3)):
                raise FloatingPointError('function not continuous at the point')
        d = (4 * d4 - d2) / 3
        # self-validation: two Richardson estimates must agree, else the function is too curved for
        # this oracle at this point and the call is not judged
        dprev = (4 * d2 - d1) / 3
        err = np.max(np.abs(d - dprev))
        if not np.all(np.isfinite(d)) or not np.all(np.isfinite(d1)) or not np.isfinite(err) or err > 1e-7 * (np.max(np.abs(d)) + 1e-3):
            raise FloatingPointError('finite-difference gradient not reliable')
        jac[(Ellipsis,) + idx] = d
    return jac


class DerivedObsMonitor(taps.Monitor):
    def before(self, args, kwargs):
        try:
            data = kwargs['data'] if 'data' in kwargs else args[1]
            arr = np.asarray(data)
            flat = arr.ravel()
            snaps = []
            held = []
            for x in flat:
                if is_obs(x):
                    # a covariance input with an identically zero matrix carries nothing (the library's
                    # placeholder for plain numbers inside matrices): dropped on both sides
                    snaps.append(drop_null_cov(snap(x)))
                    held.append((x, obs_digest(x)))
                elif isinstance(x, (int, float, np.integer, np.floating)):
                    snaps.append(_num_snapshot(x))
                else:
                    return None
            return (arr.shape, snaps, held)
        except Exception:
            return None

    def after(self, token, args, kwargs, result, exc):
        ctx = CTX
        if token is None or exc is not None:
            ctx.count('L1_calls_not_judged')
            return
        shape, snaps, held = token
        # an operand is used again elsewhere in the expression tree: the call must leave it as it was
        ctx.ev()
        for x, dg in held:
            if obs_digest(x) != dg:
                ctx.violation('L1:input-modified-by-the-call', {'names': list(x.names)})
                break
        func = kwargs['func'] if 'func' in kwargs else args[0]
        kw = {k: v for k, v in kwargs.items() if k not in ('func', 'data', 'array_mode')}
        values = np.array([s['value'] for s in snaps], dtype=float).reshape(shape)
        fkw = dict(kw)
        try:
            new_values = np.asarray(func(values, **fkw))
            if new_values.dtype.kind == 'c':
                ctx.violation('L1:complex-value-for-real-observable', {'value': repr(new_values)})
                return
            new_values = new_values.astype(float)
        except Exception:
            ctx.count('L1_calls_not_judged')
            return
        if 'man_grad' in kw:
            deriv = np.asarray(kw['man_grad'])
            if deriv.dtype.kind == 'c' or new_values.dtype.kind == 'c':
                ctx.violation('L1:complex-derivative-for-real-observable', {'man_grad': repr(kw['man_grad'])})
                return
            deriv = deriv.astype(float)
            path = 'man_grad'
            rtol = 1e-11
        else:
            try:
                deriv = _fd_jacobian(func, values, fkw, new_values.shape, f0=new_values)
            except FloatingPointError:
                ctx.count('L1_fd_oracle_unreliable_not_judged')
                return
            except Exception:
                ctx.count('L1_calls_not_judged')
                return
            if not np.all(np.isfinite(deriv)):
                ctx.count('L1_calls_not_judged')
                return
            path = 'num_grad' if kw.get('num_grad') else 'autograd'
            rtol = 2e-6
        if deriv.shape != new_values.shape + tuple(shape):
            ctx.count('L1_calls_not_judged')
            return
        res = np.asarray(result, dtype=object) if new_values.ndim else np.array(result, dtype=object).reshape(())
        if res.shape != new_values.shape:
            ctx.violation('L1:result-shape', {'got': res.shape, 'exp': new_values.shape})
            return
        ctx.count('L1_calls_judged')
        ctx.cell('L1', path, 'array_mode' if (kwargs.get('array_mode') or (len(args) > 2 and args[2])) else 'scalar_mode')
        nin = len(snaps)
        for i_val in np.ndindex(new_values.shape):
            g = deriv[i_val].ravel()

            def f(vals, _i=i_val):
                return float(np.asarray(func(np.asarray(vals, dtype=float).reshape(shape), **fkw), dtype=float)[_i])
            ref = dense.propagate(snaps, list(g), f)
            got = res[i_val]
            if not is_obs(got):
                ctx.violation('L1:result-not-Obs', {'type': type(got).__name__})
                continue
            chains, union = dense.union_lists(snaps)
            wmax = max([1.0] + list(dense.weights(snaps, chains, union).values()))
            scale = dense.delta_scale(snaps, g) * wmax
            if path != 'man_grad':
                # a finite-difference gradient carries an absolute error; with rtol 2e-6 this floor allows 2e-9 (1 + |f|): without this floor a
                # derivative that is zero to rounding (saturated tanh, exact cancellation) would be judged at 0
                scale += dense.delta_scale(snaps, np.full(len(g), 1e-3 * (1.0 + abs(float(new_values[i_val]))))) * wmax
            gfloor = 0.0
            if path != 'man_grad':
                gfloor = 1e-3 * (1.0 + abs(float(new_values[i_val]))) * max([0.0] + [float(np.max(np.abs(c[1]))) for sn in snaps for c in sn['cov'].values() if c[1].size])
            compare_obs(ctx, got, ref, 'L1:' + path, scale=scale, rtol=rtol, vtol=1e-12,
                        what='derived_observable output %s of %d inputs' % (i_val, nin),
                        rv_tol=1e-11, grad_floor=gfloor)
            if any(np.any(s['chains'][c][1] != 0) for s in snaps for c in s['chains']):
                aligned = any(len(union[c]) != len(s['chains'][c][0]) for s in snaps for c in s['chains']) or \
                    any(set(s['chains']) != set(chains) for s in snaps if s['chains'])
                if aligned or not np.all((g == 1) | (g == 0)):
                    ctx.nontrivial.add(digest('L1', path, [s['value'] for s in snaps], list(g), sorted(chains)))


# ------------------------------------------------------------------------------------------
# operand generation
def in_domain_table(rng, ensemble, reps, lo, hi, nmin, nmax, idl_kinds=None, base=None, relation='identical'):
    """table with mean inside (lo, hi) and fluctuations small enough that replica means stay inside."""
    width = hi - lo
    mean = float(rng.uniform(lo + 0.25 * width, hi - 0.25 * width))
    sigma = 0.04 * width
    tab = {}
    for r in reps:
        name = ensemble if r is None else '%s|%s' % (ensemble, r)
        if base is not None and name in base:
            cfgs = sorted(base[name])
            if relation == 'nested':
                cfgs = sorted(rng.choice(cfgs, size=max(5, len(cfgs) * 2 // 3), replace=False).tolist())
            elif relation == 'overlapping':
                k = max(1, len(cfgs) // 3)
                step = cfgs[1] - cfgs[0] if len(cfgs) > 1 else 1
                cfgs = cfgs[k:] + [cfgs[-1] + step * (i + 1) for i in range(k)]
            elif relation == 'disjoint':
                off = cfgs[-1] - cfgs[0] + int(rng.integers(1, 5))
                cfgs = [c + off for c in cfgs]
            elif relation == 'interleaved':
                cfgs = [c + 1 for c in cfgs] if len(cfgs) > 1 and cfgs[1] - cfgs[0] > 1 else cfgs
        else:
            n = int(rng.integers(nmin, nmax + 1))
            cfgs = list(gen.rand_idl(rng, n, str(rng.choice(idl_kinds or gen.IDL_KINDS)), as_type='list'))
        x = rng.normal(size=len(cfgs))
        x = np.clip(x, -2.5, 2.5) * sigma + mean
        tab[name] = {int(c): float(v) for c, v in zip(cfgs, x)}
    return tab


def make_operand(rng, dom, tier, base=None, relation='identical', reps=None, ens_name=None, with_cov=False,
                 second_ens=False, covname='cvA'):
    pe = PE
    lo, hi = dom
    nmax = 24 if tier == 'quick' else int(rng.choice([24, 60, 200]))
    ens_name = ens_name or str(rng.choice(gen.ENS_POOL))
    reps = reps if reps is not None else gen.rand_reps(rng, 3, allow_bare=True)
    tab = in_domain_table(rng, ens_name, reps, lo, hi, 5, nmax, base=base, relation=relation)
    forms = {n: str(rng.choice(['list', 'ndarray', 'native'])) for n in tab}
    o = gen.table_to_obs(pe, tab, forms)
    if second_ens:
        e2 = str(rng.choice([e for e in gen.ENS_POOL if e != ens_name]))
        t2 = in_domain_table(rng, e2, gen.rand_reps(rng, 2), -0.01, 0.01, 5, nmax)
        o = o + gen.table_to_obs(pe, t2)
    if with_cov:
        o = o + pe.cov_Obs(0.0, float(rng.uniform(0.001, 0.01)) ** 2 * (hi - lo) ** 2, covname)
    return o, tab


RELATIONS = ['identical', 'nested', 'overlapping', 'disjoint', 'interleaved', 'missing_replica', 'other_replicas',
             'second_ensemble', 'cov_shared', 'cov_one', 'independent']


def make_pair(rng, dom_a, dom_b, relation, tier):
    """two operands with the requested relation between their layouts."""
    ens_name = str(rng.choice(gen.ENS_POOL))
    if relation in ('identical', 'nested', 'overlapping', 'disjoint', 'interleaved'):
        reps = gen.rand_reps(rng, 3, allow_bare=True)
        a, ta = make_operand(rng, dom_a, tier, reps=reps, ens_name=ens_name)
        b, _ = make_operand(rng, dom_b, tier, base=ta, relation=relation, reps=reps, ens_name=ens_name)
    elif relation == 'missing_replica':
        reps = sorted(rng.choice(gen.REP_POOL, size=int(rng.integers(2, 4)), replace=False).tolist())
        a, ta = make_operand(rng, dom_a, tier, reps=reps, ens_name=ens_name)
        sub = sorted(rng.choice(reps, size=int(rng.integers(1, len(reps))), replace=False).tolist())
        rel = str(rng.choice(['identical', 'nested', 'overlapping']))
        b, _ = make_operand(rng, dom_b, tier, base=ta, relation=rel, reps=sub, ens_name=ens_name)
        if rng.random() < 0.5:
            a, b = b, a
            if dom_a != dom_b:
                a, b = b, a
    elif relation == 'other_replicas':
        a, _ = make_operand(rng, dom_a, tier, reps=['r1', 'r2'][:int(rng.integers(1, 3))], ens_name=ens_name)
        b, _ = make_operand(rng, dom_b, tier, reps=['r3', 'r10'][:int(rng.integers(1, 3))], ens_name=ens_name)
    elif relation == 'second_ensemble':
        a, ta = make_operand(rng, dom_a, tier, ens_name=ens_name, second_ens=True)
        b, _ = make_operand(rng, dom_b, tier, ens_name=ens_name, second_ens=bool(rng.integers(0, 2)))
    elif relation == 'cov_shared':
        a, ta = make_operand(rng, dom_a, tier, ens_name=ens_name)
        b, _ = make_operand(rng, dom_b, tier, ens_name=ens_name)
        # same covariance input: must carry the identical matrix
        cv = PE.cov_Obs(0.0, 1e-4 * (dom_a[1] - dom_a[0]) ** 2, 'cvS')
        a = a + cv
        b = b + 0.5 * cv
    elif relation == 'cov_one':
        a, ta = make_operand(rng, dom_a, tier, ens_name=ens_name, with_cov=True, covname='cvA')
        b, _ = make_operand(rng, dom_b, tier, ens_name=ens_name, with_cov=bool(rng.integers(0, 2)), covname='cvB')
    else:
        a, _ = make_operand(rng, dom_a, tier)
        b, _ = make_operand(rng, dom_b, tier)
    return a, b


def binop_domains(op, rng):
    if op == '**':
        return (0.5, 3.0), (-1.5, 2.5)
    if op == '/':
        d = (0.5, 3.0) if rng.random() < 0.5 else (-3.0, -0.5)
        return (-3.0, 3.0), d
    return (-3.0, 3.0), (-3.0, 3.0)


def number_in(rng, dom, kind):
    lo, hi = dom
    if kind == 'int':
        cands = [i for i in range(int(math.ceil(lo)), int(math.floor(hi)) + 1) if i != 0]
        return int(rng.choice(cands)) if cands else 1
    v = float(rng.uniform(lo, hi))
    if abs(v) < 0.2:
        v = 0.7
    return v


# ------------------------------------------------------------------------------------------
# L2
def real_snap_or_const(x):
    if is_obs(x):
        return snap(x)
    return _num_snapshot(x)


def judge_real(ctx, got, ins, grads, f, mech, what, scale_floor=0.0):
    if not is_obs(got):
        ctx.ev()
        ctx.violation(mech + ':result-type', {'what': what, 'type': type(got).__name__})
        return
    if isinstance(got.value, (complex, np.complexfloating)):
        ctx.ev()
        ctx.violation(mech + ':complex-central-value', {'what': what, 'value': repr(got.value)})
        return
    snaps = [real_snap_or_const(x) for x in ins]
    ref = dense.propagate(snaps, grads, f)
    chains, union = dense.union_lists(snaps)
    wmax = max([1.0] + list(dense.weights(snaps, chains, union).values()))
    scale = max(dense.delta_scale(snaps, grads) * wmax, scale_floor)
    # central value: rounding of an evaluation whose terms cancel (imaginary part of a complex quotient, a - b with a ~ b) is
    # proportional to the size of the terms sum_k |g_k v_k|, not to the result
    vscale = max(abs(ref['value']), abs(float(got.value)), float(sum(abs(g) * abs(s_['value']) for g, s_ in zip(grads, snaps))))
    compare_obs(ctx, got, ref, mech, scale=scale, rtol=1e-11, what=what, rv_tol=1e-11, value_scale=vscale if np.isfinite(vscale) else None)
    moving = any(np.any(s['chains'][c][1] != 0) for s in snaps for c in s['chains'])
    aligned = any(len(union[c]) != len(s['chains'][c][0]) for s in snaps for c in s['chains']) or \
        any(set(s['chains']) != set(chains) for s in snaps if s['chains'])
    if moving and (aligned or any(g not in (0.0, 1.0) for g in grads)):
        ctx.nontrivial.add(digest(mech, what, [s['value'] for s in snaps], grads))


def parts(x):
    """(re, im) of an operand; each an Obs or a float."""
    if is_cobs(x):
        return x.real, x.imag
    if is_obs(x):
        return x, 0.0
    c = complex(x)
    return c.real, c.imag


def cval(p):
    re, im = p
    return complex(re.value if is_obs(re) else re, im.value if is_obs(im) else im)


def judge_complex(ctx, got, a, b, cf, cdf, mech, what):
    """got must be a CObs whose parts are the linear propagation of (re a, im a, re b, im b)."""
    if not is_cobs(got):
        ctx.ev()
        ctx.violation(mech + ':result-type', {'what': what, 'type': type(got).__name__,
                                              'value': repr(getattr(got, 'value', None))})
        return
    pa, pb = parts(a), parts(b)
    za, zb = cval(pa), cval(pb)
    fa, fb = cdf(za, zb)
    ins = [pa[0], pa[1], pb[0], pb[1]]

    def fre(v):
        return cf(complex(v[0], v[1]), complex(v[2], v[3])).real

    def fim(v):
        return cf(complex(v[0], v[1]), complex(v[2], v[3])).imag
    gre = [fa.real, -fa.imag, fb.real, -fb.imag]
    gim = [fa.imag, fa.real, fb.imag, fb.real]

    # which inputs take part is a matter of structure, not of the numbers: an observable part whose central value happens to be
    # exactly zero still multiplies its partner (its configurations belong to the union, its partner's replica means enter), while a
    # part that IS the number zero (the imaginary part of a real operand) contributes no term.  Structural derivatives: the same
    # derivative formula at a point where every observable part is non-zero.
    def generic(p):
        re, im = p
        return complex((re.value or 1.234) if is_obs(re) else re, (im.value or 0.789) if is_obs(im) else im)
    try:
        sa, sb = cdf(generic(pa), generic(pb))
        sre = [sa.real, -sa.imag, sb.real, -sb.imag]
        sim = [sa.imag, sa.real, sb.imag, sb.real]
    except (ZeroDivisionError, ValueError, OverflowError):
        sre, sim = gre, gim
    # rounding of complex arithmetic is relative to the moduli of the complex derivatives, not to their real or imaginary parts
    # (which may vanish or cancel when the library evaluates a quotient as 1 / (y / z)): floor of the fluctuation scale
    obs_idx = [k for k in range(4) if is_obs(ins[k])]
    floor = 0.0
    if obs_idx:
        sn_ = [real_snap_or_const(ins[k]) for k in obs_idx]
        mags = [abs(fa), abs(fa), abs(fb), abs(fb)]
        ch_, un_ = dense.union_lists(sn_)
        floor = dense.delta_scale(sn_, [mags[k] for k in obs_idx]) * max([1.0] + list(dense.weights(sn_, ch_, un_).values()))
    for part, g, f, nm, gs in ((got.real, gre, fre, 're', sre), (got.imag, gim, fim, 'im', sim)):
        if is_obs(part):
            # an input whose derivative vanishes identically (e.g. the imaginary part in the real
            # part of a sum) does not take part: the operation acts component-wise
            keep0 = [k for k in range(4) if gs[k] != 0 or not is_obs(ins[k])]
            vals0 = [x.value if is_obs(x) else x for x in ins]

            def trial_with(keep):
                def fk(v, _keep=keep, _f=f, _v0=vals0):
                    full = list(_v0)
                    for kk, vv in zip(_keep, v):
                        full[kk] = vv
                    return _f(full)
                tt = ctx.trial()
                judge_real(tt, part, [ins[k] for k in keep], [g[k] for k in keep], fk, mech + ':' + nm, what, scale_floor=floor)
                return tt
            t = trial_with(keep0)
            if t.violations:
                # observable inputs whose derivative is zero at this point contribute nothing to value and fluctuations; whether the
                # library lets them take part (division is coded as (re*re' + im*im')/|z'|^2 even for a real divisor; 0.0 * b is an
                # observable on b's configurations with zero fluctuations) only shows in the union of configurations and in the
                # replica means: every subset of them is admissible
                zero = [k for k in range(4) if is_obs(ins[k]) and g[k] == 0]
                base = [k for k in range(4) if k not in zero]
                import itertools
                done = False
                for r_ in range(len(zero) + 1):
                    for sub in itertools.combinations(zero, r_):
                        keep = sorted(base + list(sub))
                        if keep == keep0:
                            continue
                        t2 = trial_with(keep)
                        ctx.evaluations -= 0
                        if not t2.violations:
                            t = t2
                            ctx.count('L2c_zero_derivative_parts_take_part')
                            done = True
                            break
                    if done:
                        break
            ctx.absorb(t)
        else:
            # a plain number is acceptable only when no observable contributes to this part
            contributes = any(is_obs(x) and gg != 0 for x, gg in zip(ins, g))
            ctx.ev()
            if contributes:
                ctx.violation(mech + ':' + nm + ':part-is-number-but-depends-on-observable', {'what': what})
            else:
                ctx.close(float(part), f([x.value if is_obs(x) else x for x in ins]), mech + ':' + nm + ':value', what, rtol=1e-12)


class PartFactory:
    """Observable parts of complex operands that satisfy the condition under which the property
    promises independence of the split into intermediate operations: either all parts live on the
    same replica set (configuration lists identical / nested / overlapping), or on replica subsets
    with identical per-replica configuration lists."""

    def __init__(self, rng, tier):
        self.rng = rng
        self.tier = tier
        self.klass = str(rng.choice(['same_replicas', 'same_configs']))
        self.ens = str(rng.choice(gen.ENS_POOL))
        self.reps = sorted(rng.choice(gen.REP_POOL, size=int(rng.integers(1, 4)), replace=False).tolist())
        self.base = None

    def obs(self, dom):
        rng = self.rng
        if self.base is None:
            o, self.base = make_operand(rng, dom, self.tier, reps=self.reps, ens_name=self.ens)
            return o
        if self.klass == 'same_replicas':
            rel = str(rng.choice(['identical', 'nested', 'overlapping']))
            return make_operand(rng, dom, self.tier, base=self.base, relation=rel, reps=self.reps, ens_name=self.ens)[0]
        sub = sorted(rng.choice(self.reps, size=int(rng.integers(1, len(self.reps) + 1)), replace=False).tolist())
        return make_operand(rng, dom, self.tier, base=self.base, relation='identical', reps=sub, ens_name=self.ens)[0]

    def sdom(self):
        return (0.5, 3.0) if self.rng.random() < 0.5 else (-3.0, -0.5)

    def zero_mean(self):
        """an observable whose central value is exactly 0.0 while its fluctuations are not (o - <o>)"""
        o = self.obs(self.sdom())
        z = o - o.value
        return z if z.value == 0.0 else o

    def cobs(self, degenerate=True):
        # degenerate but legitimate complex operands: a part with central value exactly zero (and non-zero fluctuations), a part that
        # is a plain number, a complex observable built from a real one only
        u = self.rng.random() if degenerate else 1.0
        if u < 0.12:
            CTX.count('L2c_operand_with_zero_mean_part')
            return PE.CObs(self.obs(self.sdom()), self.zero_mean())
        if u < 0.20:
            CTX.count('L2c_operand_with_zero_mean_part')
            return PE.CObs(self.zero_mean(), self.obs(self.sdom()))
        if u < 0.30:
            CTX.count('L2c_operand_with_number_part')
            return PE.CObs(self.obs(self.sdom()), float(self.rng.uniform(0.5, 2.0)) * float(self.rng.choice([-1, 1])))
        if u < 0.38:
            CTX.count('L2c_operand_with_number_part')
            return PE.CObs(float(self.rng.uniform(0.5, 2.0)) * float(self.rng.choice([-1, 1])), self.obs(self.sdom()))
        if u < 0.44:
            CTX.count('L2c_operand_with_number_part')
            return PE.CObs(self.obs(self.sdom()))
        return PE.CObs(self.obs(self.sdom()), self.obs(self.sdom()))


def case_unary(ctx, rng, tier, name):
    f, df, dom = FUNCS[name]
    if name in EXTREME and rng.random() < 0.3:
        dom = EXTREME[name][int(rng.integers(0, len(EXTREME[name])))]
        ctx.count('L2_extreme_arguments')
        ctx.cell('L2-extreme', name, '%g..%g' % dom)
        extreme = True
    else:
        extreme = False
    # (the second-ensemble and covariance parts of an operand are O(1): they would leave a narrow extreme domain)
    layout = 'one_ens' if extreme else str(rng.choice(['one_ens', 'second_ensemble', 'cov']))
    o, _ = make_operand(rng, dom, tier, second_ens=(layout == 'second_ensemble'), with_cov=(layout == 'cov'))
    via = str(rng.choice(['numpy', 'method']))
    got = getattr(np, name)(o) if via == 'numpy' else getattr(o, name)()
    ctx.count('L2_applications')
    ctx.cell('L2', name, layout, via)
    judge_real(ctx, got, [o], [df(o.value)], lambda v: f(v[0]), 'L2:' + name, name)
    ctx.sample({'op': name, 'operand_value': o.value, 'names': o.names, 'result_value': got.value if is_obs(got) else repr(got)})


def case_negabs(ctx, rng, tier, name):
    dom = (0.5, 3.0) if rng.random() < 0.5 else (-3.0, -0.5)
    o, _ = make_operand(rng, dom, tier, with_cov=bool(rng.integers(0, 2)))
    if name == 'neg':
        got = -o
        judge_real(ctx, got, [o], [-1.0], lambda v: -v[0], 'L2:neg', 'neg')
    elif name == 'abs':
        got = abs(o)
        judge_real(ctx, got, [o], [math.copysign(1.0, o.value)], lambda v: abs(v[0]), 'L2:abs', 'abs')
    else:
        got = +o
        judge_real(ctx, got, [o], [1.0], lambda v: v[0], 'L2:pos', 'pos')
    ctx.count('L2_applications')
    ctx.cell('L2', name)


def case_binary_real(ctx, rng, tier, op, partner, relation):
    pyop, f, df = BINOPS[op]
    da, db = binop_domains(op, rng)
    if partner == 'Obs':
        a, b = make_pair(rng, da, db, relation, tier)
        got = pyop(a, b)
        ins = [a, b]
        ga, gb = df(a.value, b.value)
        grads = [ga, gb]
        ff = lambda v: f(v[0], v[1])
    elif partner.startswith('num_right'):
        a, _ = make_operand(rng, da, tier, with_cov=(relation == 'cov_one'), second_ens=(relation == 'second_ensemble'))
        y = number_in(rng, db, partner.split(':')[1])
        got = pyop(a, y)
        ins = [a]
        grads = [df(a.value, float(y))[0]]
        ff = lambda v: f(v[0], y)
    elif partner.startswith('num_left'):
        b, _ = make_operand(rng, db, tier, with_cov=(relation == 'cov_one'), second_ens=(relation == 'second_ensemble'))
        y = number_in(rng, da, partner.split(':')[1])
        got = pyop(y, b)
        ins = [b]
        grads = [df(float(y), b.value)[1]]
        ff = lambda v: f(y, v[0])
    else:
        raise ValueError(partner)
    ctx.count('L2_applications')
    ctx.cell('L2', op, partner, relation)
    judge_real(ctx, got, ins, grads, ff, 'L2:%s:%s' % (op, partner.split(':')[0] if partner != 'Obs' else 'Obs'), '%s %s %s' % (op, partner, relation))
    ctx.sample({'op': op, 'partner': partner, 'relation': relation, 'chains': [list(x.names) for x in ins]})


def case_zero_mean(ctx, rng, tier, op):
    """An operand whose central value is exactly 0.0 with non-zero fluctuations (a difference from its mean, a topological charge):
    shortcuts that look at the value only (`if x == 0`, float(x) != 0) drop its fluctuations."""
    pyop, f, df = BINOPS[op]
    rel = str(rng.choice(['identical', 'nested', 'overlapping', 'second_ensemble', 'cov_one']))
    a, b = make_pair(rng, (0.5, 2.0), (0.5, 2.0), rel, tier)
    which = str(rng.choice(['left', 'right', 'both'])) if op in ('+', '-', '*') else 'left'
    if which in ('left', 'both'):
        a = a - a.value
    if which in ('right', 'both'):
        b = b - b.value
    if (which != 'right' and a.value != 0.0) or (which != 'left' and b.value != 0.0):
        raise Skip()
    partner = str(rng.choice(['Obs', 'Obs', 'number']))
    ctx.count('L2_applications')
    ctx.count('L2_zero_mean_operands')
    ctx.cell('L2', 'zero-mean', op, which, partner)
    if partner == 'number' and which != 'both':
        y = float(rng.uniform(0.5, 3.0)) * float(rng.choice([-1, 1]))
        if which == 'left':
            got, ins, grads, ff = pyop(a, y), [a], [df(0.0, y)[0]], (lambda v: f(v[0], y))
        else:
            got, ins, grads, ff = pyop(y, b), [b], [df(y, 0.0)[1]], (lambda v: f(y, v[0]))
    else:
        got, ins, grads, ff = pyop(a, b), [a, b], list(df(a.value, b.value)), (lambda v: f(v[0], v[1]))
    judge_real(ctx, got, ins, grads, ff, 'L2:%s:zero-mean' % op, '%s zero-mean %s %s %s' % (op, which, partner, rel))


def case_same_object(ctx, rng, tier, op):
    """The same Obs object in both operand slots (checklist item 4): contributions must add up."""
    pyop, f, df = BINOPS[op]
    dom = (0.5, 3.0)
    a, _ = make_operand(rng, dom, tier, with_cov=bool(rng.integers(0, 2)), second_ens=bool(rng.integers(0, 2)))
    ctx.count('L2_applications')
    ctx.cell('L2', op, 'same-object')
    got = pyop(a, a)
    ga, gb = df(a.value, a.value)
    judge_real(ctx, got, [a, a], [ga, gb], lambda v: f(v[0], v[1]), 'L2:%s:same-object' % op, '%s same object' % op)
    # and inside one explicit call / a complex number built from one object
    import autograd.numpy as anp
    d = PE.derived_observable(lambda x, **kw: x[0] * anp.sin(x[1]) + x[2] ** 2, [a, a, a])
    judge_real(ctx, d, [a, a, a], [math.sin(a.value), a.value * math.cos(a.value), 2 * a.value],
               lambda v: v[0] * math.sin(v[1]) + v[2] ** 2, 'L2:derived_observable:same-object', 'same object in three slots')
    z = PE.CObs(a, a)
    w = z * z
    if is_cobs(w):
        judge_real(ctx, w.real, [a, a, a, a], [a.value, a.value, -a.value, -a.value], lambda v: v[0] * v[1] - v[2] * v[3], 'L2c:*:same-object:re', 'CObs(a,a)**2')
        judge_real(ctx, w.imag, [a, a, a, a], [a.value, a.value, a.value, a.value], lambda v: v[0] * v[1] + v[2] * v[3], 'L2c:*:same-object:im', 'CObs(a,a)**2')
    else:
        ctx.violation('L2c:*:same-object:result-type', type(w).__name__)


def case_scaled(ctx, rng, tier, op):
    """Operands of very different magnitude (checklist item 6): nothing may depend on an absolute scale."""
    pyop, f, df = BINOPS[op]
    ca = float(rng.choice([1e-8, 1e-3, 1.0, 1e5, 1e8]))
    cb = float(rng.choice([1e-8, 1e-3, 1.0, 1e5, 1e8])) if op != '**' else 1.0
    rel = str(rng.choice(['identical', 'nested', 'overlapping', 'missing_replica']))
    a0, b0 = make_pair(rng, (0.5, 3.0), (0.5, 3.0) if op != '**' else (0.5, 2.0), rel, tier)
    a, b = a0 * ca, b0 * cb          # the scaling itself is an L1-judged operation
    got = pyop(a, b)
    ga, gb = df(a.value, b.value)
    ctx.count('L2_applications')
    ctx.cell('L2', op, 'scaled', '%g' % ca, '%g' % cb)
    judge_real(ctx, got, [a, b], [ga, gb], lambda v: f(v[0], v[1]), 'L2:%s:scaled' % op, '%s scaled %g %g %s' % (op, ca, cb, rel))


def case_special_numbers(ctx, rng, tier, op):
    """Boundary partners (checklist item 9): 0, 1, -1 and integer exponents."""
    pyop, f, df = BINOPS[op]
    a, _ = make_operand(rng, (0.5, 3.0), tier, with_cov=bool(rng.integers(0, 2)))
    partners = {'+': [0, 0.0, 1, -1], '-': [0, 0.0, 1], '*': [0, 0.0, 1, -1, 1.0], '/': [1, -1, 1.0], '**': [0, 1, 2, -1, 0.0, 1.0, 3]}[op]
    for y in partners:
        ctx.count('L2_applications')
        ctx.cell('L2', op, 'special', repr(y))
        got = pyop(a, y)
        judge_real(ctx, got, [a], [df(a.value, float(y))[0]], lambda v, y=y: f(v[0], y), 'L2:%s:special-right' % op, '%s %r' % (op, y))
        if op != '**' or y > 0:
            if op == '/' or (op == '**' and y == 0):
                continue
            got = pyop(y, a)
            judge_real(ctx, got, [a], [df(float(y), a.value)[1]] if not (op == '**' and y <= 0) else [0.0], lambda v, y=y: f(y, v[0]),
                       'L2:%s:special-left' % op, '%r %s' % (y, op))


def case_binary_array(ctx, rng, tier, op, position):
    pyop, f, df = BINOPS[op]
    da, db = binop_domains(op, rng)
    k = int(rng.integers(1, 4))
    if position == 'right':
        a, _ = make_operand(rng, da, tier)
        arr = np.array([number_in(rng, db, 'float') for _ in range(k)])
        got = pyop(a, arr)
        exp = [((a,), [df(a.value, y)[0]], (lambda v, y=y: f(v[0], y))) for y in arr]
    else:
        b, _ = make_operand(rng, db, tier)
        arr = np.array([number_in(rng, da, 'float') for _ in range(k)])
        got = pyop(arr, b)
        exp = [((b,), [df(y, b.value)[1]], (lambda v, y=y: f(y, v[0]))) for y in arr]
    ctx.count('L2_applications')
    ctx.cell('L2', op, 'ndarray_' + position)
    mech = 'L2:%s:ndarray_%s' % (op, position)
    if not isinstance(got, np.ndarray) or got.shape != arr.shape:
        ctx.ev()
        ctx.violation(mech + ':result-type', {'type': type(got).__name__, 'shape': getattr(got, 'shape', None)})
        return
    for g, (ins, grads, ff) in zip(got, exp):
        judge_real(ctx, g, list(ins), grads, ff, mech, mech)


COMPLEX_COMBOS = ['Obs.complex', 'complex.Obs', 'Obs.CObs', 'CObs.Obs', 'CObs.CObs', 'CObs.int', 'CObs.float', 'CObs.complex',
                  'int.CObs', 'float.CObs', 'complex.CObs']


def case_binary_complex(ctx, rng, tier, op, combo):
    pyop, cf, cdf = CBINOPS[op]
    left, right = combo.split('.')
    pf = PartFactory(rng, tier)

    def mk(kind):
        if kind == 'Obs':
            return pf.obs(pf.sdom())
        if kind == 'CObs':
            return pf.cobs()
        if kind == 'complex':
            z = complex(float(rng.uniform(0.5, 2.0)) * rng.choice([-1, 1]), float(rng.uniform(0.5, 2.0)) * rng.choice([-1, 1]))
            u = rng.random()
            if u < 0.15:
                z = complex(z.real, 0.0)        # complex number on the real axis
            elif u < 0.25:
                z = complex(0.0, z.imag)        # purely imaginary
            return z
        if kind == 'int':
            return int(rng.choice([-3, -2, 2, 3]))
        return float(rng.uniform(0.5, 3.0)) * float(rng.choice([-1, 1]))
    a, b = mk(left), mk(right)
    got = pyop(a, b)
    ctx.count('L2_applications')
    ctx.cell('L2c', op, combo, pf.klass)
    judge_complex(ctx, got, a, b, cf, cdf, 'L2c:%s:%s' % (op, combo), '%s %s %s' % (op, combo, pf.klass))
    ctx.sample({'op': op, 'combo': combo, 'layout_class': pf.klass})


def case_complex_degenerate(ctx, rng, tier, op):
    """Products and quotients that go through the mixed-type branches (a part that is a plain number) while a part of the other
    operand is an observable with central value exactly zero: both degeneracies together, in both operand orders."""
    pyop, cf, cdf = CBINOPS[op]
    pf = PartFactory(rng, tier)
    num = float(rng.uniform(0.5, 2.0)) * float(rng.choice([-1, 1]))
    o1 = pf.obs(pf.sdom())
    mixed = [PE.CObs(o1, num), PE.CObs(num, o1), PE.CObs(o1), o1 + complex(0.0, num), complex(num, -num), o1][int(rng.integers(0, 6))]
    zm = pf.zero_mean()
    other = pf.obs(pf.sdom())
    if zm.value != 0.0:
        raise Skip()
    which = int(rng.integers(0, 4))
    degenerate = [PE.CObs(other, zm), PE.CObs(zm, other), PE.CObs(num * 0.5, zm), PE.CObs(zm, num * 0.5)][which]
    order = str(rng.choice(['mixed-left', 'mixed-right']))
    a, b = (mixed, degenerate) if order == 'mixed-left' else (degenerate, mixed)
    if op == '/':
        zb = cval(parts(b))
        if abs(zb) < 0.2:
            raise Skip()
    got = pyop(a, b)
    ctx.count('L2_applications')
    ctx.count('L2c_degenerate_pairs')
    ctx.cell('L2c-degenerate', op, order, which)
    judge_complex(ctx, got, a, b, cf, cdf, 'L2c:%s:degenerate' % op, '%s %s zero-mean part %d' % (op, order, which))


def case_complex_array(ctx, rng, tier, op, position):
    """A complex observable combined with a numpy array (of floats, of complex numbers, of real observables) in either position:
    the operation acts element by element."""
    pyop, cf, cdf = CBINOPS[op]
    pf = PartFactory(rng, tier)
    z = pf.cobs()
    k = int(rng.integers(1, 4))
    content = str(rng.choice(['float', 'complex', 'Obs']))
    if content == 'float':
        elems = [float(rng.uniform(0.5, 3.0)) * float(rng.choice([-1, 1])) for _ in range(k)]
        arr = np.array(elems)
    elif content == 'complex':
        elems = [complex(float(rng.uniform(0.5, 2.0)) * rng.choice([-1, 1]), float(rng.uniform(0.5, 2.0)) * rng.choice([-1, 1])) for _ in range(k)]
        arr = np.array(elems)
    else:
        elems = [pf.obs(pf.sdom()) for _ in range(k)]
        arr = np.array(elems, dtype=object)
    if op == '/' and position == 'left' and abs(cval(parts(z))) < 0.2:
        raise Skip()
    got = pyop(z, arr) if position == 'right' else pyop(arr, z)
    ctx.count('L2_applications')
    ctx.count('L2c_array_partners')
    ctx.cell('L2c', op, 'CObs.ndarray[%s]' % content if position == 'right' else 'ndarray[%s].CObs' % content)
    mech = 'L2c:%s:ndarray-%s' % (op, position)
    if not isinstance(got, np.ndarray) or got.shape != arr.shape:
        ctx.ev()
        ctx.violation(mech + ':result-type', {'type': type(got).__name__, 'shape': getattr(got, 'shape', None), 'content': content})
        return
    for g, y in zip(got, elems):
        a, b = (z, y) if position == 'right' else (y, z)
        judge_complex(ctx, g, a, b, cf, cdf, mech, '%s %s array of %s' % (op, position, content))


def case_pow_complex(ctx, rng, tier, combo):
    """Obs ** complex and complex ** Obs (quantifier: ** with complex operands in either position)."""
    o, _ = make_operand(rng, (0.5, 3.0), tier)
    c = complex(float(rng.uniform(0.3, 2.0)), float(rng.uniform(0.3, 2.0)) * rng.choice([-1, 1]))
    ctx.count('L2_applications')
    ctx.cell('L2c', '**', combo)
    if combo == 'Obs.complex':
        got = o ** c
        judge_complex(ctx, got, o, c, lambda a, b: a ** b, lambda a, b: (b * a ** (b - 1), 0j), 'L2c:**:Obs.complex', 'Obs ** complex')
    else:
        got = c ** o
        judge_complex(ctx, got, c, o, lambda a, b: a ** b, lambda a, b: (0j, a ** b * np.log(a)), 'L2c:**:complex.Obs', 'complex ** Obs')


def case_cobs_unary(ctx, rng, tier):
    z = PartFactory(rng, tier).cobs(degenerate=False)
    which = str(rng.choice(['neg', 'conj', 'abs', 'pos']))
    ctx.count('L2_applications')
    ctx.cell('L2c', which)
    if which == 'pos':
        got = +z
        if not is_cobs(got):
            ctx.violation('L2c:pos:result-type', type(got).__name__)
            return
        judge_real(ctx, got.real, [z.real], [1.0], lambda v: v[0], 'L2c:pos:re', 'pos')
        judge_real(ctx, got.imag, [z.imag], [1.0], lambda v: v[0], 'L2c:pos:im', 'pos')
    elif which == 'neg':
        got = -z
        if not is_cobs(got):
            ctx.violation('L2c:neg:result-type', type(got).__name__)
            return
        judge_real(ctx, got.real, [z.real], [-1.0], lambda v: -v[0], 'L2c:neg:re', 'neg')
        judge_real(ctx, got.imag, [z.imag], [-1.0], lambda v: -v[0], 'L2c:neg:im', 'neg')
    elif which == 'conj':
        got = z.conjugate()
        judge_real(ctx, got.real, [z.real], [1.0], lambda v: v[0], 'L2c:conj:re', 'conj')
        judge_real(ctx, got.imag, [z.imag], [-1.0], lambda v: -v[0], 'L2c:conj:im', 'conj')
    else:
        got = abs(z)
        r = math.hypot(z.real.value, z.imag.value)
        judge_real(ctx, got, [z.real, z.imag], [z.real.value / r, z.imag.value / r], lambda v: math.hypot(v[0], v[1]), 'L2c:abs', 'abs')


# ------------------------------------------------------------------------------------------
# L3 expression trees
class Dual:
    __slots__ = ('v', 'g')

    def __init__(self, v, g):
        self.v = v
        self.g = g


LEAF_DOM = (0.6, 1.8)


def rand_tree(rng, nleaf, depth):
    """nested tuples: ('leaf', i) | ('const', c) | ('un', name, t) | ('bin', op, l, r)."""
    if depth == 0 or rng.random() < 0.2:
        if rng.random() < 0.12:
            return ('const', float(rng.uniform(0.6, 1.8)))
        return ('leaf', int(rng.integers(0, nleaf)))
    if rng.random() < 0.3:
        name = str(rng.choice(['sin', 'cos', 'exp', 'log1p', 'sqrt', 'tanh', 'arctan', 'sinh', 'neg']))
        return ('un', name, rand_tree(rng, nleaf, depth - 1))
    op = str(rng.choice(['+', '-', '*', '/']))
    return ('bin', op, rand_tree(rng, nleaf, depth - 1), rand_tree(rng, nleaf, depth - 1))


# every node value is kept inside a safe positive band by construction of eval below:
# unary functions are applied to arguments in (0, ~5), division denominators are 1 + x^2 forms.
def ev_generic(t, leaves, lib):
    k = t[0]
    if k == 'leaf':
        return leaves[t[1]]
    if k == 'const':
        return t[1]
    if k == 'un':
        x = ev_generic(t[2], leaves, lib)
        return lib['un'](t[1], x)
    l = ev_generic(t[2], leaves, lib)
    r = ev_generic(t[3], leaves, lib)
    return lib['bin'](t[1], l, r)


def _float_lib():
    def un(name, x):
        if name == 'neg':
            return -x
        if name == 'log1p':
            return math.log(1.5 + x * x)
        if name == 'sqrt':
            return math.sqrt(1.0 + x * x)
        return getattr(math, {'arctan': 'atan'}.get(name, name))(x)

    def bn(op, l, r):
        if op == '+':
            return l + r
        if op == '-':
            return l - r
        if op == '*':
            return l * r
        return l / (1.5 + r * r)
    return {'un': un, 'bin': bn}


def _dual_lib(n):
    def lift(x):
        return x if isinstance(x, Dual) else Dual(float(x), np.zeros(n))

    def un(name, x):
        x = lift(x)
        v = x.v
        if name == 'neg':
            return Dual(-v, -x.g)
        if name == 'log1p':
            return Dual(math.log(1.5 + v * v), 2 * v / (1.5 + v * v) * x.g)
        if name == 'sqrt':
            s = math.sqrt(1 + v * v)
            return Dual(s, v / s * x.g)
        if name == 'sin':
            return Dual(math.sin(v), math.cos(v) * x.g)
        if name == 'cos':
            return Dual(math.cos(v), -math.sin(v) * x.g)
        if name == 'exp':
            return Dual(math.exp(v), math.exp(v) * x.g)
        if name == 'tanh':
            return Dual(math.tanh(v), x.g / math.cosh(v) ** 2)
        if name == 'arctan':
            return Dual(math.atan(v), x.g / (1 + v * v))
        if name == 'sinh':
            return Dual(math.sinh(v), math.cosh(v) * x.g)
        raise ValueError(name)

    def bn(op, l, r):
        l, r = lift(l), lift(r)
        if op == '+':
            return Dual(l.v + r.v, l.g + r.g)
        if op == '-':
            return Dual(l.v - r.v, l.g - r.g)
        if op == '*':
            return Dual(l.v * r.v, l.g * r.v + r.g * l.v)
        d = 1.5 + r.v * r.v
        return Dual(l.v / d, l.g / d - l.v / d ** 2 * 2 * r.v * r.g)
    return {'un': un, 'bin': bn}


def _obs_lib(xp):
    """xp = numpy (works on Obs through the overloads) or autograd.numpy (inside derived_observable)."""
    def un(name, x):
        if name == 'neg':
            return -x
        if name == 'log1p':
            return xp.log(1.5 + x * x)
        if name == 'sqrt':
            return xp.sqrt(1.0 + x * x)
        return getattr(xp, name)(x)

    def bn(op, l, r):
        if op == '+':
            return l + r
        if op == '-':
            return l - r
        if op == '*':
            return l * r
        return l / (1.5 + r * r)
    return {'un': un, 'bin': bn}


def reassociate(rng, t):
    """A tree computing the same function with a different split into intermediate operations."""
    k = t[0]
    if k in ('leaf', 'const'):
        return t
    if k == 'un':
        return ('un', t[1], reassociate(rng, t[2]))
    op, l, r = t[1], reassociate(rng, t[2]), reassociate(rng, t[3])
    if op in '+*' and rng.random() < 0.5:
        l, r = r, l                                   # commute
    if op == '+' and r[0] == 'bin' and r[1] == '+' and rng.random() < 0.7:
        return ('bin', '+', ('bin', '+', l, r[2]), r[3])   # a+(b+c) -> (a+b)+c
    if op == '+' and l[0] == 'bin' and l[1] == '+' and rng.random() < 0.7:
        return ('bin', '+', l[2], ('bin', '+', l[3], r))   # (a+b)+c -> a+(b+c)
    if op == '*' and r[0] == 'bin' and r[1] == '*' and rng.random() < 0.7:
        return ('bin', '*', ('bin', '*', l, r[2]), r[3])
    if op == '-' and rng.random() < 0.5:
        return ('bin', '+', l, ('un', 'neg', r))           # a-b -> a+(-b)
    return ('bin', op, l, r)


def tree_size(t):
    if t[0] in ('leaf', 'const'):
        return 1
    if t[0] == 'un':
        return 1 + tree_size(t[2])
    return 1 + tree_size(t[2]) + tree_size(t[3])


def tree_leaves(t, acc=None):
    acc = set() if acc is None else acc
    if t[0] == 'leaf':
        acc.add(t[1])
    elif t[0] == 'un':
        tree_leaves(t[2], acc)
    elif t[0] == 'bin':
        tree_leaves(t[2], acc)
        tree_leaves(t[3], acc)
    return acc


def make_leaves(rng, tier, n, klass):
    """class 'same_replicas': identical replica sets, arbitrary configuration sets;
       class 'same_configs' : arbitrary replica subsets, identical configuration set per replica."""
    ens_name = str(rng.choice(gen.ENS_POOL))
    allreps = sorted(rng.choice(gen.REP_POOL, size=int(rng.integers(1, 4)), replace=False).tolist())
    first, base = make_operand(rng, LEAF_DOM, tier, reps=allreps, ens_name=ens_name)
    leaves = [first]
    for i in range(1, n):
        if klass == 'same_replicas':
            rel = str(rng.choice(['identical', 'nested', 'overlapping', 'disjoint']))
            o, _ = make_operand(rng, LEAF_DOM, tier, base=base, relation=rel, reps=allreps, ens_name=ens_name)
        else:
            sub = sorted(rng.choice(allreps, size=int(rng.integers(1, len(allreps) + 1)), replace=False).tolist())
            o, _ = make_operand(rng, LEAF_DOM, tier, base=base, relation='identical', reps=sub, ens_name=ens_name)
        leaves.append(o)
    if rng.random() < 0.3:
        leaves[0] = leaves[0] + PE.cov_Obs(0.0, 1e-4, 'cvT')
    if rng.random() < 0.3 and n > 1:
        e2 = [e for e in gen.ENS_POOL if e != ens_name][int(rng.integers(0, 4))]
        extra, _ = make_operand(rng, (-0.01, 0.01), tier, ens_name=e2, reps=['r1'])
        leaves[-1] = leaves[-1] + extra
    return leaves


def case_tree(ctx, rng, tier, klass):
    import autograd.numpy as anp
    n = int(rng.integers(2, 5))
    leaves = make_leaves(rng, tier, n, klass)
    depth = int(rng.integers(2, 6))
    t = rand_tree(rng, n, depth)
    used = sorted(tree_leaves(t))
    if not used:
        raise Skip()
    # (e) reference: forward-mode duals + dense propagation
    duals = [Dual(leaves[i].value, np.eye(n)[i]) for i in range(n)]
    try:
        d = ev_generic(t, duals, _dual_lib(n))
    except (OverflowError, ValueError, ZeroDivisionError):
        raise Skip()   # intermediate value outside the range of floating point: not a case of the property
    if not isinstance(d, Dual) or not math.isfinite(d.v) or abs(d.v) > 1e8 or not np.all(np.isfinite(d.g)) or np.max(np.abs(d.g)) > 1e8:
        raise Skip()
    flib = _float_lib()
    f = lambda v: float(ev_generic(t, list(v), flib))
    snaps = [snap(l) for l in leaves]
    # only the leaves that occur take part (an unused leaf would otherwise enlarge the unions)
    snaps_u = [snaps[i] for i in used]
    g_u = [float(d.g[i]) for i in used]

    def f_u(v):
        full = [l.value for l in leaves]
        for k, i in enumerate(used):
            full[i] = v[k]
        return f(full)
    ref = dense.propagate(snaps_u, g_u, f_u)
    chains, union = dense.union_lists(snaps_u)
    wmax = max([1.0] + list(dense.weights(snaps_u, chains, union).values()))
    # intermediate derivatives are O(1) even where the total derivative cancels: the rounding of the
    # step-wise evaluation scales with them, not with the (possibly vanishing) total gradient
    scale = (dense.delta_scale(snaps_u, g_u) + dense.delta_scale(snaps_u, [1.0] * len(g_u))) * wmax * tree_size(t)
    # floor for the comparison of covariance-input gradients: a total derivative that cancels to ~1e-100
    # must not turn rounding into a verdict
    gfl = max([0.0] + [float(np.max(np.abs(c[1]))) for sn_ in snaps_u for c in sn_['cov'].values() if c[1].size]) * (1.0 + max(abs(x) for x in g_u))
    # central value: rounding of the step-wise evaluation is proportional to the size of the terms, not to a result that cancels
    vsc = max(abs(ref['value']), float(sum(abs(g_) * abs(s_['value']) for g_, s_ in zip(g_u, snaps_u))), max(abs(s_['value']) for s_ in snaps_u))
    ctx.count('L3_trees')
    ctx.cell('L3', klass, 'depth%d' % depth)
    # (a) step by step
    olib = _obs_lib(np)
    a = ev_generic(t, leaves, olib)
    if not is_obs(a):
        raise Skip()
    rv = None  # replica means of stepwise evaluation: f(replica means) as well
    compare_obs(ctx, a, ref, 'L3:stepwise', scale=scale, rtol=1e-10, vtol=1e-11, what=klass, rv_tol=1e-10, grad_floor=gfl, value_scale=vsc)
    # (b) re-associated
    t2 = reassociate(rng, t)
    b = ev_generic(t2, leaves, olib)
    compare_obs(ctx, b, ref, 'L3:reassociated', scale=scale, rtol=1e-10, vtol=1e-11, what=klass, rv_tol=1e-10, grad_floor=gfl, value_scale=vsc)
    # (c) one derived_observable call with autograd, (d) with numerical gradient
    alib = _obs_lib(anp)
    ul = [leaves[i] for i in used]

    def func(x, **kw):
        full = [l.value for l in leaves]
        for k, i in enumerate(used):
            full[i] = x[k]
        return ev_generic(t, full, alib)
    c = PE.derived_observable(func, ul)
    compare_obs(ctx, c, ref, 'L3:one-call-autograd', scale=scale, rtol=1e-10, vtol=1e-11, what=klass, rv_tol=1e-10, grad_floor=gfl, value_scale=vsc)
    if rng.random() < 0.5:
        # numdifftools differences the function over steps up to 0.1 (times log(1 + |x|) for large x): the comparison is only meaningful
        # where the function is smooth over that range ("away from its singularities"): the exact gradient at the displaced points
        # must stay within a factor two of the gradient at the point
        smooth = True
        for k_, i_ in enumerate(used):
            step = 0.1 * max(1.0, math.log1p(abs(leaves[i_].value)))
            for sg in (-1.0, 1.0):
                try:
                    dl = [Dual(leaves[j].value + (sg * step if j == i_ else 0.0), np.eye(n)[j]) for j in range(n)]
                    dv = ev_generic(t, dl, _dual_lib(n))
                    gv = np.array([float(dv.g[j]) for j in used])
                    if not (isinstance(dv, Dual) and math.isfinite(dv.v) and np.all(np.isfinite(gv))) or \
                            np.max(np.abs(gv - np.array(g_u))) > 1.0 * (np.max(np.abs(g_u)) + 1e-3):
                        smooth = False
                except (OverflowError, ValueError, ZeroDivisionError):
                    smooth = False
        dd = PE.derived_observable(func, ul, num_grad=True)
        if smooth:
            compare_obs(ctx, dd, ref, 'L3:one-call-num_grad', scale=scale, rtol=1e-6, vtol=1e-11, what=klass, rv_tol=1e-10, grad_floor=gfl, value_scale=vsc)
        else:
            ctx.count('L3_num_grad_not_judged_function_not_smooth_over_the_difference_steps')
    if any(np.any(s['chains'][cn][1] != 0) for s in snaps_u for cn in s['chains']) and tree_size(t) >= 3:
        ctx.nontrivial.add(digest('L3', repr(t), [s['value'] for s in snaps_u]))
    ctx.sample({'tree': repr(t)[:300], 'class': klass, 'leaves': [l.names for l in leaves]})


# ------------------------------------------------------------------------------------------
# explicit derived_observable workloads for L1 (autograd / num_grad / man_grad / array_mode / multi output)
def case_explicit(ctx, rng, tier, which):
    import autograd.numpy as anp
    pe = PE
    rel = str(rng.choice(RELATIONS))
    a, b = make_pair(rng, (0.5, 2.0), (0.5, 2.0), rel, tier)
    ctx.cell('L1x', which, rel)
    if which == 'autograd_multi':
        pe.derived_observable(lambda x, **kw: anp.array([x[0] * anp.sin(x[1]), x[0] / x[1], anp.exp(x[0] - x[1])]), [a, b])
    elif which == 'num_grad':
        opts = [{}, {'base_step': 0.05}, {'step_ratio': 2.0}, {'base_step': 0.2, 'step_ratio': 3.0}][int(rng.integers(0, 4))]
        ctx.cell('L1x', 'num_grad-options', sorted(opts))
        pe.derived_observable(lambda x, **kw: x[0] ** 2 * np.log(x[1]) + np.cos(x[0] * x[1]), [a, b], num_grad=True, **opts)
    elif which == 'man_grad':
        pe.derived_observable(lambda x, **kw: x[0] ** 2 * x[1], [a, b], man_grad=[2 * a.value * b.value, a.value ** 2])
    elif which == 'matmul':
        c, dd = make_pair(rng, (0.5, 2.0), (0.5, 2.0), str(rng.choice([r for r in RELATIONS if not r.startswith('cov')])), tier)
        m1 = np.array([[a, b], [c, dd]])
        m2 = np.array([[b, 1.5], [a, c]]) if rng.random() < 0.5 else np.array([[b, dd], [a, c]])
        pe.linalg.matmul(m1, m2)
        if rng.random() < 0.4:
            pe.linalg.matmul(m1, m2, m1)
    elif which == 'inv':
        c, dd = make_pair(rng, (0.5, 2.0), (0.5, 2.0), 'identical', tier)
        m = np.array([[a + 3, b], [c, dd + 3]])
        pe.linalg.inv(m)
        pe.linalg.det(m)
    elif which == 'mixed_inputs_2d':
        m = np.array([[a, b], [b, a]])
        pe.derived_observable(lambda x, **kw: anp.sum(x ** 2), m)
        pe.derived_observable(lambda x, **kw: x @ x, m)
    elif which == 'fit':
        # derived_observable(man_grad) as used by the fit routines
        xs = np.arange(1, 6)
        base, tab = make_operand(rng, (0.5, 2.0), tier, reps=['r1'])
        ys = []
        for x in xs:
            o, _ = make_operand(rng, (0.5, 2.0), tier, base=tab, relation=str(rng.choice(['identical', 'nested'])), reps=['r1'],
                                ens_name=sorted(tab)[0].split('|')[0])
            ys.append(o + 0.3 * x)
        [o.gamma_method() for o in ys]
        pe.fits.least_squares(xs, ys, lambda p, x: p[0] + p[1] * x, silent=True)
    elif which == 'root':
        pe.roots.find_root(a, lambda x, d: x ** 3 - d, guess=1.0)
    elif which == 'spectator':
        # inputs the function does not depend on (derivative exactly zero), in the first / middle / last slot and on any layout;
        # vector-valued functions whose outputs ignore different inputs
        # (a second pair with its own covariance input of the same name would carry another matrix: legitimately refused)
        c, dd = make_pair(rng, (0.5, 2.0), (0.5, 2.0), str(rng.choice([r for r in RELATIONS if not r.startswith('cov')])), tier)
        if rng.random() < 0.3:
            c = 0.7 * a + 0.3              # a spectator with the layout of a (covariance input included)
        pos = int(rng.integers(0, 3))
        ins = [a, b]
        ins.insert(pos, c)
        i0, i1 = [k_ for k_ in range(3) if k_ != pos]
        ctx.cell('L1x', 'spectator-slot', pos)
        mode = int(rng.integers(0, 4))
        if mode == 0:
            pe.derived_observable(lambda x, **kw: x[i0] * anp.sin(x[i1]), ins)
        elif mode == 1:
            pe.derived_observable(lambda x, **kw: x[i0] ** 2 + np.exp(x[i1]), ins, num_grad=True)
        elif mode == 2:
            g = [0.0, 0.0, 0.0]
            g[i0], g[i1] = ins[i1].value, ins[i0].value
            pe.derived_observable(lambda x, **kw: x[i0] * x[i1], ins, man_grad=g)
        else:
            ins.append(dd)
            pe.derived_observable(lambda x, **kw: anp.array([x[i0] * x[3], anp.cos(x[i1]), x[pos] / x[i0], 2.0 * x[3]]), ins)


# ------------------------------------------------------------------------------------------
def setup(ctx):
    global PE, CTX
    import pyerrors as pe
    PE = pe
    CTX = ctx
    validate_tables()
    taps.tap_function(pe.obs, 'derived_observable', DerivedObsMonitor())


def teardown(ctx):
    taps.report(ctx)
    taps.remove_all()


REAL_PARTNERS = ['Obs', 'num_right:int', 'num_right:float', 'num_left:int', 'num_left:float']


def plan(tier):
    m = 4 if tier == 'quick' else 320
    p = []
    for name in FUNCS:
        p.append(('un:' + name, 9 * m))
    for name in ('neg', 'abs', 'pos'):
        p.append(('na:' + name, 4 * m))
    for op in BINOPS:
        for rel in RELATIONS:
            p.append(('bin:%s:Obs:%s' % (op, rel), 4 * m))
        for partner in REAL_PARTNERS[1:]:
            for rel in ('identical', 'second_ensemble', 'cov_one'):
                p.append(('bin:%s:%s:%s' % (op, partner, rel), 2 * m))
        for pos in ('left', 'right'):
            p.append(('arr:%s:%s' % (op, pos), 3 * m))
        p.append(('same:%s' % op, 3 * m))
        if op != '**':
            p.append(('zero:%s' % op, 4 * m))
        p.append(('scaled:%s' % op, 4 * m))
        p.append(('special:%s' % op, 2 * m))
    for op in CBINOPS:
        for combo in COMPLEX_COMBOS:
            p.append(('cbin:%s:%s' % (op, combo), 3 * m))
    for op in ('*', '/', '+', '-'):
        p.append(('cdeg:%s' % op, (8 if op in '*/' else 3) * m))
        for pos in ('left', 'right'):
            p.append(('carr:%s:%s' % (op, pos), 3 * m))
    p.append(('cpow:Obs.complex', 4 * m))
    p.append(('cpow:complex.Obs', 4 * m))
    p.append(('cun', 8 * m))
    p.append(('tree:same_replicas', 60 * m))
    p.append(('tree:same_configs', 60 * m))
    for w in ('autograd_multi', 'num_grad', 'man_grad', 'matmul', 'inv', 'mixed_inputs_2d', 'fit', 'root', 'spectator'):
        p.append(('x:' + w, 8 * m))
    for f in FOREIGN:
        p.append(('foreign:' + f, 8 if tier == 'quick' else 150))
    return p


# ------------------------------------------------------------------------------------------
# The workloads of other properties as additional workload for the L1 monitor: fits, roots, integrals,
# matrix operations, correlator arithmetic, reweighting all end in derived_observable calls; each of
# them is recomputed by the dense reference here (their own oracles record into a scratch context).
FOREIGN = ['C05', 'C06', 'C07', 'C08', 'C09', 'C10', 'C14', 'C15', 'C16']
_foreign = {}


def case_foreign(ctx, prop, idx):
    import importlib
    from ..worker import case_rng, expand_plan, interleave
    if prop not in _foreign:
        mod = importlib.import_module('vmon.props.' + prop)
        fctx = ctx.trial()
        fctx.tier = 'quick'
        if hasattr(mod, 'setup'):
            mod.setup(fctx)
        _foreign[prop] = (mod, fctx, interleave(expand_plan(mod.plan('quick'))))
    mod, fctx, cases = _foreign[prop]
    kind, i = cases[(idx * 7919) % len(cases)]
    before = ctx.counters.get('L1_calls_judged', 0)
    fctx.case = (kind, i)
    try:
        mod.run_case(fctx, kind, i, case_rng(ctx.seed, prop, kind, i))
    except Skip:
        pass
    except Exception:
        ctx.count('foreign_case_raised')
    ctx.count('foreign_cases:' + prop)
    ctx.count('foreign_L1_calls_judged', ctx.counters.get('L1_calls_judged', 0) - before)
    ctx.cell('foreign', prop)


def run_case(ctx, kind, idx, rng):
    tier = ctx.tier
    k = kind.split(':')
    if k[0] == 'foreign':
        return case_foreign(ctx, k[1], idx)
    if k[0] == 'un':
        case_unary(ctx, rng, tier, k[1])
    elif k[0] == 'na':
        case_negabs(ctx, rng, tier, k[1])
    elif k[0] == 'bin':
        op = k[1]
        if k[2] == 'Obs':
            case_binary_real(ctx, rng, tier, op, 'Obs', k[3])
        else:
            case_binary_real(ctx, rng, tier, op, k[2] + ':' + k[3], k[4])
    elif k[0] == 'arr':
        case_binary_array(ctx, rng, tier, k[1], k[2])
    elif k[0] == 'same':
        case_same_object(ctx, rng, tier, k[1])
    elif k[0] == 'zero':
        case_zero_mean(ctx, rng, tier, k[1])
    elif k[0] == 'cdeg':
        case_complex_degenerate(ctx, rng, tier, k[1])
    elif k[0] == 'carr':
        case_complex_array(ctx, rng, tier, k[1], k[2])
    elif k[0] == 'scaled':
        case_scaled(ctx, rng, tier, k[1])
    elif k[0] == 'special':
        case_special_numbers(ctx, rng, tier, k[1])
    elif k[0] == 'cbin':
        case_binary_complex(ctx, rng, tier, k[1], k[2])
    elif k[0] == 'cpow':
        case_pow_complex(ctx, rng, tier, k[1])
    elif k[0] == 'cun':
        case_cobs_unary(ctx, rng, tier)
    elif k[0] == 'tree':
        case_tree(ctx, rng, tier, k[1])
    elif k[0] == 'x':
        case_explicit(ctx, rng, tier, k[1])
    else:
        raise ValueError(kind)
