"""C11 - JSON serialisation round trip + schema conformance (strings, files, dict files, data frames, pickle).

Every document returned by create_json_string (tapped, so also those produced inside
dump_to_json, Obs.dump, Corr.dump, the pandas serialiser) is parsed with the standard library
and validated against <repo>/examples/json_schema.json; every structure written is read back
through the matching reader and compared with the original field by field through snapshots
(never through the library's ==); an error analysis of original and copy must give the same
numbers.
"""
import copy
import csv
import gzip
import json as pyjson
import os
import sqlite3
import tempfile

import numpy as np

from .. import taps
from ..ctx import digest
from ..snap import is_obs, is_corr, any_digest
from ..ref import rt_io
from ..ref.rt_io import Profile, Family, tree, walk_obs, json_strict_equal, cmp_snap, cmp_analysis, analysable, SUPPORTS

ID = 'C11'
LEVEL = 'exploration'
DECIDING = ['tap:create_json_string', 'documents_schema_validated', 'roundtrips_compared', 'obs_compared']
RULE = ('cases: one structure (Obs / list / ndarray of 0-4 dimensions / Corr N=1 / matrix Corr with paddings, undefined slices, prange, tag / '
        'nested dict / several structures in one file / data frame with Obs, list and Corr columns) whose members share a generated layout '
        '(support class one chain | replicas | 2-3 ensembles | covariance only | mixed; range / strided / gapped / irregular lists; covariance '
        'inputs of dimension 1-3; magnitudes 1e-200..1e200; tags of every JSON type incl. falsy ones), written and read through one transport '
        '(string, file, file.gz, Obs.dump / Corr.dump, dict file, csv, csv.gz, sqlite, sqlite gz, pickle; indent 0/1); '
        'histories: twins (same type, shape, chain names, first / last configuration, lengths; different interior and data, one tagged one not) written and '
        'read in both orders as strings, under one file name in two directories, overwriting one name, dump-modify-dump, sqlite replace / append, dict files, '
        'pickle; alias cases: the same Obs at several positions of a list / array / Corr / dict / file / frame; inputs as int32 / int64 / list / range lists, '
        'strided sample and fluctuation arrays, Fortran / transposed / negative-stride object arrays, Corr from list / 1-d / 3-d array / array of Corr / views, '
        'covariance as scalar / 1-d / 2-d list or array with entries 1e-240..1e240 and gradients 1e-70..1e70; T = 1, empty dicts, zero-length description; '
        'neartwin kind: distinct members that the tolerance-based == and the hash of Obs cannot tell apart (copy with another tag, numbers shifted by 1e-12, '
        'no tag) in every container and frame column, in random order, next to repeated identical objects; '
        'reject kind: members with equal names / first / last / length and different interior in one structure must be refused; bulk kind: 12-103 members, T up to 101, '
        '12 / 101 structures per file, dicts with 11-101 structures; configuration numbers beyond 2**31; spectators (coefficient exactly 0, zero gradient entries); '
        'second write of the same object gives the same document; counters j:<mechanism> report how often each judgement ran; '
        'every write is followed by an argument-untouched judgement and every read by a no-shared-memory judgement; '
        'non-trivial: the round trip completed and at least one compared observable carries a Monte-Carlo chain with non-zero fluctuations '
        'or a covariance input; distinct = digest of (deep digest of the structure, transport, options)')
ASSUMPTIONS = ['numbers written by rapidjson are read back bit-identically (checked: 2e5 doubles over 500 decades); central values, covariance '
               'matrices and gradients are compared with rtol 1e-15, fluctuations and replica means with 1e-13 of max|delta| + |r_mean - value| '
               '(the format stores delta + (r_mean - value))',
               'pickle is compared bit for bit',
               'analysis comparison (rtol 1e-8, identical windows) only for magnitudes within 1e-140..1e140 and chains whose fluctuations are not at '
               'rounding level of the stored offsets; others are counted as analysis_skipped',
               'Corr tags are strings or None (documented as a description); dict keys are strings; data frames have no missing cells',
               'the schema is applied with the draft it declares (draft-07); documents are parsed with the standard library json module; NaN tokens '
               'are accepted only in documents that contain undefined timeslices',
               'objects read back from json-based transports must own their arrays (no memory shared with the written objects or with each other); pickle may '
               'mirror object identity inside one structure',
               'a file written under a name must be found by the reader under the same name with the same gz flag; the explicit gz flag, not the extension, decides about compression',
               'python jsonschema, pandas, sqlite3, rapidjson as installed in /venv']
BUDGET = {'quick': 45, 'thorough': 540}

PE = None
JIO = None
PIO = None
MON = None
SCHEMA_VALIDATOR = None

P_JSON = Profile('json')
P_PICKLE = Profile('pickle', exact=True)

TRANSPORTS = ['string', 'file', 'file.gz', 'string-full', 'method', 'file-full']
FRAME_TRANSPORTS = ['csv', 'csv.gz', 'sqlite', 'sqlite.gz']

# tags of every JSON type, falsy ones included; strings with characters that need escaping in JSON and CSV
TAGS = [None, None, True, False, 0, 1, -3, 2 ** 40, 0.0, 2.5, -1e-300, 1.7e308, '', 'tag', 'a,"b"\n\\ \tü€',
        'DICTOBSx', 'DICTOBS0', 'NaN', 'null', [], [1, 'a', None, [2.5, {}]], {}, {'a': 1, 'b': [None, False, 'x'], 'c': {'d': ''}}, [0], [None],
        np.int64(7), np.float64(2.5), np.float64(0.0), np.float32(1.5), np.int32(-2)]        # numpy scalars are written as JSON numbers
# ensemble names: prefix traps, a name that looks like the dict placeholder, characters that need escaping in JSON / CSV
C11_ENS = rt_io.ENS_POOL + ['DICTOBS0', 'E"q', 'ü n,x']
CORR_TAGS = [None, None, 'corr tag', '', 'a,"b"\n\\ ü', 'pion; kappa=0.13']


# ------------------------------------------------------------------------------------------
# monitor on create_json_string: schema validation of every emitted document
# ------------------------------------------------------------------------------------------
def _forbid_constant(name):
    raise ValueError('non-finite token %s' % name)


def schema_tag(err):
    path = '/'.join('*' if isinstance(p, int) else str(p) for p in err.absolute_path)
    return 'schema:%s:%s' % (path or '.', err.validator)


def check_document(ctx, text, allow_nan, nobs_hint=None):
    """Parse one emitted document independently of the library and validate it."""
    ctx.count('documents_schema_validated')
    ctx.count('j:schema:*')
    ctx.count('j:document:not-parseable-json')
    if not allow_nan:
        ctx.count('j:document:non-finite-token-without-undefined-slice')
    try:
        doc = pyjson.loads(text, parse_constant=None if allow_nan else _forbid_constant)
    except ValueError as e:
        ctx.ev()
        ctx.violation('document:not-parseable-json' if 'non-finite' not in str(e) else 'document:non-finite-token-without-undefined-slice',
                      {'error': str(e)[:200], 'head': text[:200]})
        return None
    ctx.ev()
    err = next(iter(SCHEMA_VALIDATOR.iter_errors(doc)), None)
    if err is not None:
        ctx.violation(schema_tag(err), {'message': err.message[:300], 'path': list(err.absolute_path)})
    # the parts of the schema's description that its draft-07 form does not enforce (tuple-style "items")
    for k in ('program', 'version', 'who', 'date', 'host'):
        ctx.require(isinstance(doc.get(k), str), 'document:header-field-not-string', {'field': k, 'got': repr(doc.get(k))[:80]})
    for od in doc.get('obsdata', []):
        vals = od.get('value', [])
        ok = all(isinstance(v, (int, float)) and not isinstance(v, bool) for v in vals)
        ctx.require(ok, 'document:value-entry-not-number', {'value': vals[:5]})
        nobs = len(vals)
        for ens in od.get('data', []):
            for rep in ens.get('replica', []):
                rows = rep.get('deltas', [])
                ok = all(isinstance(r, list) and len(r) == nobs + 1 and isinstance(r[0], int) and not isinstance(r[0], bool)
                         and all(isinstance(x, (int, float)) and not isinstance(x, bool) for x in r[1:]) for r in rows)
                ctx.require(ok, 'document:deltas-row-malformed', {'replica': rep.get('name'), 'row0': rows[:1], 'nobs': nobs})
        for cd in od.get('cdata', []):
            g = cd.get('grad', [])
            ok = all(isinstance(r, list) and len(r) == nobs and all(isinstance(x, (int, float)) and not isinstance(x, bool) for x in r) for r in g)
            ctx.require(ok, 'document:grad-row-malformed', {'id': cd.get('id'), 'grad': g[:2], 'nobs': nobs})
    return doc


def members_of(x):
    """The observables of one structure in the order the format numbers them (None for undefined Corr slices)."""
    if is_obs(x):
        return [x]
    if is_corr(x):
        out = []
        for c in x.content:
            out += [None] * (x.N * x.N) if c is None else list(np.ravel(np.asarray(c)))
        return out
    if isinstance(x, np.ndarray):
        return [x[i] for i in np.ndindex(x.shape)]
    return list(x)


def check_document_numbers(ctx, doc, ol):
    """The statement of the format, judged on the emitted document itself: 'value' holds the central values, a replica's table
    holds the configuration number and delta + (r_mean - value) per member, 'cov' the matrix row by row, 'grad' the gradients.
    Numbers are written losslessly, so the document must hold exactly these doubles (2 ulp are allowed for the one sum)."""
    ol = ol if isinstance(ol, list) else [ol]
    if len(doc.get('obsdata', [])) != len(ol):
        return
    for od, x in zip(doc['obsdata'], ol):
        ms = members_of(x)
        if len(od.get('value', [])) != len(ms):
            continue
        first = next((m for m in ms if m is not None), None)
        if first is None:
            continue
        ctx.count('j:document:value-not-the-central-value')
        ctx.count('j:document:table-not-delta-plus-offset')
        good = all(m is None or (isinstance(v, (int, float)) and float(v) == float(m.value)) for v, m in zip(od['value'], ms))
        if not good:
            ctx.violation('document:value-not-the-central-value', {'got': od['value'][:4], 'exp': [None if m is None else m.value for m in ms[:4]]})
        ctx.ev(2)
        for ens in od.get('data', []):
            for rep_ in ens.get('replica', []):
                n = rep_['name']
                tab = np.array(rep_['deltas'], dtype=float)
                if n not in first.idl or tab.ndim != 2 or tab.shape != (len(first.idl[n]), len(ms) + 1):
                    continue                 # shape problems are reported by the structural judgements
                if not np.array_equal(tab[:, 0], np.array(list(first.idl[n]), dtype=float)):
                    ctx.violation('document:table-not-delta-plus-offset', {'replica': n, 'what': 'configuration numbers'})
                    continue
                for k, m in enumerate(ms):
                    if m is None:
                        continue
                    exp = np.asarray(m.deltas[n], dtype=float) + (m.r_values[n] - m.value)
                    if not np.all(np.abs(tab[:, 1 + k] - exp) <= 2 * np.spacing(np.abs(exp))):
                        i = int(np.argmax(np.abs(tab[:, 1 + k] - exp)))
                        ctx.violation('document:table-not-delta-plus-offset', {'replica': n, 'member': k, 'row': i, 'got': float(tab[i, 1 + k]), 'exp': float(exp[i])})
                        break
        for cd in od.get('cdata', []):
            n = cd['id']
            ctx.count('j:document:covariance-or-gradient-not-exact')
            ctx.ev()
            if n not in first.covobs:
                continue
            okc = np.array_equal(np.array(cd['cov'], dtype=float), np.ravel(np.asarray(first.covobs[n].cov, dtype=float)))
            g = np.array(cd['grad'], dtype=float)
            okg = g.shape == (first.covobs[n].cov.shape[0], len(ms)) and all(
                m is None or np.array_equal(g[:, k], np.asarray(m.covobs[n].grad, dtype=float).ravel()) for k, m in enumerate(ms))
            if not (okc and okg):
                ctx.violation('document:covariance-or-gradient-not-exact', {'id': n, 'cov_ok': bool(okc), 'grad_ok': bool(okg)})


class DocMonitor(taps.Monitor):
    def __init__(self, ctx):
        self.ctx = ctx
        self.docs = []

    def after(self, token, args, kwargs, result, exc):
        if exc is not None or not isinstance(result, str):
            return
        ol = args[0] if args else kwargs.get('ol')
        self.docs.append(result)
        doc = check_document(self.ctx, result, allow_nan=rt_io.has_undefined_slices(ol))
        if doc is not None:
            check_document_numbers(self.ctx, doc, ol)


def setup(ctx):
    global PE, JIO, PIO, MON, SCHEMA_VALIDATOR
    rt_io.count_judgements(ctx)
    import jsonschema
    import pyerrors as pe
    import pyerrors.input.json as jio
    import pyerrors.input.pandas as pio
    PE, JIO, PIO = pe, jio, pio
    with open(os.path.join(ctx.repo, 'examples', 'json_schema.json')) as f:
        schema = pyjson.load(f)
    cls = jsonschema.validators.validator_for(schema)
    cls.check_schema(schema)
    SCHEMA_VALIDATOR = cls(schema)
    MON = DocMonitor(ctx)
    taps.tap_function(jio, 'create_json_string', MON)


def teardown(ctx):
    rt_io.flush_stats(ctx)
    taps.report(ctx)
    taps.remove_all()


def plan(tier):
    m = 1 if tier == 'quick' else 20
    return [('obs', 180 * m), ('list', 120 * m), ('array', 140 * m), ('corr1', 120 * m), ('corrN', 70 * m), ('multi', 60 * m),
            ('dict', 110 * m), ('frame', 180 * m), ('pickle', 140 * m), ('rew', 120 * m), ('edge', 150 * m), ('history', 160 * m), ('alias', 70 * m), ('reject', 60 * m), ('bulk', 40 * m), ('neartwin', 100 * m), ('keys', 30 * m), ('compat', 70 * m), ('refuse', 60 * m)]


# ------------------------------------------------------------------------------------------
# structure generators
# ------------------------------------------------------------------------------------------
def pick_tag(rng):
    return copy.deepcopy(TAGS[int(rng.integers(0, len(TAGS)))])      # a fresh object per use: nothing is shared between cases


def tag_members(rng, members, p=0.5):
    if rng.random() < p:
        for o in members:
            if rng.random() < 0.7:
                o.tag = pick_tag(rng)
    return members


def family(ctx, rng, support, big=False, **kw):
    nmax = 30 if ctx.tier == 'quick' else int(rng.choice([30, 60, 200]))
    if big:
        nmax = min(nmax, 14)
    if 'ens_pool' not in kw and rng.random() < 0.3:
        kw['ens_pool'] = C11_ENS
    return Family(PE, rng, support, nmin=5, nmax=nmax, **kw)


def make_obs(ctx, rng, support):
    o = family(ctx, rng, support).member()
    o.tag = pick_tag(rng)
    return o


def make_list(ctx, rng, support, n=None):
    fam = family(ctx, rng, support)
    n = int(rng.integers(1, 6)) if n is None else n
    return tag_members(rng, [fam.member() for _ in range(n)])


ARRAY_SHAPES = {1: [(1,), (2,), (5,)], 2: [(1, 1), (2, 3), (3, 1), (2, 2)], 3: [(2, 1, 3), (1, 1, 1), (2, 2, 2)], 4: [(1, 2, 1, 2)]}


def make_array(ctx, rng, support, ndim=None):
    ndim = int(rng.choice([1, 1, 2, 2, 3, 3, 4])) if ndim is None else ndim
    shapes = ARRAY_SHAPES[ndim]
    shape = shapes[int(rng.integers(0, len(shapes)))]
    n = int(np.prod(shape))
    fam = family(ctx, rng, support, big=n > 6)
    a = np.empty(n, dtype=object)
    for i, o in enumerate(tag_members(rng, [fam.member() for _ in range(n)], 0.4)):
        a[i] = o
    a = a.reshape(shape)
    # memory layout must not matter: also hand over views that are not C-contiguous
    # (Fortran order, transposed / axis-swapped views, negative strides); the logical content is what counts
    u = rng.random()
    if a.ndim >= 2 and u < 0.15:
        a = np.asfortranarray(a)
        ctx.count('arrays_not_c_contiguous')
    elif a.ndim >= 2 and u < 0.30:
        a = a.reshape(shape[::-1]).T if u < 0.22 else np.swapaxes(a.reshape(shape[:-2] + (shape[-1], shape[-2])), -1, -2)
        ctx.count('arrays_not_c_contiguous')
    elif u < 0.38:
        a = a[::-1]
        ctx.count('arrays_negative_stride')
    return a


def corr_from(rng, content, N, padding, undefined):
    """Corr from the representations the constructor documents: list, 1-d object array (N = 1), 3-d object array,
    N x N array of single-valued Corr objects, matrices given as non-C-contiguous views."""
    u = rng.random()
    if N == 1 and u < 0.25 and not undefined:
        a = np.empty(len(content), dtype=object)
        for i, o in enumerate(content):
            a[i] = o
        return PE.Corr(a, padding=padding), 'array-1d'
    if N > 1 and u < 0.25 and not undefined:
        return PE.Corr(np.array(content, dtype=object), padding=padding), 'array-3d'
    if N > 1 and u < 0.45:
        cc = np.empty((N, N), dtype=object)
        for i in range(N):
            for j in range(N):
                cc[i, j] = PE.Corr([None if c is None else c[i, j] for c in content])
        return PE.Corr(cc, padding=padding), 'array-of-corr'
    if N > 1 and u < 0.65:
        # the same matrices as transposed / Fortran-ordered views
        cont = [None if c is None else (np.asfortranarray(c) if rng.random() < 0.5 else np.array(c.T)[...].T) for c in content]
        return PE.Corr(cont, padding=padding), 'list-of-views'
    return PE.Corr(list(content), padding=padding), 'list'


def make_corr(ctx, rng, support, N, fam=None, spec=None):
    """spec (T, undefined, padding) may be prescribed so that two correlators of identical shape can be built."""
    fam = family(ctx, rng, support, big=True) if fam is None else fam
    if spec is None:
        T = int(rng.integers(1, 9)) if N == 1 else int(rng.integers(1, 6))
        mode = str(rng.choice(['full', 'nones', 'padding', 'both']))
        undefined = set()
        if mode in ('nones', 'both') and T > 1:
            k = int(rng.integers(1, T))
            undefined = set(int(i) for i in rng.choice(T, size=k, replace=False))
            if len(undefined) == T:
                undefined.pop()
        padding = [int(rng.integers(0, 3)), int(rng.integers(0, 3))] if mode in ('padding', 'both') else [0, 0]
    else:
        T, undefined, padding = spec
    content = []
    for t in range(T):
        if t in undefined:
            content.append(None)
        elif N == 1:
            content.append(fam.member())
        else:
            m = np.empty((N, N), dtype=object)
            for i in range(N):
                for j in range(N):
                    m[i, j] = fam.member()
            content.append(m)
    if rng.random() < 0.3:
        tag_members(rng, [o for c in content if c is not None for o in (np.asarray(c).ravel() if N > 1 else [c])], 1.0)
    c, how = corr_from(rng, content, N, list(padding), undefined)
    ctx.count('corr_input:' + how)
    if c.T == 1:
        ctx.count('corr_T1')
    c.tag = CORR_TAGS[int(rng.integers(0, len(CORR_TAGS)))]
    if rng.random() < 0.5:
        a = int(rng.integers(0, c.T))
        c.prange = [a, int(rng.integers(a, c.T))]
    return c


def make_structure(ctx, rng, what, support):
    if what == 'obs':
        return make_obs(ctx, rng, support)
    if what == 'list':
        return make_list(ctx, rng, support)
    if what.startswith('array'):
        return make_array(ctx, rng, support, int(what[5:]) if len(what) > 5 else None)
    if what == 'corr1':
        return make_corr(ctx, rng, support, 1)
    if what == 'corrN':
        return make_corr(ctx, rng, support, int(rng.integers(2, 4)))
    raise ValueError(what)


def shape_class(x):
    if is_obs(x):
        return 'Obs'
    if is_corr(x):
        return 'Corr1' if x.N == 1 else 'CorrN'
    if isinstance(x, np.ndarray):
        return 'array%dd' % x.ndim
    if isinstance(x, list):
        return 'list'
    if isinstance(x, dict):
        return 'dict'
    return type(x).__name__


PLAIN = [0, 1, -7, 2.5, 1e-30, True, False, None, 'text', '', 'a "q" \\ \n', [1, 2, [3]], {'k': None}, {}, {'e': {}}, 'xDICTOBS1', 'DICTOBS', []]
DICT_KEYS = ['a', 'b', 'obs', 'x y', '', '0', 'DICT', 'ü', 'nested', 'key"q', 'DICTOBS0', 'PLACEHOLDER1']
# strings that look like the placeholder of the *other* reps setting must survive as strings
LOOKALIKE = {'DICTOBS': ['PLACEHOLDER0', 'PLACEHOLDER12'], 'PLACEHOLDER': ['DICTOBS0', 'DICTOBS1', 'DICTOBS12x']}


def make_dict(ctx, rng, support, depth=0, budget=None, with_empty_list=False):
    """Nested dict of structures and plain JSON values."""
    budget = budget if budget is not None else {'n': int(rng.integers(2, 6))}
    d = {}
    keys = [str(k) for k in rng.choice(DICT_KEYS, size=int(rng.integers(1, 5)), replace=False)]
    for k in keys:
        u = rng.random()
        if budget['n'] > 0 and u < 0.55:
            budget['n'] -= 1
            what = str(rng.choice(['obs', 'obs', 'list', 'array', 'corr1', 'corrN'], p=[.3, .2, .2, .15, .1, .05]))
            d[k] = make_structure(ctx, rng, what, support)
        elif u < 0.7 and depth < 2:
            d[k] = make_dict(ctx, rng, support, depth + 1, budget)
        elif u < 0.85 and depth < 2:
            # list mixing plain values, structures, nested lists and dicts
            li = []
            for _ in range(int(rng.integers(1, 4))):
                v = rng.random()
                if budget['n'] > 0 and v < 0.4:
                    budget['n'] -= 1
                    li.append(make_structure(ctx, rng, str(rng.choice(['obs', 'array', 'corr1'])), support))
                elif v < 0.55:
                    li.append(make_dict(ctx, rng, support, depth + 2, budget))
                elif v < 0.7 and budget['n'] > 0:
                    budget['n'] -= 1
                    li.append(make_list(ctx, rng, support, n=int(rng.integers(1, 3))))   # list inside a list: members stored one by one
                else:
                    li.append(copy.deepcopy(PLAIN[int(rng.integers(0, len(PLAIN) - 1))]))
            if all(is_obs(i) for i in li):
                li.append('sep')          # otherwise the members would have to share one layout
            d[k] = li
        else:
            d[k] = copy.deepcopy(PLAIN[int(rng.integers(0, len(PLAIN) - (0 if with_empty_list else 1)))])
    if depth == 0 and not any(True for _ in walk_obs(d)):
        d['must'] = make_obs(ctx, rng, support)
    return d


# ------------------------------------------------------------------------------------------
# comparison of structures
# ------------------------------------------------------------------------------------------
def classify_tag_mismatch(prof, kind, got, exp):
    if prof.fam != 'pickle' and kind == 'single-obs' and got is None and exp is not None and not exp:
        return 'json:single-obs-falsy-tag-not-written'
    return prof.fam + ':tag'


def cmp_tree(ctx, g, e, prof, where, env='top', pairs=None):
    """g, e: trees (rt_io.tree) of the re-imported and the original structure.
    env says how the writer stores the node: 'top' / 'dictval' / 'dictlist' = a structure of its own,
    'struct' = member of a List / Array / Corr structure, 'sep' = the top-level list of separate structures."""
    fam = prof.fam
    if not ctx.require(g['k'] == e['k'], fam + ':structure-type', {'where': where, 'got': g['k'], 'exp': e['k']}):
        return False
    k = e['k']
    ok = True
    if k == 'Obs':
        ctx.count('obs_compared')
        obs_kind = 'member' if env == 'struct' else 'single-obs'
        ok &= cmp_snap(ctx, g['snap'], e['snap'], prof, where)
        if prof.check_tag:
            same = json_strict_equal(g['tag'], e['tag'])
            ctx.ev()
            ctx.count('j:%s:tag' % prof.fam)
            if prof.fam != 'pickle' and obs_kind == 'single-obs' and e['tag'] is not None and not e['tag']:
                ctx.count('j:json:single-obs-falsy-tag-not-written')
            if not same:
                ctx.violation(classify_tag_mismatch(prof, obs_kind, g['tag'], e['tag']),
                              {'where': where, 'got': repr(g['tag'])[:200], 'exp': repr(e['tag'])[:200], 'structure': obs_kind})
                ok = False
        if pairs is not None and (e['snap']['chains'] or e['snap']['cov']):
            pairs.append(where)
        return ok
    if k == 'List':
        if not ctx.require(len(g['items']) == len(e['items']), fam + ':list-length', {'where': where, 'got': len(g['items']), 'exp': len(e['items'])}):
            return False
        if env == 'sep':
            sub = 'top'
        elif env in ('top', 'struct'):
            sub = 'struct'
        elif env == 'dictval':
            sub = 'struct' if e['items'] and all(i['k'] == 'Obs' for i in e['items']) else 'dictlist'
        else:
            sub = 'dictlist'
        for i, (a, b) in enumerate(zip(g['items'], e['items'])):
            ok &= cmp_tree(ctx, a, b, prof, '%s[%d]' % (where, i), sub, pairs)
        return ok
    if k == 'Array':
        if not ctx.require(tuple(g['shape']) == tuple(e['shape']), fam + ':array-shape', {'where': where, 'got': g['shape'], 'exp': e['shape']}):
            return False
        for i, (a, b) in enumerate(zip(g['items'], e['items'])):
            ok &= cmp_tree(ctx, a, b, prof, '%s.flat[%d]' % (where, i), 'struct', pairs)
        return ok
    if k == 'Corr':
        ok &= ctx.require((g['N'], g['T']) == (e['N'], e['T']), fam + ':corr-dimensions', {'where': where, 'got': (g['N'], g['T']), 'exp': (e['N'], e['T'])})
        gp = [c is None for c in g['content']]
        ep = [c is None for c in e['content']]
        if not ctx.require(gp == ep, fam + ':corr-undefined-pattern', {'where': where, 'got': gp, 'exp': ep}):
            return False
        for t, (a, b) in enumerate(zip(g['content'], e['content'])):
            if b is not None:
                ok &= cmp_tree(ctx, a, b, prof, '%s.content[%d]' % (where, t), 'struct', pairs)
        ok &= ctx.require(json_strict_equal(g['tag'], e['tag']), fam + ':corr-tag', {'where': where, 'got': repr(g['tag']), 'exp': repr(e['tag'])})
        gpr = None if g['prange'] is None else list(g['prange'])
        epr = None if e['prange'] is None else list(e['prange'])
        ok &= ctx.require(json_strict_equal(gpr, epr), fam + ':corr-prange', {'where': where, 'got': repr(g['prange']), 'exp': repr(e['prange'])})
        return ok
    if k == 'Dict':
        if not ctx.require(sorted(g['items']) == sorted(e['items']), fam + ':dict-keys', {'where': where, 'got': sorted(g['items']), 'exp': sorted(e['items'])}):
            return False
        for key in e['items']:
            ok &= cmp_tree(ctx, g['items'][key], e['items'][key], prof, '%s[%r]' % (where, key), 'dictval', pairs)
        return ok
    return ctx.require(json_strict_equal(g['v'], e['v']), fam + ':plain-value', {'where': where, 'got': repr(g['v'])[:200], 'exp': repr(e['v'])[:200]})


def find(x, where):
    """Resolve a path string produced by cmp_tree on a live structure."""
    return eval('x' + where[1:], {'x': x})      # paths are generated by this module only


def compare(ctx, rng, got, orig, prof, label, opts, separate=False):
    """Full judgement of one round trip.  separate: orig is the top-level list of separately stored structures."""
    ctx.count('roundtrips_compared')
    pairs = []
    eg, eo = tree(got), tree(orig)
    ok = cmp_tree(ctx, eg, eo, prof, 'x', 'sep' if separate else 'top', pairs)
    nontrivial = False
    for o in walk_obs(orig):
        if any(np.any(o.deltas[n] != 0) for n in o.names if n not in o.covobs) or o.covobs:
            nontrivial = True
            break
    if ok:
        # error analysis of original and copy (a few members per structure)
        todo = [pairs[i] for i in rng.permutation(len(pairs))[:(4 if prof.fam in ('pickle', 'jsondict') else 2)]] if pairs else []
        for w in todo:
            o, r = find(orig, w), find(got, w)
            sn = rt_io.snap(o)
            if not analysable(sn):
                ctx.count('analysis_skipped')
                continue
            kw = [{}, {}, {'S': 1.0}, {'S': 3.0}, {'S': 0}, {'fft': False}][int(rng.integers(0, 6))]
            ctx.count('analyses_compared')
            cmp_analysis(ctx, o, r, prof.fam, label + ' ' + w, kw)
    if nontrivial:
        ctx.nontrivial.add(digest(any_digest(orig), label, repr(sorted(opts.items()))))
    return ok


# ------------------------------------------------------------------------------------------
# the written objects stay untouched; the objects read back are independent
# ------------------------------------------------------------------------------------------
def deep_tags(t):
    """Detach the mutable leaves of a tree (tags, prange, plain values) from the live objects."""
    k = t['k']
    if k == 'Obs':
        t['tag'] = copy.deepcopy(t['tag'])
    elif k in ('List', 'Array'):
        for i in t['items']:
            deep_tags(i)
    elif k == 'Corr':
        t['tag'], t['prange'] = copy.deepcopy(t['tag']), copy.deepcopy(t['prange'])
        for c in t['content']:
            if c is not None:
                deep_tags(c)
    elif k == 'Dict':
        for v in t['items'].values():
            deep_tags(v)
    else:
        t['v'] = copy.deepcopy(t['v'])
    return t


def ident(x):
    """Identity skeleton of a structure: which object sits at which position."""
    if is_obs(x):
        return id(x)
    if is_corr(x):
        return ('Corr', id(x), tuple(None if c is None else ident(c) for c in x.content))
    if isinstance(x, np.ndarray) and x.dtype == object:
        return ('A', id(x), x.shape, x.strides, tuple(id(i) for i in x.ravel()))
    if isinstance(x, list):
        return ('L', id(x), tuple(ident(i) for i in x))
    if isinstance(x, dict):
        return ('D', id(x), tuple((k, ident(v)) for k, v in x.items()))
    return ('V', id(x))


def freeze(x):
    return {'tree': deep_tags(tree(x)), 'ident': ident(x), 'obs': [(o, rt_io.obs_arrays(o)) for o in walk_obs(x)]}


P_ARG = Profile('argument-modified-by-writer', exact=True)


def post_checks(ctx, x, frozen, got, fam, same_objects_allowed=False):
    """The writer (and reader) must leave what was handed in untouched: same objects at the same places, same numbers,
    tags, prange; what was read back must not share memory with what was written nor - except for pickle, which mirrors
    object identity - between its own members."""
    ctx.count('argument_untouched_checks')
    ctx.require(ident(x) == frozen['ident'], 'argument-modified-by-writer:objects-replaced', {'type': type(x).__name__})
    cmp_tree(ctx, tree(x), frozen['tree'], P_ARG, 'x')
    for o, arrs in frozen['obs']:
        now = rt_io.obs_arrays(o)
        if len(now) != len(arrs) or any(a is not b for a, b in zip(now, arrs)):
            ctx.violation('argument-modified-by-writer:arrays-replaced', {'names': list(o.names)})
            break
    if got is None:
        return
    g = list(walk_obs(got))
    w = [o for o, _ in frozen['obs']]
    ctx.count('sharing_checks')
    sh = rt_io.sharing(g, w)
    ctx.require(not sh, fam + ':result-shares-memory-with-written-object', {'pairs (read, written)': sh[:5]})
    if not same_objects_allowed:
        sh = rt_io.sharing(g)
        ctx.require(not sh, fam + ':results-share-memory-with-each-other', {'pairs': sh[:5], 'members': len(g)})


# ------------------------------------------------------------------------------------------
# transports
# ------------------------------------------------------------------------------------------
def expect_top(x):
    """What a reader returns for the object handed to the writer (single structures are unpacked)."""
    if isinstance(x, list) and len(x) == 1:
        return x[0]
    return x


def guarded_write(ctx, x, fn):
    """Run a writer; classify the one exception whose cause is known (a numpy bool as reweighted flag)."""
    if any(o.reweighted for o in walk_obs(x)):
        ctx.count('j:json:write:numpy-bool-reweighted-flag-not-serialisable')      # a reweighted structure reached a writer
    try:
        return True, fn()
    except ValueError as e:
        msg = str(e)
        bad = sorted(set(type(o.reweighted).__name__ for o in walk_obs(x) if type(o.reweighted) is not bool))
        if msg.endswith('is not JSON serializable') and msg.startswith(('np.True_', 'np.False_', 'True ', 'False ')) and bad:
            ctx.ev()
            ctx.violation('json:write:numpy-bool-reweighted-flag-not-serialisable', {'error': msg[:200], 'reweighted_types': bad})
            return False, None
        raise


def raw_file(path, gz):
    if gz:
        with gzip.open(path, 'rb') as f:
            return f.read()
    with open(path, 'rb') as f:
        return f.read()


def json_transport(ctx, rng, x, transport, tmp, opts):
    """Write x (a structure, or a list of structures) and read it back.  Returns (done, result)."""
    indent = int(rng.integers(0, 2))
    desc = [None, 'a description', {'k': [1, 2, {'z': None}], 'text': 'uü"'}, 7, ''][int(rng.integers(0, 5))]
    opts.update(indent=indent, desc=repr(desc))
    kw = {'indent': indent}
    if desc is not None:
        kw['description'] = desc
    MON.docs.clear()
    if transport in ('string', 'string-full'):
        okw, s = guarded_write(ctx, x, lambda: JIO.create_json_string(x, **kw))
        if not okw:
            return False, None
        full = transport.endswith('full')
        r = JIO.import_json_string(s, verbose=bool(rng.random() < 0.1), full_output=full)
    elif transport in ('file', 'file.gz', 'file-full'):
        gz = transport != 'file'
        if transport == 'file-full':
            gz = bool(rng.integers(0, 2))
        stem = os.path.join(tmp, 'f%d' % int(rng.integers(0, 10 ** 6)))
        # the explicit gz flag decides about compression, also when the name carries the other extension
        given = stem + str(rng.choice(['', '.json', '.json.gz', '.json']))
        opts.update(gz=gz, name=given[len(stem):])
        okw, _ = guarded_write(ctx, x, lambda: JIO.dump_to_json(x, given, gz=gz, **kw))
        if not okw:
            return False, None
        path = given if given.endswith('.gz') else stem + '.json' + ('.gz' if gz else '')
        if not ctx.require(os.path.exists(path), 'json:file-not-at-documented-name', {'given': given, 'gz': gz, 'dir': os.listdir(tmp)}):
            return False, None
        data = raw_file(path, gz)
        ctx.require(len(MON.docs) == 1 and data == MON.docs[-1].encode('utf-8'), 'json:file-content-differs-from-emitted-string',
                    {'ndocs': len(MON.docs), 'len_file': len(data)})
        full = transport == 'file-full'
        r = JIO.load_json(given if (rng.random() < 0.5 or given.endswith('.gz')) else stem, verbose=False, gz=gz, full_output=full)
    elif transport == 'method':
        # Obs.dump / Corr.dump (json.gz); other structures go through dump_to_json
        stem = 'm%d' % int(rng.integers(0, 10 ** 6))
        with_path = bool(rng.integers(0, 2))          # path keyword, or the directory as part of the file name
        opts['path_keyword'] = with_path
        pk = {'path': tmp} if with_path else {}
        fn = stem if with_path else os.path.join(tmp, stem)
        if is_obs(x):
            d = 'descr' if desc is None else desc
            if rng.random() < 0.3:
                okw, _ = guarded_write(ctx, x, lambda: x.dump(fn, description=d, **pk))       # default datatype
            else:
                okw, _ = guarded_write(ctx, x, lambda: x.dump(fn, datatype='json.gz', description=d, **pk))
        elif is_corr(x):
            okw, _ = guarded_write(ctx, x, lambda: x.dump(fn, datatype='json.gz', **pk) if rng.random() < 0.7 else x.dump(fn, **pk))
        else:
            okw, _ = guarded_write(ctx, x, lambda: JIO.dump_to_json(x, os.path.join(tmp, stem), **kw))
        if not okw:
            return False, None
        if not ctx.require(os.path.exists(os.path.join(tmp, stem + '.json.gz')), 'json:file-not-at-documented-name', {'given': fn, 'dir': os.listdir(tmp)}):
            return False, None
        full = False
        r = JIO.load_json(os.path.join(tmp, stem), verbose=False)
    else:
        raise ValueError(transport)
    if full:
        ctx.require(isinstance(r, dict) and isinstance(r.get('obsdata'), list), 'json:full-output-form', {'type': type(r).__name__})
        if transport != 'method':
            ctx.require(json_strict_equal(r.get('description'), '' if desc is None else desc), 'json:description', {'got': repr(r.get('description'))[:200], 'exp': repr(desc)})
        r = r['obsdata']
        return True, (r, x if isinstance(x, list) else [x], True)
    if isinstance(x, list) and len(x) != 1:
        return True, (r, x, True)
    return True, (r, expect_top(x), False)


def run_json(ctx, rng, x, what, support, transport, tmp):
    opts = {'transport': transport}
    ctx.cell(what, support, transport)
    frozen = freeze(x)
    done, res = json_transport(ctx, rng, x, transport, tmp, opts)
    if not done:
        return
    got, exp, separate = res
    post_checks(ctx, x, frozen, got, 'json')
    compare(ctx, rng, got, exp, P_JSON, transport, opts, separate=separate)
    if rng.random() < 0.25 and MON.docs:
        # the same argument object handed to the writer a second time gives the same document (header apart)
        first = MON.docs[-1]
        second = JIO.create_json_string(x, indent=1 if (transport == 'method' and (is_obs(x) or is_corr(x))) else opts.get('indent', 1))
        ctx.require(first.split('"obsdata"', 1)[-1] == second.split('"obsdata"', 1)[-1], 'json:second-write-of-the-same-object-differs',
                    {'len_first': len(first), 'len_second': len(second)})
    ctx.sample({'structure': what, 'support': support, 'transport': opts, 'members': sum(1 for _ in walk_obs(x)),
                'chains': sorted(set(n for o in walk_obs(x) for n in o.names))})


def run_dict(ctx, rng, support, tmp, with_empty_list=False):
    d = make_dict(ctx, rng, support, with_empty_list=with_empty_list)
    if rng.random() < 0.25:
        # many structures in one dictionary: the placeholders get two- and three-digit indices
        # (a reader that looks at the last digit only mixes them up; added after seeded change seed4-C11)
        many = int(rng.choice([11, 12, 21, 37, 101]))
        fam = family(ctx, rng, support, big=True)
        bulk = {}
        for k in range(many):
            o = fam.member()
            o.tag = 'member %d' % k
            tgt = bulk if k % 3 else bulk.setdefault('deep%d' % (k % 2), {})
            if k % 5 == 4:
                tgt.setdefault('mixed', []).extend([o, 'sep%d' % k])
            else:
                tgt['m%03d' % k] = o
        d['bulk'] = bulk
        ctx.count('dicts_with_more_than_ten_structures')
    if with_empty_list:
        d[str(rng.choice(['empty', 'no members']))] = []       # keys outside DICT_KEYS: no structure is overwritten
    gz = bool(rng.integers(0, 2))
    indent = int(rng.integers(0, 2))
    reps = str(rng.choice(['DICTOBS', 'DICTOBS', 'PLACEHOLDER']))
    desc = ['', 'dict description', {'a': [1, None]}][int(rng.integers(0, 3))]
    opts = dict(transport='dictfile', gz=gz, indent=indent, reps=reps, desc=repr(desc))
    ctx.cell('dict', support, 'dictfile.gz' if gz else 'dictfile')
    stem = os.path.join(tmp, 'd%d' % int(rng.integers(0, 10 ** 6)))
    MON.docs.clear()
    kw = {} if reps == 'DICTOBS' else {'reps': reps}
    if rng.random() < 0.4:
        # plain strings that look like the placeholder of the other setting are ordinary values
        d[str(rng.choice(['look', 'alike']))] = str(rng.choice(LOOKALIKE[reps]))
        sub = next((v for v in d.values() if isinstance(v, dict)), None)
        if sub is not None:
            sub['look2'] = [str(rng.choice(LOOKALIKE[reps])), 1]
    if rng.random() < 0.35:
        # a string that does match the placeholder in force: refusing is the documented reaction, substituting it on import is not
        bad = dict(d)
        bad['collision'] = reps + '0'
        try:
            JIO.dump_dict_to_json(bad, stem + 'c', description=desc, indent=indent, gz=gz, **kw)
        except Exception as e:
            ctx.ev()
            ctx.count('j:jsondict:placeholder-lookalike-string-replaced-on-import')
            ctx.count('placeholder_collision_refused')
            ctx.require('placeholder' in str(e), 'jsondict:placeholder-collision-unexpected-error', {'error': repr(e)[:200]})
        else:
            rb = JIO.load_json_dict(stem + 'c', verbose=False, gz=gz, **kw)
            ctx.require(isinstance(rb.get('collision'), str) and rb.get('collision') == reps + '0', 'jsondict:placeholder-lookalike-string-replaced-on-import',
                        {'got': type(rb.get('collision')).__name__})
    frozen = freeze(d)
    frozen_desc = copy.deepcopy(desc)
    if with_empty_list:
        ctx.count('j:jsondict:empty-list-value-raises-IndexError')
    try:
        okw, _ = guarded_write(ctx, d, lambda: JIO.dump_dict_to_json(d, stem, description=desc, indent=indent, gz=gz, **kw))
    except IndexError:
        if with_empty_list:
            ctx.ev()
            ctx.violation('jsondict:empty-list-value-raises-IndexError', {'keys': sorted(d)})
            return
        raise
    if not okw:
        return
    path = stem + '.json' + ('.gz' if gz else '')
    data = raw_file(path, gz)
    ctx.require(len(MON.docs) == 1 and data == MON.docs[-1].encode('utf-8'), 'json:file-content-differs-from-emitted-string', {'ndocs': len(MON.docs)})
    full = bool(rng.random() < 0.3)
    r = JIO.load_json_dict(stem, verbose=False, gz=gz, full_output=full, **kw)
    if full:
        ctx.require(json_strict_equal(r.get('description'), desc), 'jsondict:description', {'got': repr(r.get('description'))[:200], 'exp': repr(desc)})
        r = r['obsdata']
    ctx.require(json_strict_equal(desc, frozen_desc), 'argument-modified-by-writer:description', {'got': repr(desc)[:200]})
    post_checks(ctx, d, frozen, r, 'jsondict')
    compare(ctx, rng, r, d, Profile('jsondict'), 'dictfile', opts)
    ctx.sample({'structure': 'dict', 'support': support, 'transport': opts, 'keys': sorted(d), 'members': sum(1 for _ in walk_obs(d))})


def csv_cells(path, gz):
    """Cells of a csv file read with the standard library (independent of pandas).  pandas compresses by file-name
    extension whatever the gz flag says, so the content decides how the file is opened."""
    import io
    with open(path, 'rb') as fb:
        raw = fb.read()
    if raw[:2] == b'\x1f\x8b':
        raw = gzip.decompress(raw)
    csv.field_size_limit(10 ** 9)
    return list(csv.reader(io.StringIO(raw.decode('utf-8'), newline='')))


ONE_ELEMENT_LIST = 'df:one-element-list-cell-read-back-as-bare-obs'
CSV_NAME = 'df-csv:dump_df-appends-.csv-to-name-ending-in-.csv.gz-where-load_df-does-not-look'


def frame_read(ctx, fn, auto_gamma, short_lists):
    ctx.count('j:' + ONE_ELEMENT_LIST, len(short_lists))
    try:
        return fn()
    except (TypeError, AttributeError) as e:
        if auto_gamma and short_lists and ("'Obs' object is not iterable" in str(e) or "'list' object has no attribute 'gm'" in str(e)):
            # same cause seen from inside the library: its own auto_gamma loop iterates over the cell it unpacked
            ctx.ev()
            ctx.violation(ONE_ELEMENT_LIST, {'error': str(e), 'where': 'auto_gamma loop of the reader', 'cells': short_lists})
            return None
        raise


def run_frame(ctx, rng, support, transport, tmp):
    import pandas as pd
    nrows = int(rng.integers(1, 4)) if rng.random() < 0.9 else int(rng.integers(11, 14))     # rows are numbered: also more than 10
    cols = {}
    cols['id'] = [int(i) for i in rng.permutation(50)[:nrows]]
    cols['label'] = [str(rng.choice(['x', 'NA', 'null', 'a,b', 'q"uote', 'line\nbreak', 'ü'])) for _ in range(nrows)]
    kinds = []
    for what in ['obs', 'list', 'corr1', 'corrN']:
        if rng.random() < (0.8 if what == 'obs' else 0.4):
            kinds.append(what)
    if not kinds:
        kinds = ['obs']
    for what in kinds:
        if nrows > 10:
            fam = family(ctx, rng, support, big=True)
            cols['c_' + what] = [fam.member() if what == 'obs' else [fam.member() for _ in range(2)] if what == 'list' else
                                 make_corr(ctx, rng, support, 1 if what == 'corr1' else 2, fam=fam, spec=(2, set(), [0, 0])) for _ in range(nrows)]
        else:
            cols['c_' + what] = [make_structure(ctx, rng, what, support) for _ in range(nrows)]
    if 'list' in kinds and rng.random() < 0.5:
        cols['c_list'][int(rng.integers(0, nrows))] = make_list(ctx, rng, support, n=1)       # the one-element list cell
    order = [str(c) for c in rng.permutation(list(cols))]
    df = pd.DataFrame({c: cols[c] for c in order})
    gz = transport.endswith('.gz')
    auto_gamma = bool(rng.random() < 0.2)
    if auto_gamma:
        # the reader will call gm() on every imported observable: only when the default analysis is possible at all
        for o in walk_obs(cols):
            try:
                o.gamma_method()
            except Exception:
                auto_gamma = False
                break
    short_lists = [(w, i) for w in kinds if w == 'list' for i in range(nrows) if len(cols['c_list'][i]) == 1]
    opts = dict(transport=transport, rows=nrows, columns=order, auto_gamma=auto_gamma)
    for what in kinds:
        ctx.cell({'obs': 'Obs', 'list': 'list', 'corr1': 'Corr1', 'corrN': 'CorrN'}[what], support, transport)
    MON.docs.clear()
    ndocs = nrows * len(kinds)
    frozen = freeze(cols)
    if transport.startswith('csv'):
        stem = os.path.join(tmp, 'frame')
        given = stem + (str(rng.choice(['', '.csv', '.csv', '.csv.gz'])) if not gz else str(rng.choice(['', '.csv', '.csv.gz', '.csv.gz', '.csv.gz'])))
        opts['name'] = given[len(stem):]
        okw, _ = guarded_write(ctx, cols, lambda: PIO.dump_df(df, given, gz=gz))
        if not okw:
            return
        path = given if (given.endswith('.gz') and not gz) else stem + '.csv' + ('.gz' if gz else '')
        read_name = given if (rng.random() < 0.6 or path == given) else (stem if rng.random() < 0.5 else path)
        if given.endswith('.csv.gz'):
            ctx.count('j:' + CSV_NAME)
        if not os.path.exists(path):
            # dump_df and load_df must agree on where a given name lives (as dump_to_json / load_json do)
            found = sorted(f for f in os.listdir(tmp) if f.startswith('frame'))
            ctx.ev()
            if given.endswith('.csv.gz') and found == ['frame.csv.gz.csv.gz']:
                ctx.violation(CSV_NAME, {'given': os.path.basename(given), 'gz': gz, 'written': found,
                                         'load_df looks for': os.path.basename(given)})
                path = read_name = os.path.join(tmp, found[0])
            else:
                ctx.violation('df-csv:file-not-at-documented-name', {'given': os.path.basename(given), 'gz': gz, 'written': found})
                return
        rows = csv_cells(path, gz)
        cells = [c for row in rows[1:] for c in row if c.startswith('{"program"')]
        ctx.require(rows[0] == order and len(rows) == nrows + 1, 'df-csv:file-shape', {'header': rows[0], 'rows': len(rows)})
        ctx.require(sorted(cells) == sorted(MON.docs) and len(cells) == ndocs, 'df-csv:cells-differ-from-emitted-documents',
                    {'cells': len(cells), 'docs': len(MON.docs), 'expected': ndocs})
        back = frame_read(ctx, lambda: PIO.load_df(read_name, auto_gamma=auto_gamma, gz=gz), auto_gamma, short_lists)
        fam = 'df-csv'
    else:
        db = os.path.join(tmp, 'frame.sqlite')
        okw, _ = guarded_write(ctx, cols, lambda: PIO.to_sql(df, 'tab', db, gz=gz))
        if not okw:
            return
        con = sqlite3.connect(db)
        try:
            raw = con.execute('SELECT %s FROM tab' % ', '.join('"c_%s"' % w for w in kinds)).fetchall()
        finally:
            con.close()
        cells = []
        for row in raw:
            for c in row:
                if gz:
                    ctx.require(isinstance(c, bytes) and c[:2] == b'\x1f\x8b', 'df-sql:cell-not-gzipped', {'type': type(c).__name__})
                    c = gzip.decompress(c).decode('utf-8') if isinstance(c, bytes) else c
                cells.append(c)
        ctx.require(sorted(cells) == sorted(MON.docs) and len(cells) == ndocs, 'df-sql:cells-differ-from-emitted-documents',
                    {'cells': len(cells), 'docs': len(MON.docs), 'expected': ndocs})
        back = frame_read(ctx, lambda: PIO.read_sql('SELECT * from tab', db, auto_gamma=auto_gamma), auto_gamma, short_lists)
        fam = 'df-sql'
    if back is None:
        return
    ctx.require(list(back.columns) == order and len(back) == nrows, fam + ':frame-shape', {'columns': list(back.columns), 'rows': len(back)})
    got = {c: list(back[c]) for c in back.columns}
    ctx.require([int(i) for i in got['id']] == cols['id'], fam + ':plain-int-column', {'got': repr(got['id']), 'exp': cols['id']})
    ctx.require([str(s) for s in got['label']] == cols['label'], fam + ':plain-str-column', {'got': repr(got['label']), 'exp': cols['label']})
    prof = Profile(fam)
    ctx.require(all(df[c][i] is cols[c][i] for c in cols for i in range(nrows) if c.startswith('c_')), 'argument-modified-by-writer:frame-cells-replaced', {})
    post_checks(ctx, cols, frozen, {c: got[c] for c in got if c.startswith('c_')}, fam)
    for what in kinds:
        c = 'c_' + what
        for i in range(nrows):
            g, e = got[c][i], cols[c][i]
            if what == 'list' and len(e) == 1 and is_obs(g):
                # the cell [o] is written as a document with a single structure, which the reader unpacks
                ctx.ev()
                ctx.violation(ONE_ELEMENT_LIST, {'transport': transport, 'row': i, 'got': 'Obs', 'exp': 'list of 1 Obs'})
                e = e[0]
            # a list cell is handed to the writer as the top-level list: its members are separate structures
            compare(ctx, rng, g, e, prof, '%s %s row %d' % (transport, what, i), dict(opts, column=what, row=i), separate=isinstance(e, list))
    ctx.sample({'structure': 'frame', 'support': support, 'transport': opts})


def run_pickle(ctx, rng, support, idx, tmp):
    what = ['obs', 'corr1', 'list', 'array', 'corrN', 'dict', 'obs'][idx % 7]
    if what == 'dict':
        x = make_dict(ctx, rng, support)
    else:
        x = make_structure(ctx, rng, what, support)
    if rng.random() < 0.3:
        for o in list(walk_obs(x))[:2]:
            if analysable(rt_io.snap(o)):
                try:
                    o.gamma_method()         # analysis results travel with the pickle
                except ValueError:
                    pass                     # replicas without a common spacing cannot be analysed
    name = 'p%d' % int(rng.integers(0, 10 ** 6))
    frozen = freeze(x)
    how = 'dump_object'
    with_path = bool(rng.integers(0, 2))
    pk = {'path': tmp} if with_path else {}
    fn = name if with_path else os.path.join(tmp, name)
    if is_obs(x) and rng.random() < 0.7:
        how = 'Obs.dump' + (' path=' if with_path else '')
        x.dump(fn, datatype='pickle', **pk)
    elif is_corr(x) and rng.random() < 0.7:
        how = 'Corr.dump' + (' path=' if with_path else '')
        x.dump(fn, datatype='pickle', **pk)
    else:
        PE.misc.dump_object(x, fn, **pk)
    ctx.cell(shape_class(x), support, 'pickle')
    path = os.path.join(tmp, name + '.p')
    if not ctx.require(os.path.exists(path), 'pickle:file-not-at-documented-name', {'how': how, 'dir': os.listdir(tmp)}):
        return
    r = PE.misc.load_object(path)
    post_checks(ctx, x, frozen, r, 'pickle', same_objects_allowed=True)
    compare(ctx, rng, r, x, P_PICKLE, 'pickle', {'how': how, 'what': what})
    ctx.sample({'structure': what, 'support': support, 'transport': how})


def run_rew(ctx, rng, idx, tmp):
    """Reweighted observables: the flag has to survive; produced by reweight and by merge_obs of reweighted replicas."""
    how = ['reweight', 'merge', 'merge', 'reweight-list', 'merge-list', 'corr'][idx % 6]
    support = 'replicas' if 'merge' in how else ['one', 'replicas'][idx % 2]
    lay = rt_io.rand_layout(rng, support, 5, 25, allow_bare=False)
    e = sorted(lay)[0]
    chains = lay[e]

    def rew_on(sub, n):
        names = sorted(sub)
        w = PE.Obs([1.0 + 0.05 * rng.normal(size=len(sub[c])) for c in names], names, idl=[sub[c] for c in names])
        return PE.reweight(w, [rt_io.primary(PE, rng, sub, str(rng.choice(['white', 'ar', 'counts'])), special=False) for _ in range(n)],
                           all_configs=bool(rng.integers(0, 2)))
    n = 1 if how in ('reweight', 'merge') else int(rng.integers(2, 4))
    if 'merge' in how:
        parts = [rew_on({c: chains[c]}, n) for c in sorted(chains)]
        members = [PE.merge_obs([p[i] for p in parts]) for i in range(n)]
    else:
        members = rew_on(chains, n if how != 'corr' else 4)
    if how in ('reweight', 'merge'):
        x = members[0]
        x.tag = pick_tag(rng)
        what = 'obs'
    elif how == 'corr':
        x = PE.Corr(members)
        what = 'corr1'
    elif rng.random() < 0.5:
        x = list(members)
        what = 'list'
    else:
        x = np.array(members, dtype=object)
        what = 'array1'
    ctx.count('reweighted_structures')
    transport = TRANSPORTS[(idx // 6) % len(TRANSPORTS)]
    if (idx // 36) % 3 == 2:
        # through a data frame
        import pandas as pd
        if what in ('obs', 'list', 'corr1'):
            df = pd.DataFrame({'c': [x]})
            MON.docs.clear()
            okw, _ = guarded_write(ctx, x, lambda: PIO.dump_df(df, os.path.join(tmp, 'rw'), gz=False))
            if okw:
                back = PIO.load_df(os.path.join(tmp, 'rw'), gz=False)
                ctx.cell('rew-' + what, support, 'csv')
                compare(ctx, rng, back['c'][0], x, Profile('df-csv'), 'csv rew', {'how': how})
            return
    # stored state: a structure of the same shape on the same chains that is NOT reweighted, written before and after
    def plain_twin():
        mk = lambda: rt_io.primary(PE, rng, chains, 'white', special=False)
        if what == 'obs':
            return mk()
        if what == 'corr1':
            return PE.Corr([mk() for _ in members])
        if what == 'list':
            return [[mk() for _ in members]]
        a = np.empty(len(members), dtype=object)
        for i in range(len(members)):
            a[i] = mk()
        return a
    first = bool(rng.integers(0, 2))
    if first:
        y = plain_twin()
        compare(ctx, rng, JIO.import_json_string(JIO.create_json_string(y), verbose=False), expect_top(y), P_JSON, 'plain twin before', {'how': how})
    run_json(ctx, rng, [x] if (what == 'list' and rng.random() < 0.7) else x, 'rew-' + what, support, transport, tmp)
    if not first:
        y = plain_twin()
        compare(ctx, rng, JIO.import_json_string(JIO.create_json_string(y), verbose=False), expect_top(y), P_JSON, 'plain twin after', {'how': how})


def run_edge(ctx, rng, idx, tmp):
    """Boundary shapes of the quantifier: 0-dimensional arrays, an empty list inside a dict."""
    support = SUPPORTS[idx % 5]
    if idx % 3 == 2:
        run_dict(ctx, rng, support, tmp, with_empty_list=True)
        return
    a = np.empty((), dtype=object)
    a[()] = make_obs(ctx, rng, support)
    transport = ['string', 'file.gz'][idx % 2]
    ctx.cell('array0d', support, transport)
    ctx.count('j:json:zero-dimensional-array-written-but-not-readable')
    MON.docs.clear()
    if transport == 'string':
        s = JIO.create_json_string(a)
        reader = lambda: JIO.import_json_string(s, verbose=False)
    else:
        JIO.dump_to_json(a, os.path.join(tmp, 'zero'))
        reader = lambda: JIO.load_json(os.path.join(tmp, 'zero'), verbose=False)
    try:
        r = reader()
    except TypeError as e:
        if "can't multiply sequence by non-int" in str(e) or 'cannot be interpreted as an integer' in str(e):
            ctx.ev()
            ctx.violation('json:zero-dimensional-array-written-but-not-readable', {'error': str(e)[:200], 'layout': pyjson.loads(MON.docs[-1])['obsdata'][0].get('layout')})
            return
        raise
    compare(ctx, rng, r, a, P_JSON, transport + ' 0-d', {'transport': transport})


# ------------------------------------------------------------------------------------------
# histories: different structures that agree in everything a cheap key would look at, one after the other in one process
# ------------------------------------------------------------------------------------------
def build_twins(ctx, rng, what, support):
    """Two structures of identical type / shape / chain names / first configuration / chain lengths (and last configuration
    whenever there is room) with different interior configuration numbers and different data."""
    famA = family(ctx, rng, support, big=True)
    famB = Family(PE, rng, support, layout=rt_io.twin_layout(rng, famA.layout), cvs=famA.cvs, cov_extreme=famA.cov_extreme, kinds=famA.kinds)
    spec = {}
    if what == 'list':
        spec['n'] = int(rng.integers(1, 4))
    elif what == 'array':
        sh = [(2,), (2, 2), (1, 3), (2, 1, 2)]
        spec['shape'] = sh[int(rng.integers(0, len(sh)))]
    elif what in ('corr1', 'corrN'):
        T = int(rng.integers(1, 5))
        und = set(int(i) for i in rng.choice(T, size=int(rng.integers(0, T)), replace=False)) if T > 1 else set()
        spec['corr'] = (T, und, [int(rng.integers(0, 2)), int(rng.integers(0, 2))])
        spec['N'] = 1 if what == 'corr1' else 2

    def build(fam, tagged):
        if what == 'obs':
            x = fam.member()
        elif what == 'list':
            x = [fam.member() for _ in range(spec['n'])]
        elif what == 'array':
            n = int(np.prod(spec['shape']))
            x = np.empty(n, dtype=object)
            for i in range(n):
                x[i] = fam.member()
            x = x.reshape(spec['shape'])
        elif what in ('corr1', 'corrN'):
            x = make_corr(ctx, rng, support, spec['N'], fam=fam, spec=spec['corr'])
            for o in walk_obs(x):
                o.tag = None
        else:
            a = np.empty(2, dtype=object)
            a[0], a[1] = fam.member(), fam.member()
            x = {'o': fam.member(), 'l': [fam.member(), fam.member()], 'n': {'a': a, 'p': 3, 'e': {}}, 'm': [fam.member(), 'text']}
        # stored state: one twin carries tags / prange, the other does not
        for o in walk_obs(x):
            o.tag = pick_tag(rng) if tagged else None
        if is_corr(x):
            x.tag = 'twin A' if tagged else None
            x.prange = [0, x.T - 1] if tagged else None
        return x
    first_tagged = bool(rng.integers(0, 2))
    return build(famA, first_tagged), build(famB, not first_tagged), famA, famB


def wrap(x):
    """(object handed to the writer, object expected from the reader)."""
    if isinstance(x, list):
        return [x], x
    return x, x


def rt_compare(ctx, rng, got, x, prof, label, opts, separate=False):
    compare(ctx, rng, got, x, prof, label, dict(opts, step=label), separate=separate)


def run_history(ctx, rng, idx, tmp):
    support = ['one', 'replicas', 'ensembles', 'mixed', 'cov'][idx % 5]
    what = ['obs', 'list', 'array', 'corr1', 'corrN', 'dict'][(idx // 5) % 6]
    mode = ['strings', 'same-name-two-directories', 'overwrite-same-name', 'frames', 'dictfiles-and-pickle'][(idx // 30 + idx) % 5]
    if what == 'dict' and mode != 'dictfiles-and-pickle':
        mode = 'dictfiles-and-pickle'
    if mode == 'frames' and what in ('array', 'dict'):
        mode = 'overwrite-same-name'
    A, B, famA, famB = build_twins(ctx, rng, what, support)
    ctx.cell('history', what, support, mode)
    ctx.count('histories')
    opts = {'history': mode, 'what': what}
    gz = bool(rng.integers(0, 2))
    indent = int(rng.integers(0, 2))
    order = [int(i) for i in rng.permutation(2)]
    pair = [A, B]
    if mode == 'strings':
        docs = [JIO.create_json_string(wrap(x)[0], indent=indent) for x in pair]
        reads = {}
        for k in order + order[::-1]:
            r = JIO.import_json_string(docs[k], verbose=False)
            rt_compare(ctx, rng, r, wrap(pair[k])[1], P_JSON, 'strings read %d' % k, opts)
            if k in reads:
                sh = rt_io.sharing(list(walk_obs(r)), list(walk_obs(reads[k])))
                ctx.require(not sh, 'json:two-reads-of-one-document-share-memory', {'pairs': sh[:5]})
                # an earlier result must not have been changed by the later reads
                rt_compare(ctx, rng, reads[k], wrap(pair[k])[1], P_JSON, 'strings earlier result %d' % k, opts)
            reads[k] = r
    elif mode == 'same-name-two-directories':
        dirs = [os.path.join(tmp, 'a'), os.path.join(tmp, 'b')]
        for dname, x in zip(dirs, pair):
            os.mkdir(dname)
            if is_obs(x) and rng.random() < 0.5:
                x.dump('same', path=dname)
                gzk = True
            else:
                JIO.dump_to_json(wrap(x)[0], os.path.join(dname, 'same'), indent=indent, gz=gz)
                gzk = gz
            opts['gz'] = gzk
        gzs = [os.path.exists(os.path.join(dname, 'same.json.gz')) for dname in dirs]
        for k in order + order[::-1]:
            r = JIO.load_json(os.path.join(dirs[k], 'same'), verbose=False, gz=gzs[k])
            rt_compare(ctx, rng, r, wrap(pair[k])[1], P_JSON, 'file %s/same' % 'ab'[k], opts)
    elif mode == 'overwrite-same-name':
        name = os.path.join(tmp, 'again')
        for step, x in enumerate([A, B, A]):
            JIO.dump_to_json(wrap(x)[0], name, indent=indent, gz=gz)
            r = JIO.load_json(name, verbose=False, gz=gz)
            rt_compare(ctx, rng, r, wrap(x)[1], P_JSON, 'overwrite step %d' % step, opts)
        # modify the object that was dumped last, dump again under the same name
        x = A
        if is_obs(x):
            x.tag = {'changed': True}
        elif is_corr(x):
            x.tag = 'changed'
            x.prange = None if x.prange is not None else [0, x.T - 1]
        elif isinstance(x, list):
            x[0] = famA.member()
            x[0].tag = 'replaced'
        else:
            x.flat[0] = famA.member()
            x.flat[0].tag = 0
        JIO.dump_to_json(wrap(x)[0], name, indent=indent, gz=gz)
        r = JIO.load_json(name, verbose=False, gz=gz)
        rt_compare(ctx, rng, r, wrap(x)[1], P_JSON, 'dump, modify, dump again', opts)
    elif mode == 'frames':
        import pandas as pd
        fams = [famA, famB]

        def second(k):
            # a second row of the same kind
            return build_like(ctx, rng, pair[k], fams[k], support)
        rows = [[pair[k], second(k)] for k in range(2)]
        dfs = [pd.DataFrame({'id': [10 * k + 1, 10 * k + 2], 'c': rows[k]}) for k in range(2)]

        def judge(back, exp_rows, label, fam):
            if not ctx.require(len(back) == len(exp_rows), fam + ':frame-shape', {'rows': len(back), 'exp': len(exp_rows), 'step': label}):
                return
            for i, e in enumerate(exp_rows):
                g = back['c'][i]
                if isinstance(e, list) and len(e) == 1 and is_obs(g):
                    ctx.ev()
                    ctx.violation(ONE_ELEMENT_LIST, {'transport': label, 'row': i, 'got': 'Obs', 'exp': 'list of 1 Obs'})
                    e = e[0]
                rt_compare(ctx, rng, g, e, Profile(fam), '%s row %d' % (label, i), opts, separate=isinstance(e, list))
        db = os.path.join(tmp, 'h.sqlite')
        PIO.to_sql(dfs[order[0]], 'tab', db, gz=gz)
        judge(PIO.read_sql('SELECT * from tab', db), rows[order[0]], 'sql first table', 'df-sql')
        PIO.to_sql(dfs[order[1]], 'tab', db, if_exists='replace', gz=gz)
        judge(PIO.read_sql('SELECT * from tab', db), rows[order[1]], 'sql if_exists=replace', 'df-sql')
        PIO.to_sql(dfs[order[0]], 'tab', db, if_exists='append', gz=gz)
        judge(PIO.read_sql('SELECT * from tab', db), rows[order[1]] + rows[order[0]], 'sql if_exists=append', 'df-sql')
        f = os.path.join(tmp, 'hframe.csv.gz' if gz else 'hframe')
        for k in order:
            PIO.dump_df(dfs[k], f, gz=gz)
            if gz:
                ctx.count('j:' + CSV_NAME)
            try:
                back = PIO.load_df(f, gz=gz)
            except FileNotFoundError:
                if not (gz and 'hframe.csv.gz.csv.gz' in os.listdir(tmp)):
                    raise
                ctx.ev()
                ctx.violation(CSV_NAME, {'given': 'hframe.csv.gz', 'written': sorted(x for x in os.listdir(tmp) if x.startswith('hframe'))})
                break
            judge(back, rows[k], 'csv overwritten by table %d' % k, 'df-csv')
    else:
        names = [os.path.join(tmp, 'dict%d' % k) for k in range(2)]
        ds = [{'s': pair[k], 'x': k, 'n': {'s': 'text'}} if what != 'dict' else pair[k] for k in range(2)]
        for k in order:
            JIO.dump_dict_to_json(ds[k], names[k], indent=indent, gz=gz)
        for k in order[::-1] + order:
            r = JIO.load_json_dict(names[k], verbose=False, gz=gz)
            rt_compare(ctx, rng, r, ds[k], Profile('jsondict'), 'dict file %d' % k, opts)
        for k in order:
            PE.misc.dump_object(pair[k], 'samepickle', path=tmp)
            r = PE.misc.load_object(os.path.join(tmp, 'samepickle.p'))
            rt_compare(ctx, rng, r, pair[k], P_PICKLE, 'pickle overwritten by %d' % k, opts)
    ctx.sample({'structure': what, 'support': support, 'history': mode, 'order': order,
                'chains A': {n: [list(o.idl[n])[0], list(o.idl[n])[-1], len(o.idl[n])] for o in list(walk_obs(A))[:1] for n in o.names if n not in o.covobs},
                'chains B': {n: [list(o.idl[n])[0], list(o.idl[n])[-1], len(o.idl[n])] for o in list(walk_obs(B))[:1] for n in o.names if n not in o.covobs}})


def build_like(ctx, rng, x, fam, support):
    """Another structure of the same type and shape on the family's layout."""
    if is_obs(x):
        return fam.member()
    if is_corr(x):
        pad = [next((i for i, c in enumerate(x.content) if c is not None), 0), 0]
        pad[1] = next((i for i, c in enumerate(x.content[::-1]) if c is not None), 0)
        inner = x.content[pad[0]:x.T - pad[1]]
        und = set(i for i, c in enumerate(inner) if c is None)
        return make_corr(ctx, rng, support, x.N, fam=fam, spec=(len(inner), und, pad))
    if isinstance(x, list):
        return [fam.member() for _ in x]
    raise ValueError(type(x))


# ------------------------------------------------------------------------------------------
# the same object at several positions
# ------------------------------------------------------------------------------------------
def run_alias(ctx, rng, idx, tmp):
    support = SUPPORTS[idx % 5]
    shape = ['list', 'array', 'corr1', 'corrN', 'dict', 'top', 'frame'][(idx // 5) % 7]
    fam = family(ctx, rng, support, big=True)
    a, b, c = fam.member(), fam.member(), fam.member()
    a.tag = pick_tag(rng)
    b.tag = pick_tag(rng)
    ctx.count('alias_cases')
    if shape == 'list':
        x = [[a, b, a] if rng.random() < 0.5 else [a, a]]
    elif shape == 'array':
        x = np.empty((2, 2), dtype=object)
        x[0, 0], x[0, 1], x[1, 0], x[1, 1] = a, b, b, a
        if rng.random() < 0.3:
            x[0, 1] = a
    elif shape == 'corr1':
        x = PE.Corr([a, b, a, None, a] if rng.random() < 0.5 else [a, a])
        x.tag = 'alias'
    elif shape == 'corrN':
        m = np.empty((2, 2), dtype=object)
        m[0, 0], m[0, 1], m[1, 0], m[1, 1] = a, b, b, a
        m2 = np.empty((2, 2), dtype=object)
        m2[0, 0], m2[0, 1], m2[1, 0], m2[1, 1] = c, a, a, c
        x = PE.Corr([m, m2, m] if rng.random() < 0.5 else [m, None, m])
    elif shape == 'dict':
        li = [a, b]
        arr = np.empty(2, dtype=object)
        arr[0], arr[1] = a, a
        x = {'x': a, 'y': li, 'z': {'x': a, 'again': li}, 'w': [a, 'sep', a, [a]], 'v': arr, 'u': PE.Corr([a, c, a])}
    elif shape == 'top':
        arr = np.empty(3, dtype=object)
        arr[0], arr[1], arr[2] = a, b, a
        x = [a, [a, b], arr, a, PE.Corr([b, a])]
    else:
        x = None
    transport = ['string', 'file.gz', 'pickle', 'file'][(idx // 35) % 4] if shape not in ('dict', 'frame') else shape
    ctx.cell('alias', shape, support, transport)
    opts = {'alias': shape, 'transport': transport}
    if shape == 'frame':
        import pandas as pd
        rows = [a, a, b, a]
        df = pd.DataFrame({'c': rows, 'l': [[a, b], [a, a], [b, a], [a, b]], 'k': [PE.Corr([a, b, a])] * 4})
        gz = bool(rng.integers(0, 2))
        if rng.random() < 0.5:
            PIO.dump_df(df, os.path.join(tmp, 'al'), gz=gz)
            back = PIO.load_df(os.path.join(tmp, 'al'), gz=gz)
            fam_name = 'df-csv'
        else:
            PIO.to_sql(df, 'tab', os.path.join(tmp, 'al.sqlite'), gz=gz)
            back = PIO.read_sql('SELECT * from tab', os.path.join(tmp, 'al.sqlite'))
            fam_name = 'df-sql'
        exp = {'c': rows, 'l': list(df['l']), 'k': list(df['k'])}
        if ctx.require(len(back) == 4, fam_name + ':frame-shape', {'rows': len(back)}):
            for col in exp:
                for i in range(4):
                    rt_compare(ctx, rng, back[col][i], exp[col][i], Profile(fam_name), 'alias frame %s[%d]' % (col, i), opts, separate=isinstance(exp[col][i], list))
            sh = rt_io.sharing([o for col in exp for cell in back[col] for o in walk_obs(cell)])
            ctx.require(not sh, fam_name + ':results-share-memory-with-each-other', {'pairs': sh[:5]})
        return
    frozen = freeze(x)
    if shape == 'dict':
        gz = bool(rng.integers(0, 2))
        JIO.dump_dict_to_json(x, os.path.join(tmp, 'ad'), gz=gz)
        r = JIO.load_json_dict(os.path.join(tmp, 'ad'), verbose=False, gz=gz)
        post_checks(ctx, x, frozen, r, 'jsondict')
        rt_compare(ctx, rng, r, x, Profile('jsondict'), 'alias dict', opts)
    elif transport == 'pickle':
        PE.misc.dump_object(x, 'ap', path=tmp)
        r = PE.misc.load_object(os.path.join(tmp, 'ap.p'))
        post_checks(ctx, x, frozen, r, 'pickle', same_objects_allowed=True)
        rt_compare(ctx, rng, r, x, P_PICKLE, 'alias pickle', opts)
    else:
        if transport == 'string':
            r = JIO.import_json_string(JIO.create_json_string(x, indent=int(rng.integers(0, 2))), verbose=False)
        else:
            gz = transport == 'file.gz'
            JIO.dump_to_json(x, os.path.join(tmp, 'af'), gz=gz)
            r = JIO.load_json(os.path.join(tmp, 'af'), verbose=False, gz=gz)
        separate = isinstance(x, list) and len(x) != 1
        exp = x if separate else expect_top(x)
        post_checks(ctx, x, frozen, r, 'json')
        rt_compare(ctx, rng, r, exp, P_JSON, 'alias ' + transport, opts, separate=separate)
    ctx.sample({'structure': shape, 'support': support, 'transport': transport, 'same object at several positions': True})


# ------------------------------------------------------------------------------------------
# members that may not share a structure: equal summaries, different interior (checklist 10)
# ------------------------------------------------------------------------------------------
T_MIXED = 'json:structure-with-members-on-different-configurations-accepted-and-misaligned'


def run_reject(ctx, rng, idx, tmp):
    """A List / Array / matrix Corr / dict list whose members agree in chain names, first and last configuration and chain
    lengths but not in the interior.  One configuration column is stored per structure, so the writer has to refuse
    (documented: all Obs inside a structure are defined on the same set of configurations); writing it and reading back
    members on the wrong configurations is the failure."""
    support = ['one', 'replicas', 'ensembles', 'mixed'][idx % 4]
    shape = ['list', 'array', 'corrN', 'dict', 'frame-corr'][(idx // 4) % 5]
    famA = family(ctx, rng, support, big=True)
    famB = Family(PE, rng, support, layout=rt_io.twin_layout(rng, famA.layout), cvs=famA.cvs, cov_extreme=famA.cov_extreme, kinds=famA.kinds)
    a1, a2, b = famA.member(), famA.member(), famB.member()
    pos = int(rng.integers(0, 3))
    members = [a1, a2]
    members.insert(pos, b)                      # the odd one out sits first, in the middle or last
    ctx.cell('reject', shape, support, pos)
    rt_io.judged(ctx, T_MIXED)
    try:
        if shape == 'list':
            x, exp = [list(members)], list(members)
            s = JIO.create_json_string(x)
        elif shape == 'array':
            arr = np.empty(3, dtype=object)
            for i, o in enumerate(members):
                arr[i] = o
            x = exp = arr
            s = JIO.create_json_string(x)
        elif shape in ('corrN', 'frame-corr'):
            m = np.empty((2, 2), dtype=object)
            m[0, 0], m[0, 1], m[1, 0], m[1, 1] = members[0], members[1], members[2], members[0]
            x = exp = PE.Corr([m, m])
            if shape == 'frame-corr':
                import pandas as pd
                PIO.dump_df(pd.DataFrame({'c': [x]}), os.path.join(tmp, 'rej'))
                got = PIO.load_df(os.path.join(tmp, 'rej'))['c'][0]
                s = None
            else:
                s = JIO.create_json_string(x)
        else:
            x = exp = {'members': list(members), 'other': 1}
            JIO.dump_dict_to_json(x, os.path.join(tmp, 'rej'))
            got = JIO.load_json_dict(os.path.join(tmp, 'rej'), verbose=False)
            s = None
        if s is not None:
            got = JIO.import_json_string(s, verbose=False)
    except Exception as e:
        ctx.count('mixed_configuration_structures_refused')
        chain, cur = [], e
        while cur is not None and len(chain) < 6:       # pandas wraps the library's exception
            chain.append(str(cur))
            cur = cur.__cause__ or cur.__context__
        ctx.require(any('same' in m or 'idl' in m for m in chain), 'json:mixed-structure-refused-with-unrelated-error', {'error': chain[:3], 'shape': shape})
        return
    # accepted: then every member has to come back on its own configurations
    trial = ctx.trial()
    ok = cmp_tree(trial, tree(got), tree(exp), Profile('json'), 'x', 'top', None)
    if not ok:
        ctx.violation(T_MIXED, {'shape': shape, 'position of the odd member': pos,
                                'first differences': [v['mechanism'] for v in trial.violations[:4]]})
    else:
        ctx.absorb(trial)


# ------------------------------------------------------------------------------------------
# scale of a container: more than 10 and more than 100 members / timeslices / structures (checklist 12)
# ------------------------------------------------------------------------------------------
def run_bulk(ctx, rng, idx, tmp):
    support = ['one', 'replicas', 'mixed', 'ensembles'][idx % 4]
    shape = ['list12', 'list101', 'array11', 'array4x3', 'array103', 'corr1-T12', 'corr1-T101', 'corrN-T11', 'multi12', 'multi101',
             'frame12'][(idx // 4) % 11]
    fam = Family(PE, rng, support, nmin=5, nmax=7, maxens=2, mags='unit')
    n = int(''.join(ch for ch in shape.split('-T')[-1] if ch.isdigit())) if shape not in ('array4x3',) else 12

    def members(k):
        out = [fam.member() for _ in range(k)]
        for i, o in enumerate(out):
            o.tag = 'member %d' % i              # positions are recognisable
        return out
    ctx.count('bulk_structures')
    transport = ['string', 'file.gz', 'pickle', 'file'][(idx // 44) % 4]
    if shape.startswith('list'):
        x = [members(n)]
    elif shape.startswith('array'):
        a = np.empty(n, dtype=object)
        for i, o in enumerate(members(n)):
            a[i] = o
        x = a.reshape((4, 3)) if shape == 'array4x3' else a
    elif shape.startswith('corr1'):
        ms = members(n)
        und = set(int(i) for i in rng.choice(n, size=n // 4, replace=False))
        x = PE.Corr([None if t in und else ms[t] for t in range(n)])
        x.tag = 'T = %d' % n
        x.prange = [n - 2, n - 1]
    elif shape.startswith('corrN'):
        cont = []
        for t in range(n):
            m = np.empty((2, 2), dtype=object)
            m[0, 0], m[0, 1], m[1, 0], m[1, 1] = members(4)
            cont.append(m if t != 10 else None)
        x = PE.Corr(cont)
    elif shape.startswith('multi'):
        # many structures in one document, of alternating type
        ms = members(n)
        x = [ms[i] if i % 3 else [ms[i], ms[(i + 1) % n]] for i in range(n)]
    else:
        import pandas as pd
        ms = members(12)
        df = pd.DataFrame({'id': list(range(12)), 'c': ms})
        gz = bool(rng.integers(0, 2))
        ctx.cell('bulk', shape, support, 'frame')
        if rng.random() < 0.5:
            PIO.dump_df(df, os.path.join(tmp, 'b'), gz=gz)
            back = PIO.load_df(os.path.join(tmp, 'b'), gz=gz)
            famn = 'df-csv'
        else:
            PIO.to_sql(df, 'tab', os.path.join(tmp, 'b.sqlite'), gz=gz)
            back = PIO.read_sql('SELECT * from tab', os.path.join(tmp, 'b.sqlite'))
            famn = 'df-sql'
        if ctx.require(len(back) == 12 and [int(i) for i in back['id']] == list(range(12)), famn + ':frame-shape', {'rows': len(back)}):
            for i in range(12):
                compare(ctx, rng, back['c'][i], ms[i], Profile(famn), 'bulk frame row %d' % i, {'bulk': shape, 'row': i})
        return
    ctx.cell('bulk', shape, support, transport)
    frozen = freeze(x)
    opts = {'bulk': shape, 'transport': transport}
    if transport == 'pickle':
        PE.misc.dump_object(x, 'bulk', path=tmp)
        r = PE.misc.load_object(os.path.join(tmp, 'bulk.p'))
        post_checks(ctx, x, frozen, r, 'pickle', same_objects_allowed=True)
        compare(ctx, rng, r, x, P_PICKLE, 'bulk pickle', opts)
        return
    if transport == 'string':
        r = JIO.import_json_string(JIO.create_json_string(x, indent=int(rng.integers(0, 2))), verbose=False)
    else:
        gz = transport == 'file.gz'
        JIO.dump_to_json(x, os.path.join(tmp, 'bulk'), gz=gz)
        r = JIO.load_json(os.path.join(tmp, 'bulk'), verbose=False, gz=gz)
    separate = isinstance(x, list) and len(x) != 1
    post_checks(ctx, x, frozen, r, 'json')
    compare(ctx, rng, r, x if separate else expect_top(x), P_JSON, 'bulk ' + transport, opts, separate=separate)
    ctx.sample({'structure': shape, 'support': support, 'transport': transport})


# ------------------------------------------------------------------------------------------
# distinct members that the library's own == / hash cannot tell apart (equal elements, order of equivalent inputs)
# ------------------------------------------------------------------------------------------
def near_twins(rng, a, other=None):
    """Observables on a's chains that compare equal to a with the tolerance-based == (and hash alike) but are different
    objects with different content: another tag, numbers shifted far below the == tolerance, another reweighted flag."""
    sc = abs(a.value) + max([float(np.max(np.abs(d))) for d in a.deltas.values() if len(d)] or [0.0])
    t_tag = 1.0 * a
    t_tag.tag = {'source': 'smeared', 'n': 2} if rng.random() < 0.5 else ('other tag' if a.tag != 'other tag' else 'another tag')
    t_val = a + 1e-12 * sc                 # central value and replica means shifted, same fluctuations
    t_val.tag = copy.deepcopy(a.tag)
    t_del = a * (1.0 + 3e-12)              # everything rescaled by 1 + 3e-12
    t_del.tag = None
    t_none = 1.0 * a                       # same numbers, no tag at all
    out = [t_tag, t_val, t_del, t_none]
    if other is not None:
        t_mean = other - other.value + a.value     # the same central value on different fluctuations
        t_mean.tag = copy.deepcopy(a.tag)
        out.append(t_mean)
    return out


def run_neartwin(ctx, rng, idx, tmp):
    support = SUPPORTS[idx % 5]
    shape = ['frame', 'list', 'frame', 'array', 'frame', 'corr1', 'frame', 'dict', 'frame', 'multi', 'frame', 'pickle'][(idx // 5) % 12]
    fam = Family(PE, rng, support, nmin=5, nmax=16, mags='unit' if rng.random() < 0.7 else 'any')
    a = fam.member()
    a.tag = ['point source', 0, None, 'tag'][int(rng.integers(0, 4))]
    tw = near_twins(rng, a, fam.member(mag=1.0) if fam.mags == 'unit' else None)
    pool = [a] + tw
    order = [int(i) for i in rng.permutation(len(pool))]           # the original is not always the first one met
    seq = [pool[i] for i in order]
    ctx.count('neartwin_cases')
    ctx.count('neartwin_members', len(seq))
    opts = {'neartwin': shape, 'order': order}
    ctx.cell('neartwin', shape, support)
    if shape == 'frame':
        import pandas as pd
        transport = FRAME_TRANSPORTS[(idx // 10) % 4]
        gz = transport.endswith('.gz')
        rows = seq + [a, tw[0]]                                       # the same object again, after its twins
        cols = {'id': list(range(len(rows))), 'o1': rows, 'o2': rows[::-1],
                'l': [[rows[i], rows[(i + 1) % len(rows)]] for i in range(len(rows))],
                'k': [PE.Corr([rows[i], rows[(i + 2) % len(rows)]]) for i in range(len(rows))]}
        df = pd.DataFrame(cols)
        frozen = freeze(cols)
        if transport.startswith('csv'):
            PIO.dump_df(df, os.path.join(tmp, 'nt'), gz=gz)
            back = PIO.load_df(os.path.join(tmp, 'nt'), gz=gz)
            famn = 'df-csv'
        else:
            PIO.to_sql(df, 'tab', os.path.join(tmp, 'nt.sqlite'), gz=gz)
            back = PIO.read_sql('SELECT * from tab', os.path.join(tmp, 'nt.sqlite'))
            famn = 'df-sql'
        opts['transport'] = transport
        if not ctx.require(len(back) == len(rows) and [int(i) for i in back['id']] == cols['id'], famn + ':frame-shape', {'rows': len(back)}):
            return
        post_checks(ctx, cols, frozen, {c: list(back[c]) for c in ('o1', 'o2', 'l', 'k')}, famn)
        for c in ('o1', 'o2', 'l', 'k'):
            for i in range(len(rows)):
                compare(ctx, rng, back[c][i], cols[c][i], Profile(famn), 'near twins %s[%d]' % (c, i), dict(opts, column=c, row=i), separate=isinstance(cols[c][i], list))
        ctx.sample({'structure': 'frame of near twins', 'support': support, 'transport': transport, 'order': order,
                    'tags': [repr(o.tag) for o in rows], 'values': [o.value for o in rows]})
        return
    if shape == 'list':
        x = [seq]
    elif shape == 'array':
        x = np.empty(len(seq), dtype=object)
        for i, o in enumerate(seq):
            x[i] = o
    elif shape == 'corr1':
        x = PE.Corr(seq)
    elif shape == 'dict':
        x = {'k%d' % i: o for i, o in enumerate(seq)}
        x['both'] = [seq[0], seq[1]]
        x['mixed'] = [seq[2], 'sep', seq[0]]
    else:
        x = list(seq) + [[seq[0], seq[1]]]                            # separate structures of one file (also for pickle)
    frozen = freeze(x)
    if shape == 'dict':
        JIO.dump_dict_to_json(x, os.path.join(tmp, 'ntd'))
        r = JIO.load_json_dict(os.path.join(tmp, 'ntd'), verbose=False)
        post_checks(ctx, x, frozen, r, 'jsondict')
        compare(ctx, rng, r, x, Profile('jsondict'), 'near twins dict', opts)
    elif shape == 'pickle':
        PE.misc.dump_object(x, 'ntp', path=tmp)
        r = PE.misc.load_object(os.path.join(tmp, 'ntp.p'))
        post_checks(ctx, x, frozen, r, 'pickle', same_objects_allowed=True)
        compare(ctx, rng, r, x, P_PICKLE, 'near twins pickle', opts)
    else:
        if rng.random() < 0.5:
            r = JIO.import_json_string(JIO.create_json_string(x, indent=int(rng.integers(0, 2))), verbose=False)
        else:
            JIO.dump_to_json(x, os.path.join(tmp, 'ntf'))
            r = JIO.load_json(os.path.join(tmp, 'ntf'), verbose=False)
        separate = isinstance(x, list) and len(x) != 1
        post_checks(ctx, x, frozen, r, 'json')
        compare(ctx, rng, r, x if separate else expect_top(x), P_JSON, 'near twins ' + shape, opts, separate=separate)
    ctx.sample({'structure': shape + ' of near twins', 'support': support, 'order': order, 'tags': [repr(o.tag) for o in seq]})


# ------------------------------------------------------------------------------------------
# dict keys that are not strings (documented: converted to strings), numpy scalars in descriptions and tags
# ------------------------------------------------------------------------------------------


def converted_keys(x):
    """What the documentation of dump_to_json promises for dict keys that are not strings."""
    if isinstance(x, dict):
        out = {}
        for k, v in x.items():
            if k is True:
                k2 = 'true'
            elif k is False:
                k2 = 'false'
            elif k is None:
                k2 = 'null'
            elif isinstance(k, str):
                k2 = k
            else:
                k2 = str(k)
            out[k2] = converted_keys(v)
        return out
    if isinstance(x, (list, tuple)):
        return [converted_keys(v) for v in x]
    return x


def run_keys(ctx, rng, idx, tmp):
    support = SUPPORTS[idx % 5]
    pools = [{1: 'a', 2.5: 'b', None: 'c', False: 'd'}, {np.int64(3): [1, {7: 'deep'}]}, {True: 'yes', -4: None}, {0: 0, 0.5: {None: 'n'}},
             {'outer': {2: 'inner', 3.5: [np.float32(0.25), np.int32(3)]}}, {1e-300: 'tiny', 10 ** 12: 'big'}]
    where = ['description', 'tag', 'member-tag', 'dict-description'][(idx // 5) % 4]
    mixed = idx % 3 == 2
    val = copy.deepcopy(pools[int(rng.integers(0, len(pools)))])
    if mixed:
        val['text key'] = 'next to the others'        # string keys next to non-string keys, in one dict
    exp = converted_keys(val)
    ctx.cell('keys', where, 'mixed' if mixed else 'non-string', support)
    # dicts with keys that are not strings are not JSON types: outside the quantifier of C11.  What happens to them is
    # recorded as telemetry only; what IS judged is that the observables travelling with them are unaffected.
    ctx.count('telemetry:dicts-with-non-string-keys')
    o = make_obs(ctx, rng, support)
    try:
        if where == 'description':
            r = JIO.import_json_string(JIO.create_json_string(o, description=val, indent=int(rng.integers(0, 2))), verbose=False, full_output=True)
            got, back = r['description'], r['obsdata'][0]
        elif where == 'tag':
            o.tag = val
            back = JIO.import_json_string(JIO.create_json_string(o), verbose=False)
            got = back.tag
        elif where == 'member-tag':
            fam = family(ctx, rng, support)
            ms = [fam.member(), fam.member()]
            ms[int(rng.integers(0, 2))].tag = val
            JIO.dump_to_json([ms], os.path.join(tmp, 'keys'))
            back = JIO.load_json(os.path.join(tmp, 'keys'), verbose=False)
            got = [b.tag for b in back]
            exp = [None if m.tag is None else exp for m in ms]
            o = ms
        else:
            JIO.dump_dict_to_json({'o': o}, os.path.join(tmp, 'keysd'), description=val)
            r = JIO.load_json_dict(os.path.join(tmp, 'keysd'), verbose=False, full_output=True)
            got, back = r['description'], r['obsdata']['o']
    except TypeError as e:
        if mixed and 'keys must be str' in str(e):
            ctx.count('tag-dict-with-mixed-key-types-refused')
            return
        raise
    ctx.count('telemetry:non-string-keys-converted-as-documented' if json_strict_equal(got, exp) else 'telemetry:non-string-keys-converted-differently')
    # the observables themselves are untouched by all this
    prof = Profile('json', check_tag=False)
    if isinstance(o, list):
        for b, m in zip(back, o):
            cmp_snap(ctx, rt_io.snap(b), rt_io.snap(m), prof, 'keys member')
    else:
        cmp_snap(ctx, rt_io.snap(back), rt_io.snap(o), prof, 'keys obs')
    ctx.nontrivial.add(digest('keys', where, mixed, repr(val), any_digest(o)))


# ------------------------------------------------------------------------------------------
# documents in the older layouts the reader says it supports (replica names without separator, Corr tag as a list)
# ------------------------------------------------------------------------------------------
def run_compat(ctx, rng, idx, tmp):
    support = ['one', 'replicas', 'ensembles', 'mixed'][idx % 4]
    what = ['obs', 'list', 'array', 'corr1', 'corrN'][(idx // 4) % 5]
    variant = 'corr-tag-list' if (what.startswith('corr') and (idx // 20) % 2 == 0) else 'replica-names-without-separator'
    fam = family(ctx, rng, support, big=True, allow_bare=False)
    if what == 'obs':
        x = fam.member()
        x.tag = pick_tag(rng)
    elif what == 'list':
        x = [[fam.member() for _ in range(int(rng.integers(1, 4)))]]
    elif what == 'array':
        x = np.empty((2, 2), dtype=object)
        for i in range(4):
            x.flat[i] = fam.member()
    else:
        x = make_corr(ctx, rng, support, 1 if what == 'corr1' else 2, fam=fam)
    ctx.cell('compat', what, support, variant)
    text = JIO.create_json_string(x, indent=int(rng.integers(0, 2)))
    doc = pyjson.loads(text)
    exp = expect_top(x)
    if variant == 'corr-tag-list':
        # old layout: the tag of a Corr is the plain list (member tags..., description); there is no prange
        rt_io.judged(ctx, 'json:old-format:corr-tag-list')
        for od in doc['obsdata']:
            od['tag'] = od['tag']['tag']
        got = JIO.import_json_string(pyjson.dumps(doc), verbose=False)
        eg, ee = tree(got), tree(exp)
        ee['prange'] = None
        cmp_tree(ctx, eg, ee, Profile('json:old-format'), 'x', 'top', None)
    else:
        rt_io.judged(ctx, 'json:old-format:replica-names-without-separator')
        n = 0
        for od in doc['obsdata']:
            for ens in od.get('data', []):
                for rep_ in ens['replica']:
                    if '|' in rep_['name']:
                        rep_['name'] = rep_['name'].replace('|', '')
                        n += 1
        if n == 0:
            ctx.count('compat_nothing_to_strip')
        got = JIO.import_json_string(pyjson.dumps(doc), verbose=False)
        cmp_tree(ctx, tree(got), tree(exp), Profile('json:old-format'), 'x', 'top', None)
    ctx.count('roundtrips_compared')
    ctx.nontrivial.add(digest('compat', variant, any_digest(x)))


# ------------------------------------------------------------------------------------------
# requests the documentation says are refused
# ------------------------------------------------------------------------------------------
def run_refuse(ctx, rng, idx, tmp):
    support = SUPPORTS[idx % 5]
    row = ['reps-not-alphanumeric-dump', 'reps-not-alphanumeric-load', 'not-a-dict', 'wrong-reps-on-load', 'placeholder-string-inside-list',
           'placeholder-string-in-nested-dict'][(idx // 5) % 6]
    o = make_obs(ctx, rng, support)
    d = {'a': o, 'n': {'b': [o, 'text', {'c': 1}]}}
    name = os.path.join(tmp, 'refuse')
    ctx.cell('refuse', row, support)
    rt_io.judged(ctx, 'jsondict:invalid-request-accepted:' + row)
    must = None
    try:
        if row == 'reps-not-alphanumeric-dump':
            must = 'alphanumeric'
            JIO.dump_dict_to_json(d, name, reps=str(rng.choice(['DICT_OBS', 'DICT OBS', 'D-O', ''])))
        elif row == 'reps-not-alphanumeric-load':
            must = 'alphanumeric'
            JIO.dump_dict_to_json(d, name)
            JIO.load_json_dict(name, verbose=False, reps='DICT_OBS')
        elif row == 'not-a-dict':
            must = 'dictionary'
            JIO.dump_dict_to_json([o, o] if rng.random() < 0.5 else o, name)
        elif row == 'wrong-reps-on-load':
            must = 'placeholder'
            JIO.dump_dict_to_json(d, name, reps='PLACEHOLDER')
            JIO.load_json_dict(name, verbose=False)
        elif row == 'placeholder-string-inside-list':
            must = 'placeholder'
            d['n']['b'].append('DICTOBS%d' % int(rng.choice([0, 1, 12])))
            JIO.dump_dict_to_json(d, name)
        else:
            must = 'placeholder'
            d['n']['deep'] = {'s': 'DICTOBS0'}
            JIO.dump_dict_to_json(d, name)
    except Exception as e:
        ctx.count('invalid_requests_refused')
        ctx.require(must in str(e), 'jsondict:invalid-request-refused-with-unrelated-error:' + row, {'error': repr(e)[:200]})
        return
    ctx.violation('jsondict:invalid-request-accepted:' + row, {'row': row})


def run_case(ctx, kind, idx, rng):
    with tempfile.TemporaryDirectory(prefix='vmon_C11_', dir='/var/tmp') as tmp:
        support = SUPPORTS[idx % 5]
        if kind in ('obs', 'list', 'array', 'corr1', 'corrN'):
            what = kind
            if kind == 'array':
                what = 'array%d' % ([1, 2, 3, 1, 2, 3, 4][(idx // 5) % 7])
            x = make_structure(ctx, rng, what, support)
            transport = TRANSPORTS[(idx // 5) % len(TRANSPORTS)]
            if kind == 'list' and (rng.random() < 0.85 or transport == 'method'):
                x = [x]                                    # one List structure; a bare top-level list means separate Obs structures
            elif rng.random() < 0.15 and not isinstance(x, list):
                x = [x]                                    # a one-element top-level list is unpacked by the readers
            run_json(ctx, rng, x, what, support, transport, tmp)
        elif kind == 'multi':
            # several structures, each with its own layout, in one document
            n = int(rng.integers(2, 5))
            x = [make_structure(ctx, rng, str(rng.choice(['obs', 'obs', 'list', 'array', 'corr1', 'corrN'])), SUPPORTS[(idx + j) % 5]) for j in range(n)]
            run_json(ctx, rng, x, 'multi', support, TRANSPORTS[(idx // 5) % len(TRANSPORTS)], tmp)
        elif kind == 'dict':
            run_dict(ctx, rng, support, tmp)
        elif kind == 'frame':
            run_frame(ctx, rng, support, FRAME_TRANSPORTS[(idx // 5) % 4], tmp)
        elif kind == 'pickle':
            run_pickle(ctx, rng, support, idx // 5, tmp)
        elif kind == 'rew':
            run_rew(ctx, rng, idx, tmp)
        elif kind == 'edge':
            run_edge(ctx, rng, idx, tmp)
        elif kind == 'history':
            run_history(ctx, rng, idx, tmp)
        elif kind == 'alias':
            run_alias(ctx, rng, idx, tmp)
        elif kind == 'reject':
            run_reject(ctx, rng, idx, tmp)
        elif kind == 'bulk':
            run_bulk(ctx, rng, idx, tmp)
        elif kind == 'neartwin':
            run_neartwin(ctx, rng, idx, tmp)
        elif kind == 'keys':
            run_keys(ctx, rng, idx, tmp)
        elif kind == 'compat':
            run_compat(ctx, rng, idx, tmp)
        elif kind == 'refuse':
            run_refuse(ctx, rng, idx, tmp)
        else:
            raise ValueError(kind)
